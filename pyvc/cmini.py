"""Mini front end for the C-like bodies of Naunet::HandleError / Reset / Observer::operator() in the rendered
C++ (C19).  The function text is taken from the really rendered source on every run; what is dropped:
comments, `(realtype)`/`(double)` casts (exact in the reals), I/O calls (fprintf/printf/sprintf: no effect on
the modelled state).  Statements: declarations, assignments (= -= +=), if / else if / else, for loops with
constant integer bounds (completely unrolled, with the unwinding bound checked), break, return, calls.

Execution is a guarded-state symbolic execution (no path forking): every variable is a z3 term, joins are
ite-merges, `returned`/`broken` are tracked as z3 Booleans; the result is one formula per function."""
from __future__ import annotations
import re
import z3
from contracts import ceval


class CMiniError(Exception):
    pass


def strip(text):
    text = re.sub(r"/\*.*?\*/", " ", text, flags=re.S)
    text = re.sub(r"//[^\n]*", " ", text)
    text = re.sub(r"\((?:realtype|double)\)\s*([A-Za-z_]\w*)", r"TOREAL(\1)", text)   # value-preserving cast
    if re.search(r"\((?:realtype|double|int)\)\s*[\w(]", text):
        raise CMiniError("cast outside the fragment")
    return text


class Parser:
    def __init__(self, text):
        self.t = text
        self.i = 0

    def ws(self):
        while self.i < len(self.t) and self.t[self.i].isspace():
            self.i += 1

    def peek(self, s):
        self.ws()
        return self.t.startswith(s, self.i)

    def word(self):
        self.ws()
        m = re.match(r"[A-Za-z_][A-Za-z0-9_:]*", self.t[self.i:])
        return m.group() if m else None

    def eat(self, s):
        self.ws()
        if not self.t.startswith(s, self.i):
            raise CMiniError(f"expected {s!r} at {self.t[self.i:self.i+40]!r}")
        self.i += len(s)

    def balanced(self, open_, close):
        """text up to the matching close (consumes it)"""
        depth, j = 1, self.i
        in_str = False
        while j < len(self.t):
            c = self.t[j]
            if c == '"' and self.t[j - 1] != "\\":
                in_str = not in_str
            elif not in_str:
                if c == open_:
                    depth += 1
                elif c == close:
                    depth -= 1
                    if depth == 0:
                        s = self.t[self.i:j]
                        self.i = j + 1
                        return s
            j += 1
        raise CMiniError("unbalanced")

    def until_semicolon(self):
        depth, j, in_str = 0, self.i, False
        while j < len(self.t):
            c = self.t[j]
            if c == '"' and self.t[j - 1] != "\\":
                in_str = not in_str
            elif not in_str:
                if c in "([":
                    depth += 1
                elif c in ")]":
                    depth -= 1
                elif c == ";" and depth == 0:
                    s = self.t[self.i:j]
                    self.i = j + 1
                    return s
            j += 1
        raise CMiniError("missing ;")

    def block(self):
        self.ws()
        if self.peek("{"):
            self.eat("{")
            out = []
            while not self.peek("}"):
                out.append(self.stmt())
            self.eat("}")
            return out
        return [self.stmt()]

    def stmt(self):
        self.ws()
        w = self.word()
        if w == "if":
            self.eat("if")
            self.eat("(")
            cond = self.balanced("(", ")")
            then = self.block()
            els = []
            self.ws()
            if self.word() == "else":
                self.eat("else")
                els = self.block()
            return ("if", expr(cond), then, els)
        if w == "for":
            self.eat("for")
            self.eat("(")
            head = self.balanced("(", ")")
            body = self.block()
            m = re.fullmatch(r"\s*int\s+(\w+)\s*=\s*(.+?);\s*\1\s*<\s*(.+?);\s*\1\+\+\s*", head)
            if not m:
                raise CMiniError(f"for-loop header outside the fragment: {head!r}")
            return ("for", m.group(1), expr(m.group(2)), expr(m.group(3)), body)
        if w == "return":
            self.eat("return")
            e = self.until_semicolon().strip()
            return ("return", expr(e) if e else None)
        if w == "break":
            self.eat("break")
            self.until_semicolon()
            return ("break",)
        if w == "try" or w == "catch" or w == "throw":
            raise CMiniError(f"`{w}` is outside the fragment")
        s = self.until_semicolon().strip()
        if not s:
            return ("nop",)
        m = re.match(r"(realtype|double|int|char)\s+(\w+)(\[[^\]]*\])?\s*(=\s*(.*))?$", s, flags=re.S)
        if m:
            if m.group(5) is None:
                return ("decl", m.group(2), None)
            return ("decl", m.group(2), expr(m.group(5)))
        m = re.match(r"([A-Za-z_]\w*(?:\[[^\]]*\])?)\s*(=|-=|\+=)(?!=)\s*(.*)$", s, flags=re.S)
        if m:
            return ("assign", expr(m.group(1)), m.group(2), expr(m.group(3)))
        return ("expr", expr(s))


def expr(text):
    text = text.strip()
    # string literals and address-of are irrelevant for the modelled state
    text = re.sub(r'(?:"(?:[^"\\]|\\.)*"\s*)+', "0 ", text)
    text = re.sub(r"(?<![&\w\)\]])&(?!&)\s*(\w+)", r"ADDR_\1", text)
    try:
        return ceval.parse_expr(text)
    except ceval.CSyntaxError as e:
        raise CMiniError(f"expression outside the fragment: {text!r}: {e}")


def parse_body(text):
    p = Parser(strip(text))
    out = []
    while True:
        p.ws()
        if p.i >= len(p.t):
            break
        out.append(p.stmt())
    return out


# ------------------------------------------------------------------------------------------------
class State:
    def __init__(self, vars_, arrays):
        self.v = dict(vars_)         # name -> z3 term (Int / Real)
        self.a = dict(arrays)        # name -> z3 Array Int->Real
        self.returned = z3.BoolVal(False)
        self.retval = z3.IntVal(-99)
        self.broken = z3.BoolVal(False)
        self.side = []               # side conditions (assumptions from callee contracts)
        self.checks = []             # (name, condition-under-which, claim)

    def copy(self):
        s = State(self.v, self.a)
        s.returned, s.retval, s.broken = self.returned, self.retval, self.broken
        s.side, s.checks = self.side, self.checks
        return s


def merge(c, s1: State, s2: State) -> State:
    out = State({}, {})
    for k in set(s1.v) | set(s2.v):
        a, b = s1.v.get(k), s2.v.get(k)
        if a is None or b is None:
            out.v[k] = a if a is not None else b
        elif a.eq(b):
            out.v[k] = a
        else:
            if z3.is_int(a) and z3.is_real(b):
                a = z3.ToReal(a)
            if z3.is_int(b) and z3.is_real(a):
                b = z3.ToReal(b)
            out.v[k] = z3.If(c, a, b)
    for k in set(s1.a) | set(s2.a):
        a, b = s1.a.get(k), s2.a.get(k)
        out.a[k] = a if (b is None or a is not None and a.eq(b)) else (b if a is None else z3.If(c, a, b))
    out.returned = z3.If(c, s1.returned, s2.returned)
    out.retval = z3.If(c, s1.retval, s2.retval)
    out.broken = z3.If(c, s1.broken, s2.broken)
    out.side, out.checks = s1.side, s1.checks
    return out


class Exec:
    """calls: name -> callable(executor, state, arg asts) -> z3 term (return value); may update state"""

    def __init__(self, consts, calls, max_unroll=64):
        self.consts, self.calls, self.max_unroll = consts, calls, max_unroll
        self.n = 0
        self.loop_contracts = {}
        self.obligations = []      # (name, assumptions list, claim)

    def fresh(self, name, sort):
        self.n += 1
        return z3.Const(f"{name}!{self.n}", sort)

    def ev(self, e, st: State):
        k = e[0]
        if k == "num":
            t = e[1]
            return z3.IntVal(int(t)) if re.fullmatch(r"\d+", t) else z3.RealVal(str(__import__("fractions").Fraction(t)))
        if k == "id":
            n = e[1]
            if n in st.v:
                return st.v[n]
            if n in self.consts:
                return self.consts[n]
            raise CMiniError(f"unknown identifier {n}")
        if k == "idx":
            return z3.Select(st.a[e[1]], self.ev(e[2], st))
        if k == "call" and e[1] == "TOREAL":
            v = self.ev(e[2][0], st)
            return z3.ToReal(v) if z3.is_int(v) else v
        if k == "call":
            f = self.calls.get(e[1])
            if f is None:
                raise CMiniError(f"call of {e[1]} has no contract")
            return f(self, st, e[2])
        if k in ("u-", "u+"):
            v = self.ev(e[1], st)
            return -v if k == "u-" else v
        if k == "u!":
            return z3.Not(self.b(e[1], st))
        if k in ("&&", "||"):
            a, b = self.b(e[1], st), self.b(e[2], st)
            return z3.And(a, b) if k == "&&" else z3.Or(a, b)
        a, b = self.ev(e[1], st), self.ev(e[2], st)
        if z3.is_int(a) and z3.is_real(b):
            a = z3.ToReal(a)
        if z3.is_int(b) and z3.is_real(a):
            b = z3.ToReal(b)
        if k == "+": return a + b
        if k == "-": return a - b
        if k == "*": return a * b
        if k == "/": return a / b
        return {"<": a < b, ">": a > b, "<=": a <= b, ">=": a >= b, "==": a == b, "!=": a != b}[k]

    def b(self, e, st):
        v = self.ev(e, st)
        return v if z3.is_bool(v) else v != 0

    def run(self, stmts, st: State, active=None) -> State:
        for s in stmts:
            st = self.step(s, st)
        return st

    def live(self, st):
        return z3.And(z3.Not(st.returned), z3.Not(st.broken))

    def step(self, s, st: State) -> State:
        live = z3.simplify(self.live(st))
        if z3.is_false(live):
            return st
        k = s[0]
        if k == "nop":
            return st
        new = st.copy()
        if k == "decl":
            if s[2] is not None:
                val = self.ev(s[2], new)
                out = self._guard(live, new, st)   # calls in the initialiser may have effects: mask them when dead
                out.v[s[1]] = val                  # a fresh local: its value in dead code is irrelevant
                return out
            return new
        if k == "assign":
            cur = None
            val = self.ev(s[3], new)
            if s[2] != "=":
                cur = self.ev(s[1], new)
                if z3.is_int(val) and z3.is_real(cur):
                    val = z3.ToReal(val)
                val = cur - val if s[2] == "-=" else cur + val
            self._set(new, s[1], val, z3.BoolVal(True), st)
            return self._guard(live, new, st)
        if k == "expr":
            self.ev(s[1], new)     # calls may update `new`
            return self._guard(live, new, st)
        if k == "return":
            rv = self.ev(s[1], new) if s[1] is not None else z3.IntVal(0)
            new.retval = z3.If(live, rv, st.retval)
            new.returned = z3.Or(st.returned, live)
            return new
        if k == "break":
            new.broken = z3.Or(st.broken, live)
            return new
        if k == "if":
            c = self.b(s[1], new)      # condition may contain calls with effects
            base = self._guard(live, new, st)
            s1 = self.run(s[2], base.copy())
            s2 = self.run(s[3], base.copy())
            return merge(c, s1, s2)
        if k == "for" and s[1] in getattr(self, "loop_contracts", {}):
            return self.loop_contracts[s[1]](self, s, new, st, live)
        if k == "for":
            lo, hi = z3.simplify(self.ev(s[2], new)), z3.simplify(self.ev(s[3], new))
            if not (z3.is_int_value(lo) and z3.is_int_value(hi)):
                if self.is_accumulate_loop(s):
                    return self.accumulate_loop(s, new, st, live)
                return self.array_copy_loop(s, new, st, live)
            lo, hi = lo.as_long(), hi.as_long()
            if hi - lo > self.max_unroll:
                raise CMiniError(f"unwinding bound exceeded: {hi - lo} iterations")
            cur = new
            outer_broken = cur.broken
            for it in range(lo, hi):
                cur = cur.copy()
                cur.v[s[1]] = z3.IntVal(it)
                cur = self.run(s[4], cur)
            cur = cur.copy()
            cur.broken = outer_broken      # `break` leaves this loop only
            cur.v.pop(s[1], None)
            return cur
        raise CMiniError(f"statement {k}")

    SUM = z3.Function("SUM", z3.ArraySort(z3.IntSort(), z3.RealSort()), z3.IntSort(), z3.IntSort(), z3.RealSort())

    @staticmethod
    def is_accumulate_loop(s):
        var, body = s[1], s[4]
        return len(body) == 1 and body[0][0] == "assign" and body[0][2] == "+=" and body[0][1][0] == "id" and \
            body[0][1][1] != var and body[0][3][0] == "idx" and body[0][3][2] == ("id", var)

    def accumulate_loop(self, s, new, st, live):
        """for (int i = lo; i < hi; i++) acc += A[i];   with symbolic bounds.  Loop contract: invariant
        acc == acc0 + SUM(A, lo, i) where SUM is the recursively defined partial sum
            SUM(A, l, h) = 0 if h <= l,   SUM(A, l, h) = SUM(A, l, h - 1) + A[h - 1] if h > l.
        Establishment (i = lo) and preservation (one unfolding at h = i + 1) are instances of the definition; the exit
        state is acc == acc0 + SUM(A, lo, hi).  The instances of the definition for the bounds that occur are recorded in
        self.sum_instances for the caller's obligation."""
        var, body = s[1], s[4]
        acc, arrn = body[0][1][1], body[0][3][1]
        lo, hi = self.ev(s[2], new), self.ev(s[3], new)
        A = new.a[arrn]
        cur = new.v[acc]
        tot = self.SUM(A, lo, hi)
        if not hasattr(self, "sum_instances"):
            self.sum_instances = []
        self.sum_instances += [z3.Implies(hi <= lo, tot == 0),
                               z3.Implies(hi > lo, tot == self.SUM(A, lo, hi - 1) + z3.Select(A, hi - 1))]
        val = cur + tot
        new.v[acc] = val if z3.is_true(z3.simplify(live)) else z3.If(live, val, st.v[acc])
        return new

    def array_copy_loop(self, s, new, st, live):
        """for (int i = 0; i < N; i++) { X[i] = Y[i]; ... }  with symbolic N: element-wise array copies"""
        var, body = s[1], s[4]
        for b in body:
            ok = b[0] == "assign" and b[2] == "=" and b[1][0] == "idx" and b[1][2] == ("id", var) and \
                b[3][0] == "idx" and b[3][2] == ("id", var)
            if not ok:
                raise CMiniError("loop with symbolic bound is not an element-wise array copy")
        for b in body:
            dst, src = b[1][1], b[3][1]
            new.a[dst] = z3.If(live, new.a[src], st.a[dst]) if not z3.is_true(z3.simplify(live)) else new.a[src]
        return new

    def _set(self, new, target, val, live, old, declare=False):
        if target[0] == "id":
            n = target[1]
            cur = old.v.get(n)
            if cur is None or declare or z3.is_true(z3.simplify(live)):
                new.v[n] = val
            else:
                if z3.is_int(val) and z3.is_real(cur):
                    val = z3.ToReal(val)
                if z3.is_int(cur) and z3.is_real(val):
                    cur = z3.ToReal(cur)
                new.v[n] = z3.If(live, val, cur)
        elif target[0] == "idx":
            n = target[1]
            idx = self.ev(target[2], new)
            arr = z3.Store(new.a[n], idx, val)
            new.a[n] = arr if z3.is_true(z3.simplify(live)) else z3.If(live, arr, old.a[n])
        else:
            raise CMiniError("assignment target")

    def _guard(self, live, new, old):
        if z3.is_true(z3.simplify(live)):
            return new
        return merge(live, new, old)
