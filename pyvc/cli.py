"""./vf check Cxx [--tier quick|thorough] | replay <file> | list

Exit codes: 0 property held on everything explored (known findings printed as KNOWN-FINDING lines);
1 violation (line `VIOLATION property=<id> replay=<path>`); 2 undecided; 3 checker error."""
from __future__ import annotations
import argparse, json, os, sys, time, logging, importlib, hashlib, traceback, re

logging.disable(logging.CRITICAL)
HERE = os.path.dirname(os.path.dirname(os.path.abspath(__file__)))


def load_known():
    out = []
    p = os.path.join(HERE, "known_findings.txt")
    if not os.path.exists(p):
        return out
    for line in open(p):
        line = line.strip()
        if not line or line.startswith("#"):
            continue
        m = re.match(r"(finding|fixed):\s+property=(\S+)\s+(.*)", line)
        if not m:
            continue
        kind, prop, rest = m.groups()
        ent = {"kind": kind, "property": prop, "text": rest, "obligation": None, "witness": None}
        mo = re.search(r"obligation=(\S+)", rest)
        if mo:
            ent["obligation"] = mo.group(1)
        mw = re.search(r"witness=(\S+)", rest)
        if mw:
            ent["witness"] = mw.group(1)
        out.append(ent)
    return out


def match_known(known, prop, obligation=None, witness_sig=None):
    for k in known:
        if k["kind"] != "finding" or k["property"] != prop:
            continue
        if obligation is not None and k["obligation"] and k["obligation"] == obligation and not k["witness"]:
            return k
        if witness_sig is not None and k["witness"] and k["witness"] == witness_sig:
            return k
    return None


def main(argv=None):
    ap = argparse.ArgumentParser(prog="vf")
    sub = ap.add_subparsers(dest="cmd", required=True)
    c = sub.add_parser("check")
    c.add_argument("prop")
    c.add_argument("--tier", default=os.environ.get("VERIF_TIER", "quick"), choices=["quick", "thorough"])
    r = sub.add_parser("replay")
    r.add_argument("path")
    sub.add_parser("list")
    args = ap.parse_args(argv)
    from contracts import registry
    if args.cmd == "list":
        for pid, spec in sorted(registry.PROPERTIES.items()):
            print(pid, spec.get("level"), [u for u in spec.get("units", [])])
        return 0
    if args.cmd == "replay":
        from . import replay
        return replay.replay_file(args.path)
    try:
        return run_check(args.prop, args.tier)
    except SystemExit:
        raise
    except Exception:
        traceback.print_exc()
        print(f"CHECKER-ERROR property={args.prop}")
        return 3


def run_check(prop, tier):
    from contracts import registry
    from . import runner, units, evidence, smt
    t0 = time.time()
    os.environ["VERIF_TIER"] = tier      # units that scale with the tier read it (worker processes inherit the environment)
    seed = int(os.environ.get("VERIF_SEED", "0") or 0)
    spec = registry.PROPERTIES.get(prop)
    if spec is None:
        print(f"property {prop} is not claimed (see MANIFEST.json not_applicable)")
        return 3
    known = load_known()
    ev = evidence.Evidence(prop, tier, seed, spec)
    failed, undecided, errors = [], [], []
    # ---------------------------------------------------------------- deductive part
    for (module, uname) in spec.get("units", []):
        unit = units.load(module, uname)
        res = runner.explore(unit, props=(prop,), max_paths=unit.max_paths)
        summ = runner.summarize(res.obligations)
        for name, v in summ.items():
            if name.startswith("cover/") and v["status"] == "vacuous":
                errors.append(f"{uname}/{name}: assumptions are contradictory on every path that reaches this point (vacuous proof)")
            elif name.startswith("cover/") and v["status"] == "unknown":
                # an undecided guard is reported in the evidence (covers_sat) but is neither an alarm nor a pass of the guard
                print(f"[{prop}] note: vacuity guard {uname}/{name} undecided within its budget", flush=True)
        ncov = sum(1 for k in summ if k.startswith("cover/"))
        if ncov == 0 and not res.error:
            errors.append(f"{uname}: no vacuity guard was reached")
        ev.add_unit(unit, res, summ)
        if res.error:
            errors.append(f"{uname}: {res.error}")
        for name, v in summ.items():
            full = f"{uname}/{name}"
            if v["status"] in ("refuted", "cex-ground"):
                failed.append((full, v))
            elif v["status"] == "unknown":
                undecided.append((full, v))
        if len(summ) == 0 and not res.error:
            errors.append(f"{uname}: zero obligations generated (vacuous run)")
        print(f"[{prop}] unit {uname}: {len(summ)} obligation sites, {len(res.obligations)} instances, "
              f"{sum(1 for v in summ.values() if v['status'] == 'proved')} proved, paths={res.paths}, {res.seconds:.1f}s"
              + f", vacuity guards {ncov}" + (f", ERROR {res.error}" if res.error else ""), flush=True)
    # extra deductive items that are not path explorations (lemmas, table checks, template scans)
    for fn in spec.get("extra", []):
        items = fn(tier)
        ev.add_items(fn.__name__, items)
        for it in items:
            if it["status"] in ("refuted", "cex-ground"):
                failed.append((it["name"], it))
            elif it["status"] == "unknown":
                undecided.append((it["name"], it))
            elif it["status"] == "error":
                errors.append(f"{it['name']}: {it.get('detail', '')}")
        print(f"[{prop}] {fn.__name__}: {len(items)} obligations, {sum(1 for i in items if i['status'] == 'proved')} proved", flush=True)
    # ---------------------------------------------------------------- covers (vacuity guards)
    for fn in spec.get("covers", []):
        cov = fn()
        ev.add_covers(cov)
        for c in cov:
            if c["status"] != "sat":
                errors.append(f"cover {c['name']} not satisfiable ({c['status']}): contract may be vacuous")
    # ---------------------------------------------------------------- bounded native oracle (always run)
    native_viol = []
    oracle = spec.get("oracle")
    if oracle is not None:
        try:
            nres = oracle(tier, seed)
        except Exception as e:
            nres = {"cases": 0, "violations": [], "error": f"{type(e).__name__}: {e}\n{traceback.format_exc(limit=5)}"}
        ev.add_oracle(nres)
        if nres.get("error"):
            errors.append("native oracle: " + nres["error"])
        native_viol = nres.get("violations", [])
        print(f"[{prop}] bounded native check: {nres.get('cases', 0)} cases, {len(native_viol)} violating", flush=True)
    # ---------------------------------------------------------------- verdict
    RDIR = os.environ.get("VF_REPLAY_DIR") or os.path.join(HERE, "replays")
    os.makedirs(RDIR, exist_ok=True)
    lines, new_viol = [], 0
    reported_known = set()
    for v in native_viol:
        k = match_known(known, prop, witness_sig=v.get("signature"))
        if k is None and v.get("obligation"):
            k = match_known(known, prop, obligation=v.get("obligation"))
        if k is not None:
            if id(k) not in reported_known:
                reported_known.add(id(k))
                lines.append(f"KNOWN-FINDING: property={prop} {k['text']}")
            continue
        path = os.path.join(RDIR, f"{prop}-{abs(hash(v.get('signature', ''))) % 10**8}.json")
        json.dump({"property": prop, "kind": "native-witness", "witness": v}, open(path, "w"), indent=1, default=str)
        lines.append(f"VIOLATION property={prop} replay={path}")
        new_viol += 1
    native_paths = [ln.split("replay=")[1] for ln in lines if ln.startswith("VIOLATION")]
    lines = lines[:6] + ([f"# ... {len(lines) - 6} more native witnesses omitted"] if len(lines) > 6 else [])
    for full, v in failed:
        k = match_known(known, prop, obligation=full)
        if k is not None:
            if id(k) not in reported_known:
                reported_known.add(id(k))
                lines.append(f"KNOWN-FINDING: property={prop} {k['text']}")
            continue
        path = os.path.join(RDIR, f"{prop}-{re.sub(r'[^A-Za-z0-9]+', '_', full)[:120]}.json")
        doc = {"property": prop, "kind": "failed-obligation", "obligation": full, "status": v["status"],
               "solver_output": v.get("detail", ""), "model": v.get("model", ""), "decisions": v.get("decisions", [])}
        if native_paths:
            doc["native_witness"] = native_paths[0]
            doc["note"] = "the bounded native search found a failing input for this property (see native_witness)"
            json.dump(doc, open(path, "w"), indent=1, default=str)
            lines.append(f"VIOLATION property={prop} replay={path}")
        else:
            w = None
            if spec.get("witness"):
                try:
                    w = spec["witness"](full, v)
                except Exception as e:   # a failing replay harness never turns into a verdict by itself
                    doc["witness_error"] = f"{type(e).__name__}: {e}"
            if w:
                doc["witness"] = w
                doc["note"] = "counterexample derived from the failed obligation and replayed against the real code"
                json.dump(doc, open(path, "w"), indent=1, default=str)
                lines.append(f"VIOLATION property={prop} replay={path}")
            else:
                doc["note"] = ("no native failing input was found; this obligation is discharged on the unchanged tree and "
                               "fails now, with the solver's counter-model / reason attached")
                json.dump(doc, open(path, "w"), indent=1, default=str)
                lines.append(f"VIOLATION property={prop} replay={path} no-failing-input-found")
        new_viol += 1
    code = 0
    if new_viol:
        code = 1
    elif errors:
        code = 3
    elif undecided:
        code = 2
    ev.finish(time.time() - t0, new_viol, errors, undecided, lines)
    for ln in lines:
        print(ln)
    for e in errors:
        print(f"CHECKER-ERROR property={prop} {e}"[:2000])
    for full, v in undecided:
        print(f"UNDECIDED property={prop} obligation={full} {v.get('detail', '')[:300]}")
    print(f"[{prop}] tier={tier} exit={code} wall={time.time() - t0:.1f}s")
    return code


if __name__ == "__main__":
    sys.exit(main())
