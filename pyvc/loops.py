"""for-loops and comprehensions: unrolling over concrete collections, forking on small symbolic lengths,
cutting at invariants for unbounded symbolic collections."""
from __future__ import annotations
import ast
import z3
from .sym import (Sym, SInt, SReal, SBool, SStr, SList, FList, GList, SObj, SRange, SDict, Lit, Hole, Unsupported,
                  is_sym, subst_value)
from .ops import term_of, wrap_term, truth_term
from . import models, smt


class IterView:
    """uniform view of an iterable: length term (or concrete int) and element accessor"""

    def __init__(self, length, elem, concrete=None, overlays=(), elem_at=None, generic=None):
        self.generic = generic    # index term if this is a generic-element view (GList)
        self.length = length      # z3 Int term
        self.elem = elem          # callable(interp, idx_term) -> value
        self.concrete = concrete  # python list if known
        self.overlays = list(overlays)   # index terms at which some underlying list has a point update
        # elem_at(interp, idx_term, exact): element without forking; exact=True: idx is one of `overlays`
        self.elem_at = elem_at


def view_of(interp, it) -> IterView:
    from .interp import Closure
    from .sym import SymProto
    if isinstance(it, SymProto):
        return it._vf("vf_view")(interp)
    if isinstance(it, SList):
        return IterView(it.length, lambda ip, k, L=it: models.slist_get(ip, L, k, check=False))
    if isinstance(it, FList):
        if it.overlay:
            def at(ip, k, exact, L=it):
                if exact:
                    for (ui, uv) in reversed(L.overlay):
                        if ui.eq(k):
                            return uv
                return subst_value(L.template, L.ivar, k)
            # overlay reads fork; acceptable for small overlays
            return IterView(it.length, lambda ip, k, L=it: models.flist_get(ip, L, SInt(k)),
                            overlays=[ui for ui, _ in it.overlay], elem_at=at)
        return IterView(it.length, lambda ip, k, L=it: subst_value(L.template, L.ivar, k))
    if isinstance(it, GList):
        return IterView(it.length, lambda ip, k, L=it: L.value, generic=it.g)
    if isinstance(it, SRange):
        lo, hi = term_of(it.lo), term_of(it.hi)
        return IterView(z3.simplify(z3.If(hi > lo, hi - lo, 0)), lambda ip, k, lo=lo: wrap_term(z3.simplify(lo + k)))
    if isinstance(it, SDict):
        return IterView(it.length, lambda ip, k, D=it: (D.keys(ip, k), D.values(ip, k)))
    if isinstance(it, models.EnumView):
        inner = view_of(interp, it.inner)
        st = it.start
        conc = None
        if inner.concrete is not None and not isinstance(st, Sym):
            conc = [(st + i, x) for i, x in enumerate(inner.concrete)]
        at = None
        if inner.overlays:
            at = lambda ip, k, exact, inner=inner, st=st: (wrap_term(z3.simplify(term_of(st) + k)), inner.elem_at(ip, k, exact))
        return IterView(inner.length, lambda ip, k, inner=inner, st=st: (wrap_term(z3.simplify(term_of(st) + k)), inner.elem(ip, k)), conc,
                        overlays=inner.overlays, elem_at=at, generic=inner.generic)
    if isinstance(it, models.ZipView):
        inners = [view_of(interp, x) for x in it.inners]
        if all(v.concrete is not None for v in inners):
            return _concrete_view(list(zip(*[v.concrete for v in inners])))
        gens = [v.generic for v in inners if v.generic is not None]
        if gens:
            if len(gens) != len(inners) or any(not g.eq(gens[0]) for g in gens):
                raise Unsupported("zip of generic-element lists with other lists")
            return IterView(inners[0].length, lambda ip, k, inners=inners: tuple(v.elem(ip, k) for v in inners), generic=gens[0])
        n = inners[0].length
        for v in inners[1:]:
            n = z3.If(v.length < n, v.length, n)
        ovs = []
        for v in inners:
            for o in v.overlays:
                if not any(o.eq(x) for x in ovs):
                    ovs.append(o)
        at = None
        if ovs:
            def at(ip, k, exact, inners=inners):
                return tuple((v.elem_at(ip, k, exact) if v.elem_at else v.elem(ip, k)) for v in inners)
        return IterView(z3.simplify(n), lambda ip, k, inners=inners: tuple(v.elem(ip, k) for v in inners), overlays=ovs, elem_at=at)
    if isinstance(it, models._Iter):
        return _concrete_view(it.items[it.pos:])
    from . import setmodel
    if isinstance(it, setmodel.CSet):
        return _concrete_view(list(it.s))
    if isinstance(it, SStr):
        from .sym import EmitError
        raise EmitError(f"iteration over the characters of a code string {it!r}")
    if isinstance(it, Sym):
        raise Unsupported(f"iteration over {type(it).__name__}")
    try:
        items = list(it)
    except Exception as e:
        from .interp import PyRaise
        raise PyRaise(e)
    return _concrete_view(items)


def _concrete_view(items):
    return IterView(z3.IntVal(len(items)), lambda ip, k, items=items: items[int(str(z3.simplify(k)))], items)


MAX_FORK_LEN = 8


def concrete_items(interp, v) -> list:
    """elements of v as a Python list; a symbolic length is resolved by forking when the path condition
    bounds it by MAX_FORK_LEN (complete under that bound: every value is explored)"""
    view = view_of(interp, v)
    if view.concrete is not None:
        return list(view.concrete)
    n = z3.simplify(view.length)
    if z3.is_int_value(n):
        return [view.elem(interp, z3.IntVal(i)) for i in range(n.as_long())]
    if interp.spec_mode:
        raise Unsupported("concrete iteration over a symbolic-length collection in a specification")
    interp.ctx.length_bound(interp, n)
    for k in range(MAX_FORK_LEN + 1):
        if interp.branch(n == k):
            return [view.elem(interp, z3.IntVal(i)) for i in range(k)]
    raise Unsupported(f"collection length {n} not bounded by {MAX_FORK_LEN} on this path (needs a loop invariant)")


def loop_key(interp, s: ast.For, env):
    fn = env.func.__qualname__ if env.func else "<top>"
    t = ast.unparse(s.target)
    if t.startswith("(") and t.endswith(")"):
        t = t[1:-1]
    return fn, t


def assigned_names(stmts) -> set:
    """names (and attribute/subscript roots) that a block may modify"""
    out = set()

    class V(ast.NodeVisitor):
        def visit_Assign(self, n):
            for t in n.targets:
                self._tgt(t)
            self.generic_visit(n)

        def visit_AugAssign(self, n):
            self._tgt(n.target)
            self.generic_visit(n)

        def visit_AnnAssign(self, n):
            self._tgt(n.target)
            self.generic_visit(n)

        def visit_For(self, n):
            self._tgt(n.target)
            self.generic_visit(n)

        def visit_NamedExpr(self, n):
            self._tgt(n.target)
            self.generic_visit(n)

        def visit_Call(self, n):
            f = n.func
            if isinstance(f, ast.Attribute) and f.attr in ("append", "extend", "insert", "remove", "pop", "clear",
                                                           "update", "add", "discard", "sort", "reverse", "setdefault"):
                r = f.value
                while isinstance(r, (ast.Attribute, ast.Subscript)):
                    if isinstance(r, ast.Attribute) and isinstance(r.value, ast.Name):
                        out.add(f"{r.value.id}.{r.attr}")
                    r = r.value
                if isinstance(r, ast.Name):
                    out.add(r.id)
            self.generic_visit(n)

        def _tgt(self, t):
            if isinstance(t, ast.Name):
                out.add(t.id)
            elif isinstance(t, (ast.Tuple, ast.List)):
                for x in t.elts:
                    self._tgt(x)
            elif isinstance(t, ast.Starred):
                self._tgt(t.value)
            elif isinstance(t, (ast.Subscript, ast.Attribute)):
                r = t
                while isinstance(r, (ast.Subscript, ast.Attribute)):
                    if isinstance(r, ast.Attribute) and isinstance(r.value, ast.Name):
                        out.add(f"{r.value.id}.{r.attr}")
                    r = r.value
                if isinstance(r, ast.Name):
                    out.add(r.id)

        def visit_ListComp(self, n):
            self.generic_visit(n)

    v = V()
    for s in stmts:
        v.visit(s)
    return out


def exec_for(interp, s: ast.For, env):
    from .interp import BreakSig, ContinueSig, PathEnd
    it = interp.eval(s.iter, env)
    key = loop_key(interp, s, env)
    spec = interp.ctx.loop_spec(key)
    view = view_of(interp, it)
    if spec is None:
        items = view.concrete if view.concrete is not None else concrete_items(interp, it)
        broke = False
        for x in items:
            interp.assign(s.target, x, env)
            try:
                interp.exec_block(s.body, env)
            except BreakSig:
                broke = True
                break
            except ContinueSig:
                continue
        if not broke:
            interp.exec_block(s.orelse, env)
        return
    # ---------------- cut at invariant
    if s.orelse:
        raise Unsupported("for/else on a loop cut at an invariant")
    n = view.length
    lname = spec.label
    idx_name = spec.index
    # establishment
    env.set(idx_name, 0)
    if spec.ghost_init is not None:
        spec.ghost_init(interp, env)
    for j, (clause, props) in enumerate(spec.invariants):
        interp.prove(interp.spec_eval(clause, env), f"{lname}/establish[{j}]", props, detail=clause, hints=interp.ctx.hints_for(interp, env))
    mods = assigned_names(s.body) | set(spec.modifies)
    which = interp.choose(2, lname)
    interp.ctx.havoc(interp, env, mods, spec)
    if which == 0:
        k = interp.fresh_int(idx_name)
        interp.inst_terms = [t for t in interp.inst_terms] + [k]
        interp.assume(z3.And(k >= 0, k < n))
        env.set(idx_name, SInt(k))
        for clause, props in spec.invariants:
            interp.assume(_asbool(interp.spec_eval(clause, env)))
        for clause in spec.assume_in_body:
            interp.assume(_asbool(interp.spec_eval(clause, env)))
        interp.assign(s.target, view.elem(interp, k), env)
        try:
            interp.exec_block(s.body, env)
        except ContinueSig:
            pass
        except BreakSig:
            raise Unsupported("break inside a loop cut at an invariant")
        env.set(idx_name, wrap_term(z3.simplify(k + 1)))
        for j, (clause, props) in enumerate(spec.invariants):
            interp.prove(interp.spec_eval(clause, env), f"{lname}/preserve[{j}]", props, detail=clause, hints=interp.ctx.hints_for(interp, env))
        interp.cover(f"{lname}/end-of-body")
        raise PathEnd("loop body checked")
    else:
        interp.assume(n >= 0)
        env.set(idx_name, wrap_term(n))
        for clause, props in spec.invariants:
            interp.assume(_asbool(interp.spec_eval(clause, env)))
        env.vars.pop(idx_name, None)


def _asbool(v):
    if isinstance(v, SBool):
        return v.t
    if isinstance(v, bool):
        return z3.BoolVal(v)
    if z3.is_expr(v):
        return v
    raise Unsupported(f"contract clause did not evaluate to a boolean: {v!r}")


def comprehension(interp, e, env, kind):
    from .interp import Env
    gens = e.generators
    if any(g.is_async for g in gens):
        raise Unsupported("async comprehension")
    # a context may give a closed form to a comprehension shape it has a spec function for (e.g. the union over a list)
    rule = getattr(interp.ctx, "comprehension_rule", None)
    if rule is not None:
        r = rule(interp, e, env, kind)
        if r is not None:
            return r
    # single generator with a filter over an unbounded symbolic collection, under a loop contract: the comprehension is
    # executed as the loop it abbreviates ( _comp = []; for tgt in it: if cond: _comp.append(elt) ) and cut at the invariant
    if kind == "list" and len(gens) == 1 and gens[0].ifs and not isinstance(e, ast.DictComp) and env.func is not None:
        t = ast.unparse(gens[0].target)
        if t.startswith("(") and t.endswith(")"):
            t = t[1:-1]
        spec = interp.ctx.loop_specs.get((env.func.__qualname__, t))
        if spec is not None:
            it = interp.eval(gens[0].iter, env)
            view = view_of(interp, it)
            if view.concrete is None and not z3.is_int_value(z3.simplify(view.length)):
                return _filter_comp_as_loop(interp, e, env, it, spec)
            return _comp_rec(interp, e, env, kind, 0, pre_items=view.concrete if view.concrete is not None else concrete_items(interp, it))
    # single generator over an unbounded symbolic list without filter -> functional list
    if kind == "list" and len(gens) == 1 and not gens[0].ifs and not isinstance(e, ast.DictComp):
        it = interp.eval(gens[0].iter, env)
        view = view_of(interp, it)
        if view.generic is not None:
            sub = Env(parent=env, globals=env.globals)
            interp.assign(gens[0].target, view.elem(interp, view.generic), sub)
            return GList(view.length, view.generic, interp.eval(e.elt, sub))
        if view.concrete is None and not z3.is_int_value(z3.simplify(view.length)) and interp.ctx.prefer_flist(interp, e, env, view):
            iv = interp.fresh_int("ci")
            sub = Env(parent=env, globals=env.globals)
            sub.self_arg = None
            base = view.elem_at(interp, iv, False) if view.overlays else view.elem(interp, iv)
            interp.assign(gens[0].target, base, sub)
            npaths = len(interp.decisions)
            tmpl = interp.eval(e.elt, sub)
            if len(interp.decisions) != npaths:
                raise Unsupported("element expression of a symbolic comprehension forks")
            out = FList(view.length, iv, tmpl)
            for a in range(len(view.overlays)):
                for b in range(a + 1, len(view.overlays)):
                    st, _ = smt.check_sat(list(interp.ctx.axioms) + list(interp.pc) + [view.overlays[a] == view.overlays[b]], 5000)
                    if st != "unsat":
                        raise Unsupported("overlay positions of zipped lists may coincide")
            for p in view.overlays:
                sub2 = Env(parent=env, globals=env.globals)
                interp.assign(gens[0].target, view.elem_at(interp, p, True), sub2)
                val = interp.eval(e.elt, sub2)
                if len(interp.decisions) != npaths:
                    raise Unsupported("element expression of a symbolic comprehension forks")
                out.overlay.append((p, val))
            return out
        items0 = view.concrete if view.concrete is not None else concrete_items(interp, it)
        return _comp_rec(interp, e, env, kind, 0, pre_items=items0)
    return _comp_rec(interp, e, env, kind, 0)


def _filter_comp_as_loop(interp, e, env, it, spec):
    from .interp import Env
    from .context import parse_type
    g = e.generators[0]
    ts = spec.types.get("_comp")
    if not ts:
        raise Unsupported("loop contract of a filter comprehension must declare the type of `_comp`")
    sub = Env(parent=env, globals=env.globals, func=env.func)
    sub.self_arg = env.self_arg
    sub.set("_comp_iter", it)
    sub.set("_comp", interp.ctx.to_slist(interp, [], parse_type(ts)))
    test = g.ifs[0] if len(g.ifs) == 1 else ast.BoolOp(op=ast.And(), values=list(g.ifs))
    app = ast.Expr(ast.Call(func=ast.Attribute(value=ast.Name("_comp", ast.Load()), attr="append", ctx=ast.Load()), args=[e.elt], keywords=[]))
    loop = ast.For(target=g.target, iter=ast.Name("_comp_iter", ast.Load()), body=[ast.If(test=test, body=[app], orelse=[])], orelse=[])
    ast.copy_location(loop, e)
    ast.fix_missing_locations(loop)
    interp.exec_block([loop], sub)
    return sub.lookup("_comp")


def _comp_rec(interp, e, env, kind, gi, pre_items=None):
    from .interp import Env
    out_list, out_dict = [], {}
    sdict = [None]
    sub = Env(parent=env, globals=env.globals)

    def rec(gi, scope):
        g = e.generators[gi]
        if gi == 0 and pre_items is not None:
            items = pre_items
        else:
            items = concrete_items(interp, interp.eval(g.iter, scope))
        for x in items:
            interp.assign(g.target, x, scope)
            ok = True
            for cond in g.ifs:
                if not interp.truth(interp.eval(cond, scope)):
                    ok = False
                    break
            if not ok:
                continue
            if gi + 1 < len(e.generators):
                rec(gi + 1, scope)
            elif isinstance(e, ast.DictComp):
                k = interp.eval(e.key, scope)
                if isinstance(k, Sym) or sdict[0] is not None:
                    if not getattr(interp.ctx, "symbolic_key_dicts", False):
                        raise Unsupported("dict comprehension with symbolic key")
                    from .dictmodel import SmallDict
                    if sdict[0] is None:
                        sdict[0] = SmallDict(list(out_dict.items()))
                    sdict[0].vf_setitem(interp, k, interp.eval(e.value, scope))
                else:
                    out_dict[k] = interp.eval(e.value, scope)
            else:
                out_list.append(interp.eval(e.elt, scope))

    rec(0, sub)
    if isinstance(e, ast.DictComp):
        return sdict[0] if sdict[0] is not None else out_dict
    if kind == "set":
        from . import setmodel
        return setmodel.make_set(interp, out_list)
    return out_list
