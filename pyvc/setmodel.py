"""Sets.  CSet wraps a concrete Python set whose elements may define __eq__/__hash__ in interpreted code;
SSet is a symbolic set of abstract objects (z3 array Int->Bool over class representatives)."""
from __future__ import annotations
import ast
import z3
from .sym import Sym, SObj, SBool, Unsupported, is_sym
from .ops import sbool_not, wrap_term


class CSet:
    def __init__(self, s):
        self.s = s


class SSet(Sym):
    """symbolic set of abstract objects identified by class-representative ids"""

    def __init__(self, cls, arr):
        self.cls, self.arr = cls, arr

    def __repr__(self):
        return f"SSet[{self.cls}]"

    def copy(self):
        return SSet(self.cls, self.arr)


def _rep(interp, x):
    return interp.ctx.set_rep(interp, x)


def empty(cls):
    return SSet(cls, z3.K(z3.IntSort(), z3.BoolVal(False)))


def make_set(interp, items):
    if isinstance(items, SSet):
        return items.copy()
    if isinstance(items, CSet):
        return set(items.s)
    from .sym import SList, FList
    if hasattr(items, "vf_as_set"):
        return items.vf_as_set(interp)
    if isinstance(items, (SList, FList)):
        return interp.ctx.set_of_list(interp, items)
    items = interp.iterate_concrete(items)
    if is_sym(items):
        if all(isinstance(x, SObj) for x in items):
            s = empty(items[0].cls)
            for x in items:
                s.arr = z3.Store(s.arr, _rep(interp, x), z3.BoolVal(True))
            return s
        raise Unsupported("set of symbolic non-object values")
    try:
        return set(items)
    except TypeError as e:
        from .interp import PyRaise
        raise PyRaise(e)


def sset_contains(interp, s: SSet, x):
    return wrap_term(z3.Select(s.arr, _rep(interp, x)))


def cset_contains(interp, s, x):
    return x in s


def _as_sset(interp, v, cls):
    if isinstance(v, SSet):
        return v
    if isinstance(v, (set, frozenset)) and not v:
        return empty(cls)
    return make_set(interp, v)


def _setop(kind, a, b):
    if kind == "union":
        return z3.Map(_f_or(), a, b)
    if kind == "inter":
        return z3.Map(_f_and(), a, b)
    if kind == "diff":
        return z3.Map(_f_and(), a, z3.Map(_f_not(), b))
    raise Unsupported(kind)


def _f_or():
    return z3.Or(z3.Bool("a"), z3.Bool("b")).decl()


def _f_and():
    return z3.And(z3.Bool("a"), z3.Bool("b")).decl()


def _f_not():
    return z3.Not(z3.Bool("a")).decl()


def sset_binop(interp, op, a, b):
    cls = a.cls if isinstance(a, SSet) else b.cls
    a, b = _as_sset(interp, a, cls), _as_sset(interp, b, cls)
    if isinstance(op, ast.BitOr):
        return SSet(cls, _setop("union", a.arr, b.arr))
    if isinstance(op, ast.BitAnd):
        return SSet(cls, _setop("inter", a.arr, b.arr))
    if isinstance(op, ast.Sub):
        return SSet(cls, _setop("diff", a.arr, b.arr))
    raise Unsupported("set operator")


def sset_method(interp, s, name, args, kwargs):
    if isinstance(s, CSet):
        py = s.s
        if is_sym(args):
            raise Unsupported(f"set.{name} with symbolic argument on concrete set")
        return interp.native(getattr(py, name), args, kwargs)
    if kwargs:
        raise Unsupported(f"set.{name} with keyword arguments")
    if name in ("difference", "union", "intersection"):
        arr = s.arr
        for a in args:
            o = _as_sset(interp, a, s.cls)
            arr = _setop({"difference": "diff", "union": "union", "intersection": "inter"}[name], arr, o.arr)
        return SSet(s.cls, arr)
    if name in ("update", "difference_update", "intersection_update"):
        for a in args:
            o = _as_sset(interp, a, s.cls)
            s.arr = _setop({"update": "union", "difference_update": "diff", "intersection_update": "inter"}[name], s.arr, o.arr)
        return None
    if name == "add":
        s.arr = z3.Store(s.arr, _rep(interp, args[0]), z3.BoolVal(True))
        return None
    if name == "clear":
        s.arr = z3.K(z3.IntSort(), z3.BoolVal(False))
        return None
    if name == "copy":
        return s.copy()
    raise Unsupported(f"set.{name} on symbolic set")
