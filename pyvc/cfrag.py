"""C-fragment typing and denotation over structured strings (the trusted bridge from emitted text to
its meaning).  A string is a sequence of literal chunks and typed holes; it is lexed with maximal munch
and parsed once, symbolically; the result is either a type error (the text is not, for every
instantiation of the holes, an expression/statement of the fragment with a compositional meaning) or a
z3 denotation.

Fragment: numeric literals, identifiers, a[i], f(x,..), unary + - !, * / %, + -, < > <= >=, == !=, &&, ||,
?:, parentheses; statements `lhs = e;` and `if (c) { stmts }`.
C typing: integer literals and IDX_* macros are int, everything else is double; int/int is integer
division.  Floats are mathematical reals (assumption)."""
from __future__ import annotations
import re
import z3
from .sym import SStr, Lit, Hole, Unsupported, as_segs


class CTypeError(Exception):
    """the text is not a well-formed / compositional fragment"""


LEVEL = {"Primary": 7, "Atom": 7, "Unary": 6, "Prod": 5, "Sum": 4, "Rel": 3, "Eq": 2.5, "And": 2, "Or": 1.5,
         "Cond": 1, "Expr": 1}

_num_re = re.compile(r"(\d+\.\d*|\.\d+|\d+)([eE][+-]?\d+)?")
_id_re = re.compile(r"[A-Za-z_][A-Za-z0-9_]*")
_ops2 = ("<=", ">=", "==", "!=", "&&", "||", "++", "--", "->", "+=", "-=", "*=", "/=")
_ops1 = "+-*/%<>!?:()[]{},;="
_wordch = re.compile(r"[A-Za-z0-9_.]")


class Tok:
    __slots__ = ("kind", "text", "parts", "hole", "glue_l", "glue_r")

    def __init__(self, kind, text="", parts=None, hole=None):
        self.kind, self.text, self.parts, self.hole = kind, text, parts, hole
        self.glue_l = self.glue_r = False

    def __repr__(self):
        return f"{self.kind}:{self.text or self.parts or self.hole}"


def _hole_edges(h: Hole):
    """(first, last) character class of the hole's text: 'digit','word','any'"""
    if h.kind in ("nat", "ufloat"):
        return "digit", "digit"
    if h.kind == "ident":
        return "word", "word"
    if h.kind == "code":
        ex = h.extra or {}
        return ex.get("first", "word"), ex.get("last", "any")
    return "any", "any"


def tokenize(s) -> list:
    segs = as_segs(s) if not isinstance(s, tuple) else s
    toks: list[Tok] = []
    prev_adjacent = False   # previous token ended exactly where the next thing starts (no blank)
    for seg in segs:
        if isinstance(seg, Hole):
            if seg.kind in ("int", "float"):
                raise Unsupported("sign of numeric hole not resolved before typing")
            t = Tok("hole", hole=seg)
            if prev_adjacent and toks:
                last = toks[-1]
                first, _ = _hole_edges(seg)
                if last.kind == "id" and seg.kind in ("ident", "nat"):
                    # identifier continues into the hole: one fused identifier
                    last.parts.append(seg)
                    prev_adjacent = True
                    continue
                if last.kind in ("id", "num") and first in ("digit", "word", "any"):
                    raise CTypeError(f"token fusion: `{last.text or last.parts}` directly followed by {seg!r}")
                if last.kind == "hole":
                    _, plast = _hole_edges(last.hole)
                    if plast in ("digit", "word", "any") and first in ("digit", "word", "any"):
                        raise CTypeError(f"token fusion between {last.hole!r} and {seg!r}")
                if last.kind == "op" and last.text in ("+", "-", "&", "|", "=", "<", ">", "!") and first == "any":
                    raise CTypeError(f"operator `{last.text}` directly followed by text of unknown first character {seg!r}")
            if seg.kind == "ident":
                t = Tok("id", parts=[seg])
            toks.append(t)
            prev_adjacent = True
            continue
        text = seg.text
        i, n = 0, len(text)
        while i < n:
            c = text[i]
            if c in " \t\n\r":
                i += 1
                prev_adjacent = False
                continue
            if prev_adjacent and toks:
                last = toks[-1]
                if last.kind == "hole":
                    _, plast = _hole_edges(last.hole)
                    if _wordch.match(c) and plast in ("digit", "word", "any"):
                        raise CTypeError(f"token fusion: {last.hole!r} directly followed by `{text[i:i+8]}`")
                    if c in "+-" and plast == "any":
                        raise CTypeError(f"text of unknown last character {last.hole!r} directly followed by `{c}`")
                elif last.kind == "id" and last.parts and isinstance(last.parts[-1], Hole) and (c.isalnum() or c == "_"):
                    m = re.compile(r"[A-Za-z0-9_]+").match(text, i)
                    last.parts.append(m.group())
                    i = m.end()
                    prev_adjacent = True
                    continue
            m = _num_re.match(text, i)
            if m and (c.isdigit() or c == "."):
                j = m.end()
                if j < n and (text[j].isalnum() or text[j] == "_" or text[j] == "."):
                    raise CTypeError(f"malformed number `{text[i:j+1]}`")
                toks.append(Tok("num", text=m.group()))
                i = j
                prev_adjacent = True
                continue
            m = _id_re.match(text, i)
            if m:
                toks.append(Tok("id", text=m.group(), parts=[m.group()]))
                i = m.end()
                prev_adjacent = True
                continue
            if text[i:i + 2] in _ops2:
                toks.append(Tok("op", text=text[i:i + 2]))
                i += 2
                prev_adjacent = True
                continue
            if c in _ops1:
                toks.append(Tok("op", text=c))
                i += 1
                prev_adjacent = True
                continue
            raise CTypeError(f"character `{c}` is not part of the C fragment")
    return toks


# ---------------------------------------------------------------------------------------------
# denotation helpers
# ---------------------------------------------------------------------------------------------
StrId = z3.DeclareSort("StrId")
_fun_cache: dict = {}


def ufun(name, *sorts):
    key = (name, tuple(str(s) for s in sorts))
    if key not in _fun_cache:
        _fun_cache[key] = z3.Function(name, *sorts)
    return _fun_cache[key]


def cconst(name):
    return z3.Real("c:" + name)


class Val:
    """typed denotation: ty in {'int','real','bool'}"""
    __slots__ = ("ty", "t", "level")

    def __init__(self, ty, t, level=7):
        self.ty, self.t, self.level = ty, t, level


def to_real(v: Val):
    if v.ty == "real":
        return v.t
    if v.ty == "int":
        return z3.ToReal(v.t)
    return z3.If(v.t, z3.RealVal(1), z3.RealVal(0))


def to_bool(v: Val):
    if v.ty == "bool":
        return v.t
    if v.ty == "int":
        return v.t != 0
    return v.t != 0


INT_IDENT_PREFIXES = ("IDX_",)
INT_IDENTS = {"NSPECIES", "NEQUATIONS", "NREACTIONS", "NELEMENTS", "NNZ"}


def ident_val(parts) -> Val:
    """identifier, possibly fused from literal pieces and identifier/number holes"""
    if all(isinstance(p, str) for p in parts):
        name = "".join(parts)
        if name.startswith(INT_IDENT_PREFIXES) or name in INT_IDENTS:
            return Val("int", z3.Int("m:" + name))
        return Val("real", cconst(name))
    shape = "".join(p if isinstance(p, str) else ("@" if p.kind == "ident" else "#") for p in parts)
    if shape == "IDX_@":
        h = parts[1]
        if isinstance(h.extra, dict) and "slot" in h.extra:
            # contract of naunet_macros.h.j2: `#define IDX_<alias of species[i]> i`
            return Val("int", h.extra["slot"])
    args = [p.val for p in parts if isinstance(p, Hole)]
    is_int = shape.startswith(INT_IDENT_PREFIXES)
    f = ufun(("m:" if is_int else "c:") + shape, *[a.sort() for a in args], z3.IntSort() if is_int else z3.RealSort())
    return Val("int" if is_int else "real", f(*args))


def number_val(text) -> Val:
    if re.fullmatch(r"\d+", text):
        return Val("int", z3.IntVal(int(text)))
    from fractions import Fraction
    fr = Fraction(text)  # the decimal literal as an exact rational (double rounding: assumption)
    return Val("real", z3.RealVal(f"{fr.numerator}/{fr.denominator}"))


def hole_val(h: Hole) -> Val:
    if h.kind == "nat":
        return Val("int", h.val)
    if h.kind == "ufloat":
        return Val("real", h.val)
    if h.kind == "code":
        den = h.den
        ty = "bool" if z3.is_bool(den) else ("int" if z3.is_int(den) else "real")
        return Val(ty, den, LEVEL[h.nt])
    if h.kind == "user":
        f = ufun("user", StrId, z3.RealSort())
        return Val("real", f(h.val), LEVEL["Expr"])
    raise CTypeError(f"hole {h!r} cannot be used as a C operand")


class Parser:
    def __init__(self, toks):
        self.toks = toks
        self.i = 0

    def peek(self):
        return self.toks[self.i] if self.i < len(self.toks) else None

    def peek_op(self, *ops):
        t = self.peek()
        return t is not None and t.kind == "op" and t.text in ops

    def eat_op(self, op):
        t = self.peek()
        if t is None or t.kind != "op" or t.text != op:
            raise CTypeError(f"expected `{op}` but found {t!r}")
        self.i += 1

    # expression := cond
    def expr(self) -> Val:
        return self.cond()

    def cond(self) -> Val:
        c = self.binary(0)
        if self.peek_op("?"):
            self.i += 1
            if c.level <= LEVEL["Cond"]:
                raise CTypeError("conditional operand of `?` has too low precedence")
            a = self.expr()
            self.eat_op(":")
            b = self.cond()
            if a.ty == "int" and b.ty == "int":
                return Val("int", z3.If(to_bool(c), a.t, b.t), LEVEL["Cond"])
            return Val("real", z3.If(to_bool(c), to_real(a), to_real(b)), LEVEL["Cond"])
        return c

    BIN = [  # (level, ops) from loosest to tightest
        (1.5, ("||",)), (2, ("&&",)), (2.5, ("==", "!=")), (3, ("<", ">", "<=", ">=")), (4, ("+", "-")),
        (5, ("*", "/", "%")),
    ]

    def binary(self, k) -> Val:
        if k == len(self.BIN):
            return self.unary()
        lvl, ops = self.BIN[k]
        left = self.binary(k + 1)
        while self.peek_op(*ops):
            op = self.peek().text
            self.i += 1
            right = self.binary(k + 1)
            if left.level < lvl:
                raise CTypeError(f"left operand of `{op}` is a fragment of lower precedence")
            if right.level <= lvl:
                raise CTypeError(f"right operand of `{op}` is a fragment of not-higher precedence")
            left = self.apply(op, left, right, lvl)
        return left

    def apply(self, op, a: Val, b: Val, lvl) -> Val:
        if op == "||":
            return Val("bool", z3.Or(to_bool(a), to_bool(b)), lvl)
        if op == "&&":
            return Val("bool", z3.And(to_bool(a), to_bool(b)), lvl)
        both_int = a.ty == "int" and b.ty == "int"
        x, y = (a.t, b.t) if both_int else (to_real(a), to_real(b))
        if op in ("==", "!=", "<", ">", "<=", ">="):
            r = {"==": x == y, "!=": x != y, "<": x < y, ">": x > y, "<=": x <= y, ">=": x >= y}[op]
            return Val("bool", r, lvl)
        if op == "+":
            return Val("int" if both_int else "real", x + y, lvl)
        if op == "-":
            return Val("int" if both_int else "real", x - y, lvl)
        if op == "*":
            return Val("int" if both_int else "real", x * y, lvl)
        if op == "/":
            if both_int:
                # C integer division truncates toward zero
                q = z3.If(z3.Or(z3.And(x >= 0, y > 0), z3.And(x <= 0, y < 0)), x / y, -((-x) / y))
                return Val("int", q, lvl)
            return Val("real", x / y, lvl)
        if op == "%":
            if not both_int:
                raise CTypeError("`%` on non-integers")
            return Val("int", x % y, lvl)
        raise CTypeError(op)

    def unary(self) -> Val:
        if self.peek_op("-", "+", "!"):
            op = self.peek().text
            self.i += 1
            v = self.unary()
            if op == "!":
                if v.level < LEVEL["Unary"]:
                    raise CTypeError("operand of `!` has too low precedence")
                return Val("bool", z3.Not(to_bool(v)), LEVEL["Unary"])
            # -(a*b) == (-a)*b: a product-level fragment keeps its value under a leading sign
            if v.level < LEVEL["Prod"]:
                raise CTypeError(f"operand of unary `{op}` is a sum-level fragment")
            lvl = min(v.level, LEVEL["Unary"])
            if op == "+":
                return Val(v.ty if v.ty != "bool" else "int", v.t if v.ty != "bool" else to_real(v), lvl)
            if v.ty == "int":
                return Val("int", -v.t, lvl)
            return Val("real", -to_real(v), lvl)
        if self.peek_op("++", "--"):
            raise CTypeError(f"`{self.peek().text}` (increment/decrement of a non-lvalue): fused sign characters")
        return self.postfix()

    def postfix(self) -> Val:
        t = self.peek()
        if t is None:
            raise CTypeError("unexpected end of fragment")
        if t.kind == "num":
            self.i += 1
            return number_val(t.text)
        if t.kind == "hole":
            self.i += 1
            return hole_val(t.hole)
        if t.kind == "op" and t.text == "(":
            self.i += 1
            v = self.expr()
            self.eat_op(")")
            return Val(v.ty, v.t, 7)
        if t.kind == "id":
            self.i += 1
            if self.peek_op("("):
                if not all(isinstance(p, str) for p in t.parts):
                    raise CTypeError("call of a computed function name")
                name = "".join(t.parts)
                self.i += 1
                args = []
                if not self.peek_op(")"):
                    args.append(self.expr())
                    while self.peek_op(","):
                        self.i += 1
                        args.append(self.expr())
                self.eat_op(")")
                if name == "y" and len(args) == 1:
                    pass
                f = ufun(f"fn:{name}/{len(args)}", *[z3.RealSort()] * len(args), z3.RealSort())
                return Val("real", f(*[to_real(a) for a in args]))
            if self.peek_op("["):
                if not all(isinstance(p, str) for p in t.parts):
                    raise CTypeError("subscript of a computed array name")
                name = "".join(t.parts)
                self.i += 1
                idx = self.expr()
                self.eat_op("]")
                if idx.ty != "int":
                    raise CTypeError(f"subscript of `{name}` is not an integer expression")
                f = ufun(f"arr:{name}", z3.IntSort(), z3.RealSort())
                v = Val("real", f(idx.t))
                v_idx = idx.t
                v.level = 7
                self.last_subscript = (name, v_idx)
                return v
            return ident_val(t.parts)
        raise CTypeError(f"unexpected token {t!r}")


def parse_expr(s) -> Val:
    toks = tokenize(s)
    p = Parser(toks)
    v = p.expr()
    if p.peek() is not None:
        raise CTypeError(f"trailing tokens after expression: {p.toks[p.i:][:4]}")
    return v


def min_len(s) -> int:
    n = 0
    for seg in as_segs(s):
        n += len(seg.text) if isinstance(seg, Lit) else seg.minlen
    return n


def type_fragment(interp, s, nt: str):
    """CodeCodec.enc: (denotation, is-literally-"0.0") of a C fragment that must be usable wherever a
    fragment of nonterminal nt is expected."""
    v = parse_expr(s)
    if v.level < LEVEL[nt]:
        raise CTypeError(f"fragment has lower precedence than {nt}")
    segs = as_segs(s)
    if len(segs) == 1 and isinstance(segs[0], Lit):
        is00 = z3.BoolVal(segs[0].text == "0.0")
    elif len(segs) == 1 and isinstance(segs[0], Hole) and segs[0].kind == "code" and segs[0].is00 is not None:
        is00 = segs[0].is00
    elif min_len(s) > 3:
        is00 = z3.BoolVal(False)
    else:
        raise Unsupported(f"cannot decide whether {s!r} is the literal 0.0")
    return (to_real(v), is00)


# ---------------------------------------------------------------------------------------------
# statements
# ---------------------------------------------------------------------------------------------

class Assign:
    def __init__(self, arr, index, value):
        self.arr, self.index, self.value = arr, index, value  # arr name, Int term (or None for scalar), Real term

    def __repr__(self):
        return f"{self.arr}[{self.index}] = {self.value}"


class IfStmt:
    def __init__(self, cond, body):
        self.cond, self.body = cond, body


def parse_stmts(s) -> list:
    toks = tokenize(s)
    p = Parser(toks)
    out = []
    while p.peek() is not None:
        out.append(_stmt(p))
    return out


def _stmt(p: Parser):
    t = p.peek()
    if t.kind == "id" and t.parts == ["if"]:
        p.i += 1
        p.eat_op("(")
        c = p.expr()
        p.eat_op(")")
        p.eat_op("{")
        body = []
        while not p.peek_op("}"):
            if p.peek() is None:
                raise CTypeError("unterminated `{`")
            body.append(_stmt(p))
        p.eat_op("}")
        return IfStmt(to_bool(c), body)
    # assignment: lvalue = expr ;
    if t.kind != "id":
        raise CTypeError(f"statement does not start with an lvalue: {t!r}")
    p.i += 1
    if not all(isinstance(x, str) for x in t.parts):
        raise CTypeError("assignment to a computed name")
    name = "".join(t.parts)
    index = None
    if p.peek_op("["):
        p.i += 1
        idx = p.expr()
        p.eat_op("]")
        if idx.ty != "int":
            raise CTypeError("non-integer subscript on the left-hand side")
        index = idx.t
    p.eat_op("=")
    v = p.expr()
    p.eat_op(";")
    return Assign(name, index, to_real(v))
