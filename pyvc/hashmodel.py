"""hash(), collections.Counter and frozenset over symbolic values.

hash is modelled by uninterpreted functions: the only fact available to a proof is congruence (equal arguments give equal
hashes), which is exactly what "__hash__ is consistent with __eq__" may rely on.  Counter(list of abstract objects) is the
multiset of their equivalence classes (ctx.set_rep), an array class -> count; frozenset(counter.items()) is identified with
that array (the graph of the function)."""
from __future__ import annotations
import collections, zlib
import z3
from .sym import Sym, SymProto, SInt, SReal, SBool, SStr, SObj, Lit, Hole, Unsupported
from .ops import wrap_term, term_of

I = z3.IntSort()
AII = z3.ArraySort(I, I)
H_INT = z3.Function("hash_int", I, I)
H_REAL = z3.Function("hash_real", z3.RealSort(), I)
H_BOOL = z3.Function("hash_bool", z3.BoolSort(), I)
H_COMB = z3.Function("hash_combine", I, I, I)
H_MSET = z3.Function("hash_frozenset_of_counter_items", AII, I)
_H_SORT = {}


def _h_term(t):
    s = t.sort()
    if s == I:
        return H_INT(t)
    if s == z3.RealSort():
        return H_REAL(t)
    if s == z3.BoolSort():
        return H_BOOL(t)
    f = _H_SORT.get(str(s))
    if f is None:
        f = _H_SORT[str(s)] = z3.Function(f"hash_{s}", s, I)
    return f(t)


def _lit(text):
    return z3.IntVal(zlib.crc32(text.encode()))


def hash_term(interp, x):
    if isinstance(x, (SInt, SReal, SBool)):
        return _h_term(x.t)
    if isinstance(x, SStr):
        acc = z3.IntVal(17)
        for s in x.segs:
            if isinstance(s, Lit):
                acc = H_COMB(acc, _lit(s.text))
            elif isinstance(s, Hole) and s.val is not None and z3.is_expr(s.val):
                acc = H_COMB(acc, H_COMB(_lit(s.kind), _h_term(s.val)))
            else:
                raise Unsupported(f"hash of string segment {s!r}")
        return acc
    if isinstance(x, SObj):
        return term_of(interp.ctx.obj_hash(interp, x))
    if isinstance(x, SymProto) and hasattr(x, "vf_hash"):
        return x.vf_hash(interp)
    if isinstance(x, tuple):
        acc = z3.IntVal(31)
        for el in x:
            acc = H_COMB(acc, hash_term(interp, el))
        return acc
    if isinstance(x, Sym):
        raise Unsupported(f"hash of {type(x).__name__}")
    if isinstance(x, str):
        return _lit(x)
    if isinstance(x, bool):
        return H_BOOL(z3.BoolVal(x))
    if isinstance(x, int):
        return H_INT(z3.IntVal(x))
    if x is None:
        return z3.IntVal(0)
    raise Unsupported(f"hash of {type(x).__name__} inside a symbolic structure")


def hash_of(interp, x):
    return wrap_term(hash_term(interp, x))


class SMultiset(SymProto):
    """collections.Counter over abstract objects: class -> multiplicity"""

    def __init__(self, arr):
        self.arr = arr

    def vf_eq(self, interp, other):
        if isinstance(other, SMultiset):
            return wrap_term(self.arr == other.arr)
        if isinstance(other, collections.Counter) and not other:
            return wrap_term(self.arr == z3.K(I, z3.IntVal(0)))
        raise Unsupported("Counter compared with another kind of value")

    def vf_method(self, interp, name, args, kwargs):
        if name == "items" and not args and not kwargs:
            return _MItems(self.arr)
        raise Unsupported(f"Counter.{name} on symbolic multiset")

    def vf_getitem(self, interp, k):
        return wrap_term(z3.Select(self.arr, interp.ctx.set_rep(interp, k)))


class _MItems(SymProto):
    def __init__(self, arr):
        self.arr = arr


class SFrozenItems(SymProto):
    """frozenset(counter.items()): the graph of the multiplicity function"""

    def __init__(self, arr):
        self.arr = arr

    def vf_eq(self, interp, other):
        if isinstance(other, SFrozenItems):
            return wrap_term(self.arr == other.arr)
        raise Unsupported("frozenset compared with another kind of value")

    def vf_hash(self, interp):
        return H_MSET(self.arr)


def counter_model(interp, args, kwargs):
    if kwargs or len(args) > 1:
        raise Unsupported("Counter(...) with these arguments")
    if not args:
        return collections.Counter()
    from .loops import concrete_items
    from .sym import FList, subst_value
    bound = getattr(interp.ctx, "list_bound", lambda ip, l: None)(interp, args[0])
    if isinstance(args[0], FList) and not args[0].overlay and bound is not None:
        # bounded list of abstract objects: the multiset is built without forking on the length
        L, arr = args[0], z3.K(I, z3.IntVal(0))
        for m in range(bound):
            c = interp.ctx.set_rep(interp, subst_value(L.template, L.ivar, z3.IntVal(m)))
            arr = z3.If(L.length > m, z3.Store(arr, c, z3.Select(arr, c) + 1), arr)
        return SMultiset(arr)
    items = concrete_items(interp, args[0])
    if not any(isinstance(x, Sym) for x in items):
        return interp.native(collections.Counter, [items], {})
    arr = z3.K(I, z3.IntVal(0))
    for x in items:
        c = interp.ctx.set_rep(interp, x)
        arr = z3.Store(arr, c, z3.Select(arr, c) + 1)
    return SMultiset(arr)


def frozenset_model(interp, args, kwargs):
    if args and isinstance(args[0], _MItems):
        return SFrozenItems(args[0].arr)
    if args and type(args[0]).__name__ == "dict_items" and not args[0] and getattr(interp.ctx, "symbolic_counters", False):
        return SFrozenItems(z3.K(I, z3.IntVal(0)))
    if args and (isinstance(args[0], Sym) or (isinstance(args[0], (list, tuple)) and any(isinstance(x, Sym) for x in args[0]))):
        from . import setmodel
        s = setmodel.make_set(interp, args[0])
        if isinstance(s, setmodel.SSet):
            return SFrozenSet(s.cls, s.arr)
        raise Unsupported("frozenset of these symbolic values")
    return interp.native(frozenset, args, kwargs)


class SFrozenSet(SymProto):
    """frozenset of abstract objects (class -> Bool)"""

    def __init__(self, cls, arr):
        self.cls, self.arr = cls, arr

    def vf_eq(self, interp, other):
        if isinstance(other, SFrozenSet):
            return wrap_term(self.arr == other.arr)
        raise Unsupported("frozenset compared with another kind of value")

    def vf_hash(self, interp):
        f = z3.Function("hash_frozenset", z3.ArraySort(I, z3.BoolSort()), I)
        return f(self.arr)

    def vf_contains(self, interp, x):
        return wrap_term(z3.Select(self.arr, interp.ctx.set_rep(interp, x)))


def install():
    from . import models
    models.BUILTIN_MODELS[id(collections.Counter)] = counter_model
    models.BUILTIN_MODELS[id(frozenset)] = frozenset_model


install()
