"""Structured strings for record decoders: fixed-width cells, separator-delimited fields, numerals.

Segments used here (in addition to Lit):
  Hole('word',  val=StrId term, extra={'len': Int term, 'blank': False})   a non-empty token without blanks/separators
  Hole('num',   val=Real/Int term, extra={'len': Int term, 'ty': 'float'|'int'})  text of a numeral (no blanks)
  Cell(width, inner, align)   `inner` (a word/num hole or None = empty) padded with blanks to exactly `width` characters

Every operation is exact or fails closed (StrModelError -> reported as a failed decode obligation): in particular a
slice whose boundary falls inside a cell fails unless the cut provably lies in the padding."""
from __future__ import annotations
from dataclasses import dataclass
from typing import Any
import z3
from .sym import SStr, Lit, Hole, Sym, SInt, SReal, Unsupported, mkstr, EmitError


@dataclass(frozen=True, eq=False)
class Cell:
    width: int
    inner: Any          # Hole or None
    align: str = "<"
    maxlen: int = -1    # guaranteed maximal length of the content (width: may fill the cell)

    @property
    def minlen(self):
        return self.width

    kind = "cell"

    def __repr__(self):
        return f"[{self.inner!r}:{self.align}{self.width}]"


class StrModelError(EmitError):
    pass


def seg_len(s):
    """concrete length or None"""
    if isinstance(s, Lit):
        return len(s.text)
    if isinstance(s, Cell):
        return s.width
    return None


class StrMixin:
    """domain hooks for VerifContext subclasses that decode records"""

    def str_len(self, interp, s):
        n = 0
        for seg in s.segs:
            k = seg_len(seg)
            if k is None:
                raise Unsupported("len of string with free-length hole")
            n += k
        return n

    def strip_string(self, interp, s, chars):
        if chars is not None:
            raise Unsupported("strip(chars) on structured string")
        segs = list(s.segs)
        # leading
        while segs:
            f = segs[0]
            if isinstance(f, Lit):
                t = f.text.lstrip()
                if t:
                    segs[0] = Lit(t)
                    break
                segs.pop(0)
            elif isinstance(f, Cell):
                if f.inner is None:
                    segs.pop(0)
                    continue
                if f.align == "<":
                    break
                segs[0] = Cell(-1, f.inner, "strip-left")   # right aligned: leading padding removed
                segs[0] = f.inner
                break
            else:
                break
        while segs:
            l = segs[-1]
            if isinstance(l, Lit):
                t = l.text.rstrip()
                if t:
                    segs[-1] = Lit(t)
                    break
                segs.pop()
            elif isinstance(l, Cell):
                if l.inner is None:
                    segs.pop()
                    continue
                if l.align == ">":
                    break
                segs[-1] = l.inner        # left aligned: trailing padding removed
                break
            else:
                break
        # a right-aligned first cell / left-aligned last cell that lost its padding is now its bare content
        out = []
        for i, sg in enumerate(segs):
            out.append(sg)
        if out and isinstance(out[0], Cell) and out[0].align == ">" and out[0].inner is not None and len(out) == 1:
            out[0] = out[0].inner
        return mkstr_cells(out)

    def str_index(self, interp, s, idx):
        if not isinstance(idx, slice):
            raise Unsupported("character index of structured string")
        if idx.step is not None:
            raise Unsupported("slice step")
        segs = list(s.segs) if isinstance(s, SStr) else [Lit(s)]
        total = 0
        for sg in segs:
            k = seg_len(sg)
            if k is None:
                total = None
                break
            total += k
        a, b = idx.start, idx.stop
        if isinstance(a, Sym) or isinstance(b, Sym):
            raise Unsupported("symbolic slice bound")
        a = 0 if a is None else a
        if a < 0 or (b is not None and b < 0):
            raise Unsupported("negative slice bound")
        out, pos = [], 0
        for sg in segs:
            if b is not None and pos is not None and pos >= b:
                break
            if pos is None:
                out.append(sg)
                continue
            k = seg_len(sg)
            if k is None:
                if pos is not None and pos >= a and b is None:
                    out.append(sg)     # free-length tail hole inside an open-ended slice
                    pos = None
                    continue
                raise StrModelError(f"slice [{a}:{b}] over a hole of unknown length {sg!r}")
            if pos is None:
                out.append(sg)
                continue
            lo, hi = pos, pos + k
            pos = hi
            sa, sb = max(a, lo), (hi if b is None else min(b, hi))
            if sa >= sb:
                continue
            if sa == lo and sb == hi:
                out.append(sg)
            elif isinstance(sg, Lit):
                out.append(Lit(sg.text[sa - lo: sb - lo]))
            else:
                out.append(self.cut_cell(interp, sg, sa - lo, sb - lo))
        return mkstr_cells(out)

    def cut_cell(self, interp, cell: Cell, a, b):
        """part [a:b] of a cell: allowed only when the content provably lies inside or outside the cut"""
        if cell.inner is None:
            return Lit(" " * (b - a))
        ln = cell.inner.extra["len"]
        if cell.align == "<":
            # content occupies [0, len), padding [len, width)
            if a == 0 and self.provable(interp, ln <= b):
                return Cell(b, cell.inner, "<", cell.maxlen)
            if self.provable(interp, ln <= a):
                return Lit(" " * (b - a))
        else:
            if b == cell.width and self.provable(interp, cell.width - ln >= a):
                return Cell(b - a, cell.inner, ">", cell.maxlen)
            if self.provable(interp, cell.width - ln >= b):
                return Lit(" " * (b - a))
        raise StrModelError(f"slice boundary falls inside the text of {cell!r} (the field may fill its column)")

    def provable(self, interp, f):
        from . import smt
        st, _, _, _ = smt.check_valid(list(interp.pc), f, timeout_ms=3000, use_cvc5=False)
        return st == "proved"

    def split_string(self, interp, s, sep, maxsplit):
        if maxsplit not in (-1, None):
            raise Unsupported("split with maxsplit")
        segs = list(s.segs)
        if sep is None:
            words, cur = [], []

            def flush():
                if cur:
                    words.append(mkstr_cells(list(cur)))
                    cur.clear()
            for sg in segs:
                if isinstance(sg, Lit):
                    parts = sg.text.split()
                    if not sg.text.strip():
                        flush()
                        continue
                    if sg.text[0].isspace():
                        flush()
                    for k, p in enumerate(parts):
                        if k > 0:
                            flush()
                        cur.append(Lit(p))
                    if sg.text[-1].isspace():
                        flush()
                elif isinstance(sg, Cell):
                    if sg.inner is None:
                        flush()
                        continue
                    ln = sg.inner.extra["len"]
                    full = not self.provable(interp, ln < sg.width)
                    if sg.align == "<":
                        cur.append(sg.inner)
                        if full:
                            raise StrModelError(f"{sg!r} may fill its column: split() would fuse it with the next field")
                        flush()
                    else:
                        if full and cur:
                            raise StrModelError(f"{sg!r} may fill its column: split() would fuse it with the previous field")
                        if not full:
                            flush()
                        cur.append(sg.inner)
                else:
                    cur.append(sg)
            flush()
            return words
        # explicit separator: exact when no hole can contain it
        fields, cur = [], []
        for sg in segs:
            if isinstance(sg, Lit):
                parts = sg.text.split(sep)
                for k, p in enumerate(parts):
                    if k > 0:
                        fields.append(mkstr_cells(list(cur)))
                        cur = []
                    if p:
                        cur.append(Lit(p))
            else:
                inner = sg.inner if isinstance(sg, Cell) else sg
                if inner is not None and not (inner.extra or {}).get("nosep", True):
                    raise StrModelError(f"{sg!r} may contain the separator {sep!r}")
                cur.append(sg)
        fields.append(mkstr_cells(list(cur)))
        return fields

    def str_to_number(self, interp, s, kind):
        segs = [sg for sg in s.segs]
        core = []
        for sg in segs:
            if isinstance(sg, Lit):
                if sg.text.strip():
                    core.append(sg)
            elif isinstance(sg, Cell):
                if sg.inner is not None:
                    core.append(sg.inner)
            else:
                core.append(sg)
        if len(core) == 1 and isinstance(core[0], Hole) and core[0].kind == "num":
            h = core[0]
            if kind == "int":
                if h.extra.get("ty") != "int":
                    from .interp import PyRaise
                    raise PyRaise(ValueError("invalid literal for int()"))
                return SInt(h.val)
            return SReal(z3.ToReal(h.val) if z3.is_int(h.val) else h.val)
        if len(core) == 1 and isinstance(core[0], Lit):
            try:
                return int(core[0].text) if kind == "int" else float(core[0].text)
            except ValueError as e:
                from .interp import PyRaise
                raise PyRaise(e)
        from .interp import PyRaise
        if not core:
            raise PyRaise(ValueError("could not convert empty string"))
        raise StrModelError(f"{kind}() of {s!r}: the text is not exactly one numeral field")

    def str_contains(self, interp, s, x):
        if isinstance(s, str) and isinstance(x, str):
            return x in s
        raise Unsupported("substring test on structured string")


def mkstr_cells(segs):
    out = []
    for s in segs:
        if isinstance(s, str):
            s = Lit(s)
        out.append(s)
    st = SStr(out)
    if st.is_concrete:
        return st.concrete()
    return st
