"""Dictionaries keyed by abstract equivalence classes.

KDict models an insertion-ordered dict whose keys are objects compared through __eq__/__hash__; a key is represented
by the integer id of its equivalence class (ctx.set_rep).  *Assumption carried by every user of this model*: key
equality is an equivalence relation with a consistent hash - then `k in d`, `d[k]`, `d[k] = v` depend only on the
class of k, which is what the model implements.  Values are lists of integers (the only shape the code under contract
uses); other value shapes fail closed.

state:  has  : class -> Bool          key present
        vl   : class -> (Int -> Int)  the list stored under the key,   vn : class -> Int  its length
        keys : position -> class, nk  insertion order
        kpos : class -> position      (ghost: inverse of keys, maintained by the model)
Specification accessors (usable in contract clauses): d.present(c) d.count(c) d.item(c, k) d.first(c) d.nkeys()
d.key(m) d.keypos(c)."""
from __future__ import annotations
import z3
from .sym import Sym, SymProto, SInt, SObj, SList, Unsupported
from .ops import wrap_term, term_of

I, B = z3.IntSort(), z3.BoolSort()
AII = z3.ArraySort(I, I)
AIB = z3.ArraySort(I, B)
AIA = z3.ArraySort(I, AII)


class KDict(SymProto):
    FIELDS = (("has", AIB), ("vl", AIA), ("vn", AII), ("keys", AII), ("nk", I), ("kpos", AII))

    def __init__(self, has, vl, vn, keys, nk, kpos):
        self.has, self.vl, self.vn, self.keys, self.nk, self.kpos = has, vl, vn, keys, nk, kpos

    @classmethod
    def empty(cls):
        return cls(z3.K(I, z3.BoolVal(False)), z3.K(I, z3.K(I, z3.IntVal(0))), z3.K(I, z3.IntVal(0)),
                   z3.K(I, z3.IntVal(0)), z3.IntVal(0), z3.K(I, z3.IntVal(0)))

    @classmethod
    def fresh(cls, interp, name):
        d = cls(*[interp.fresh(f"{name}.{f}", s) for f, s in cls.FIELDS])
        interp.assume(d.nk >= 0)
        return d

    def __repr__(self):
        return "KDict"

    def _rep(self, interp, k):
        if isinstance(k, SInt) and interp.spec_mode:
            return k.t
        return interp.ctx.set_rep(interp, k)

    # ---- protocol
    def vf_contains(self, interp, x):
        return wrap_term(z3.Select(self.has, self._rep(interp, x)))

    def vf_len(self, interp):
        return wrap_term(self.nk)

    def vf_truth(self):
        return self.nk > 0

    def vf_getitem(self, interp, k):
        c = self._rep(interp, k)
        if not interp.spec_mode:
            interp.prove(z3.Select(self.has, c), "py/dict-key-present", detail=f"lookup of class {c}")
        return DictListRef(self, c)

    def vf_setitem(self, interp, k, v):
        c = self._rep(interp, k)
        if not isinstance(v, list) or any(not isinstance(x, (int, SInt)) or isinstance(x, bool) for x in v):
            raise Unsupported("KDict value must be a concrete-length list of integers")
        from . import smt
        st, _ = smt.check_sat(list(interp.ctx.axioms) + list(interp.pc) + [z3.Select(self.has, c)], 5000)
        if st != "unsat":
            raise Unsupported("re-assignment of a possibly present key (aliases of the old value are not modelled)")
        arr = z3.K(I, z3.IntVal(0))
        for i, x in enumerate(v):
            arr = z3.Store(arr, i, term_of(x))
        self.has = z3.Store(self.has, c, z3.BoolVal(True))
        self.vl = z3.Store(self.vl, c, arr)
        self.vn = z3.Store(self.vn, c, z3.IntVal(len(v)))
        self.keys = z3.Store(self.keys, self.nk, c)
        self.kpos = z3.Store(self.kpos, c, self.nk)
        self.nk = z3.simplify(self.nk + 1)

    def vf_method(self, interp, name, args, kwargs):
        if kwargs:
            raise Unsupported(f"dict.{name} with keyword arguments")
        if name == "items" and not args:
            return _Items(self)
        if name == "keys" and not args and not interp.spec_mode:
            return _Items(self, "keys")
        if name == "values" and not args:
            return _Items(self, "values")
        if interp.spec_mode:
            a = [term_of(x) for x in args]
            if name == "present":
                return wrap_term(z3.Select(self.has, a[0]))
            if name == "count":
                return wrap_term(z3.Select(self.vn, a[0]))
            if name == "item":
                return wrap_term(z3.Select(z3.Select(self.vl, a[0]), a[1]))
            if name == "first":
                return wrap_term(z3.Select(z3.Select(self.vl, a[0]), 0))
            if name == "nkeys":
                return wrap_term(self.nk)
            if name == "key":
                return wrap_term(z3.Select(self.keys, a[0]))
            if name == "keypos":
                return wrap_term(z3.Select(self.kpos, a[0]))
        raise Unsupported(f"dict.{name} on class-keyed symbolic dict")


class _Items(SymProto):
    def __init__(self, d, what="items"):
        self.d, self.what = d, what

    def vf_view(self, interp):
        from .loops import IterView
        d = self.d

        def elem(ip, k):
            c = z3.Select(d.keys, k)
            key, val = SObj("DictKey", c), DictListRef(d, c)
            return {"items": (key, val), "keys": key, "values": val}[self.what]
        return IterView(d.nk, elem)


class DictListRef(SymProto):
    """the list object stored under class c (reads and writes go to the dict's current state: aliasing is exact as long
    as the key is not re-assigned, which KDict.vf_setitem refuses)"""

    def __init__(self, d, c):
        self.d, self.c = d, c

    def __repr__(self):
        return f"KDict[{self.c}]"

    def _len(self):
        return z3.Select(self.d.vn, self.c)

    def vf_len(self, interp):
        return wrap_term(self._len())

    def vf_truth(self):
        return self._len() > 0

    def vf_getitem(self, interp, idx):
        if isinstance(idx, slice):
            raise Unsupported("slice of a list stored in a symbolic dict")
        it = term_of(idx)
        if not interp.spec_mode:
            interp.prove(z3.And(it >= 0, it < self._len()), "py/index-in-bounds", detail=f"{self!r}[{it}]")
        return wrap_term(z3.Select(z3.Select(self.d.vl, self.c), it))

    def vf_method(self, interp, name, args, kwargs):
        if name == "append" and len(args) == 1 and not kwargs:
            x = args[0]
            if not isinstance(x, (int, SInt)) or isinstance(x, bool):
                raise Unsupported("append of a non-integer to a list stored in a symbolic dict")
            d, c = self.d, self.c
            n = z3.Select(d.vn, c)
            d.vl = z3.Store(d.vl, c, z3.Store(z3.Select(d.vl, c), n, term_of(x)))
            d.vn = z3.Store(d.vn, c, n + 1)
            return None
        raise Unsupported(f"list.{name} on a list stored in a symbolic dict")

    def vf_view(self, interp):
        from .loops import IterView
        d, c = self.d, self.c
        return IterView(z3.Select(d.vn, c), lambda ip, k: wrap_term(z3.Select(z3.Select(d.vl, c), k)))


class GhostMap(SymProto):
    """ghost function Int -> Int (specification state only: written by contract hooks, read in clauses)"""

    def __init__(self, arr=None):
        self.arr = arr if arr is not None else z3.K(I, z3.IntVal(0))

    def vf_getitem(self, interp, idx):
        return wrap_term(z3.Select(self.arr, term_of(idx)))

    def put(self, k, v):
        self.arr = z3.Store(self.arr, term_of(k), term_of(v))

    @classmethod
    def fresh(cls, interp, name):
        return cls(interp.fresh(name, AII))


class SmallDict(SymProto):
    """insertion-ordered dict with a concrete number of entries whose keys may be symbolic strings / numbers: an association
    list; key comparison goes through the interpreter's == (forking when undecided), exactly like a dict with equal hashes."""

    def __init__(self, pairs=None):
        self.pairs = list(pairs or [])

    def __repr__(self):
        return "SmallDict(" + ", ".join(f"{k!r}: {v!r}" for k, v in self.pairs) + ")"

    def _find(self, interp, k):
        from . import models
        for i, (kk, _) in enumerate(self.pairs):
            if interp.truth(models.equals(interp, kk, k)):
                return i
        return -1

    def vf_getitem(self, interp, k):
        i = self._find(interp, k)
        if i < 0:
            from .interp import PyRaise
            raise PyRaise(KeyError(repr(k)))
        return self.pairs[i][1]

    def vf_setitem(self, interp, k, v):
        i = self._find(interp, k)
        if i < 0:
            self.pairs.append((k, v))
        else:
            self.pairs[i] = (self.pairs[i][0], v)

    def vf_contains(self, interp, k):
        return self._find(interp, k) >= 0

    def vf_len(self, interp):
        return len(self.pairs)

    def vf_truth(self):
        return z3.BoolVal(bool(self.pairs))

    def vf_view(self, interp):
        from .loops import _concrete_view
        return _concrete_view([k for k, _ in self.pairs])

    def vf_method(self, interp, name, args, kwargs):
        if kwargs:
            raise Unsupported(f"dict.{name} with keyword arguments")
        if name == "items" and not args:
            return [(k, v) for k, v in self.pairs]
        if name == "keys" and not args:
            return [k for k, _ in self.pairs]
        if name == "values" and not args:
            return [v for _, v in self.pairs]
        if name == "copy" and not args:
            return SmallDict(self.pairs)
        if name == "get" and 1 <= len(args) <= 2:
            i = self._find(interp, args[0])
            return self.pairs[i][1] if i >= 0 else (args[1] if len(args) > 1 else None)
        raise Unsupported(f"dict.{name} on a dict with symbolic keys")
