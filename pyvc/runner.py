"""Path exploration driver (serial and 16-process), result aggregation.

A *unit* is one function (or one region / lemma group) under contract: a context factory and an entry
procedure that sets up the symbolic arguments, runs the real function through the interpreter and states
the postconditions.  Units are registered by the contract modules (pyvc.units)."""
from __future__ import annotations
import os, time, traceback, logging
from dataclasses import dataclass, field
from concurrent.futures import ProcessPoolExecutor, wait, FIRST_COMPLETED
from .interp import Interp, PathEnd, PyRaise, Obligation, _short_model
from .sym import Unsupported, EmitError
from . import smt


@dataclass
class UnitResult:
    name: str
    obligations: list = field(default_factory=list)   # dicts
    paths: int = 0
    error: str = ""
    seconds: float = 0.0
    solver: dict = field(default_factory=dict)
    stopped_early: bool = False

    def by_status(self, st):
        return [o for o in self.obligations if o["status"] == st]


def _ob_dict(o: Obligation):
    return {"name": o.name, "props": list(o.prop), "status": o.status, "backend": o.backend,
            "seconds": round(o.seconds, 4), "path": o.path, "detail": o.detail, "where": o.where,
            "model": _short_model(o.model, 2000) if o.model is not None else ""}


def run_path(ctx, entry, prefix, path_id=0):
    """execute one path; returns (obligation dicts, alternatives, error string)"""
    it = Interp(ctx, prefix)
    it.path_id = path_id
    err = ""
    try:
        entry(it)
        it.cover("end-of-entry")
    except PathEnd:
        pass
    except PyRaise as e:
        it.fail("no-uncaught-exception", detail=f"uncaught {type(e.exc).__name__}: {e.exc}")
    except EmitError as e:
        it.fail("emit/typing", detail=str(e))
    except Unsupported as e:
        err = f"unsupported: {e} (in {' > '.join(it.trace[-3:])})"
    except Exception as e:
        err = f"engine error: {type(e).__name__}: {e}\n{traceback.format_exc(limit=6)}"
    obs = [_ob_dict(o) for o in it.obligations]
    for o in obs:
        if o["status"] != "proved":
            o["decisions"] = list(it.decisions)
    return obs, it.alternatives, err


def explore(unit, props=(), max_paths=20000, serial=False) -> UnitResult:
    t0 = time.time()
    res = UnitResult(unit.name)
    if serial or os.environ.get("VF_SERIAL"):
        ctx = unit.make_ctx(props)
        work = [[]]
        while work:
            prefix = work.pop()
            res.paths += 1
            if res.paths > max_paths:
                res.error = f"path limit {max_paths} exceeded"
                break
            obs, alts, err = run_path(ctx, unit.entry, prefix, res.paths)
            res.obligations.extend(obs)
            work.extend(alts)
            if err:
                res.error = err
                break
        res.solver = dict(smt.STATS)
    else:
        nproc = int(os.environ.get("VF_JOBS", "16"))
        with ProcessPoolExecutor(max_workers=nproc) as ex:
            pending = {ex.submit(_worker, unit.module, unit.name, tuple(props), [], 1)}
            submitted = 1
            nfail = 0
            max_fail = int(os.environ.get("VF_MAX_FAIL", "6"))
            while pending:
                done, pending = wait(pending, return_when=FIRST_COMPLETED)
                for fut in done:
                    obs, alts, err, stats = fut.result()
                    res.paths += 1
                    res.obligations.extend(obs)
                    for k, v in stats.items():
                        if isinstance(v, (int, float)):
                            res.solver[k] = res.solver.get(k, 0) + v
                        elif isinstance(v, dict):
                            d = res.solver.setdefault(k, {})
                            for kk, vv in v.items():
                                d[kk] = d.get(kk, 0) + vv
                    if err and not res.error:
                        res.error = err
                    nfail += sum(1 for o in obs if o["status"] in ("refuted", "cex-ground"))
                    if res.error or nfail >= max_fail:
                        res.stopped_early = nfail >= max_fail
                        continue
                    for a in alts:
                        submitted += 1
                        if submitted > max_paths:
                            res.error = f"path limit {max_paths} exceeded"
                            break
                        pending.add(ex.submit(_worker, unit.module, unit.name, tuple(props), a, submitted))
    res.seconds = time.time() - t0
    return res


_CTX_CACHE: dict = {}


def _worker(module, unit_name, props, prefix, path_id):
    logging.disable(logging.CRITICAL)
    from . import units
    unit = units.load(module, unit_name)
    if unit.timeout_ms:
        smt.Z3_TIMEOUT_MS = unit.timeout_ms
    key = (module, unit_name, props)
    ctx = _CTX_CACHE.get(key)
    if ctx is None:
        ctx = _CTX_CACHE[key] = unit.make_ctx(props)
    before = _snapshot()
    obs, alts, err = run_path(ctx, unit.entry, prefix, path_id)
    after = _snapshot()
    return obs, alts, err, _delta(before, after)


def _snapshot():
    s = dict(smt.STATS)
    s["by_backend"] = dict(s["by_backend"])
    return s


def _delta(a, b):
    out = {}
    for k, v in b.items():
        if isinstance(v, dict):
            out[k] = {kk: vv - a.get(k, {}).get(kk, 0) for kk, vv in v.items()}
        else:
            out[k] = v - a.get(k, 0)
    return out


def summarize(obligations):
    """group obligation instances (one per path) by name -> worst status"""
    out = {}
    order = {"proved": 0, "unknown": 1, "cex-ground": 2, "refuted": 3}
    corder = {"covered": 0, "unknown": 1, "vacuous": 2}
    for o in obligations:
        cur = out.get(o["name"])
        if o["name"].startswith("cover/"):
            # vacuity guards: best status over the paths that reach the site
            if cur is None:
                cur = out[o["name"]] = {"status": o["status"], "instances": 0, "props": o["props"], "backends": {}, "seconds": 0.0, "detail": ""}
            cur["instances"] += 1
            cur["seconds"] += o["seconds"]
            cur["backends"][o["backend"]] = cur["backends"].get(o["backend"], 0) + 1
            if corder[o["status"]] < corder[cur["status"]]:
                cur["status"] = o["status"]
            continue
        if cur is None:
            cur = out[o["name"]] = {"status": o["status"], "instances": 0, "props": o["props"], "backends": {},
                                    "seconds": 0.0, "detail": ""}
        cur["instances"] += 1
        cur["seconds"] += o["seconds"]
        cur["backends"][o["backend"]] = cur["backends"].get(o["backend"], 0) + 1
        if order[o["status"]] > order[cur["status"]]:
            cur["status"] = o["status"]
        if o["status"] != "proved" and not cur["detail"]:
            cur["detail"] = o["detail"]
            cur["model"] = o.get("model", "")
            cur["where"] = o.get("where", "")
            cur["decisions"] = o.get("decisions", [])
    return out
