"""Symbolic interpreter / VC generator for the Python subset used by naunet.

It re-reads the real source of every function it executes (inspect -> file on disk -> ast) on every run.
Concrete values are computed by CPython itself; symbolic values (pyvc.sym) flow through the same code.
Paths are explored by deterministic re-execution with a decision log; loops over symbolic collections
are cut at contract-supplied invariants (establish / preserve / use), calls to functions that have a
contract are replaced by assert-requires / assume-ensures."""
from __future__ import annotations
import ast, builtins, inspect, operator, textwrap, types, sys, enum
from dataclasses import dataclass, field
from typing import Any
import z3

from . import smt
from .sym import (Sym, SInt, SReal, SBool, SStr, SList, FList, SObj, SRange, SDict, Lit, Hole, Unsupported,
                  SymMisuse, is_sym, mkstr, subst_value, Codec, IntCodec)
from . import ops
from .ops import truth_term, term_of, wrap_term, sbool_and, sbool_or, sbool_not


class PathEnd(Exception):
    """this path is complete (loop body checked, or assumption made the path infeasible)"""


class ReturnSig(Exception):
    def __init__(self, value):
        self.value = value


class BreakSig(Exception):
    pass


class ContinueSig(Exception):
    pass


class PyRaise(Exception):
    """exception raised by the interpreted program"""

    def __init__(self, exc):
        self.exc = exc
        super().__init__(repr(exc))


class Closure:
    def __init__(self, node, env, interp, name="<lambda>", defaults=(), kwdefaults=None, owner_class=None):
        self.node, self.env, self.interp, self.name = node, env, interp, name
        self.defaults, self.kwdefaults = defaults, kwdefaults or {}
        self.__name__ = name

    def __call__(self, *a, **k):  # allows native code (sorted key=..., map) to call interpreted lambdas
        return self.interp.call(self, list(a), k)


class Env:
    __slots__ = ("vars", "parent", "globals", "func", "self_arg")

    def __init__(self, parent=None, globals=None, func=None):
        self.vars = {}
        self.parent = parent
        self.globals = globals if globals is not None else (parent.globals if parent else {})
        self.func = func
        self.self_arg = None

    def lookup(self, name):
        e = self
        while e is not None:
            if name in e.vars:
                return e.vars[name]
            e = e.parent
        if name in self.globals:
            return self.globals[name]
        if hasattr(builtins, name):
            return getattr(builtins, name)
        raise PyRaise(NameError(name))

    def set(self, name, value):
        self.vars[name] = value


@dataclass
class Obligation:
    name: str
    prop: tuple
    status: str
    backend: str
    seconds: float
    path: int
    detail: str = ""
    model: Any = None
    where: str = ""


class BoundSym:
    def __init__(self, recv, name):
        self.recv, self.name = recv, name


_AST_CACHE: dict = {}


def func_ast(fn):
    code = fn.__code__
    key = (code.co_filename, code.co_firstlineno, code.co_name)
    if key not in _AST_CACHE:
        src = textwrap.dedent(inspect.getsource(fn))
        mod = ast.parse(src)
        node = mod.body[0]
        if isinstance(node, ast.Expr) or not isinstance(node, (ast.FunctionDef, ast.Lambda)):
            # lambda assigned in a class body etc.: find first Lambda / FunctionDef
            for n in ast.walk(mod):
                if isinstance(n, (ast.FunctionDef, ast.Lambda)):
                    node = n
                    break
        ast.increment_lineno(node, code.co_firstlineno - 1)
        _AST_CACHE[key] = node
    return _AST_CACHE[key]


NOOP_MODULE_PREFIXES = ("logging",)
import os as _os
VERBOSE = bool(_os.environ.get("VF_VERBOSE"))
NOSKIP = bool(_os.environ.get("VF_NOSKIP"))


class Interp:
    def __init__(self, ctx, prefix=()):
        self.ctx = ctx                      # VerifContext (contracts, models, axioms)
        self.prefix = list(prefix)
        self.decisions: list = []
        self.pos = 0
        self.alternatives: list = []
        self.pc: list = []
        self.feas = smt.Feas()
        self.obligations: list[Obligation] = []
        self.fresh_n = 0
        self.path_id = 0
        self.spec_mode = 0
        self.trace: list = []
        self.call_depth = 0
        self.ghost: dict = {}
        self.inst_terms: list = []
        self.strides: list = []
        self.abs_store: dict = {}
        for a in ctx.axioms:
            self.feas.push_fact(a)

    # ------------------------------------------------------------------ path machinery
    def fresh(self, name, sort):
        self.fresh_n += 1
        return z3.Const(f"{name}!{self.fresh_n}", sort)

    def fresh_int(self, name="i"):
        return self.fresh(name, z3.IntSort())

    def assume(self, f):
        if isinstance(f, SBool):
            f = f.t
        if f is True:
            return
        if f is False:
            raise PathEnd("assume false")
        f = z3.simplify(f) if not z3.is_quantifier(f) else f
        if z3.is_true(f):
            return
        if z3.is_false(f):
            raise PathEnd("assume false")
        self.pc.append(f)
        self.feas.push_fact(f)

    def choose(self, n, label=""):
        """n-way non-deterministic choice (no solver): explore all"""
        if self.pos < len(self.prefix):
            d = self.prefix[self.pos]
        else:
            d = 0
            for alt in range(n - 1, 0, -1):
                self.alternatives.append(self.decisions + [alt])
        self.decisions.append(d)
        self.pos += 1
        return d

    def branch(self, cond) -> bool:
        """fork on a symbolic condition; returns the side taken on this path"""
        if isinstance(cond, SBool):
            cond = cond.t
        if isinstance(cond, bool):
            return cond
        cond = z3.simplify(cond)
        if z3.is_true(cond):
            return True
        if z3.is_false(cond):
            return False
        if self.pos < len(self.prefix):
            take = bool(self.prefix[self.pos])
        else:
            can_t = self.feas.feasible(cond)
            can_f = self.feas.feasible(z3.Not(cond))
            if can_t and can_f:
                take = True
                self.alternatives.append(self.decisions + [0])
            elif can_t:
                take = True
            elif can_f:
                take = False
            else:
                raise PathEnd("infeasible path")
        self.decisions.append(1 if take else 0)
        self.pos += 1
        self.assume(cond if take else z3.Not(cond))
        return take

    def truth(self, v) -> bool:
        if isinstance(v, Sym):
            if self.spec_mode:
                raise Unsupported("truth value of a symbolic term needed in specification context")
            return self.branch(truth_term(v))
        return bool(v)

    def prove(self, claim, name, prop=(), detail="", hints=()):
        """record and discharge an obligation: pc => claim; afterwards assume it"""
        if isinstance(claim, SBool):
            claim = claim.t
        if isinstance(claim, bool):
            claim = z3.BoolVal(claim)
        if not self.ctx.wants(prop, name) or (self.pos < len(self.prefix) and not NOSKIP):
            # (replaying the decision prefix: this obligation was discharged on the path that forked here)
            self.assume(claim)
            return
        simp = z3.simplify(claim) if not z3.is_quantifier(claim) else claim
        where = self.trace[-1] if self.trace else ""
        if z3.is_true(simp):
            self.obligations.append(Obligation(name, tuple(prop), "proved", "simplify", 0.0, self.path_id, detail, None, where))
            return
        status, backend, secs, model = smt.check_valid_inst(self.ctx.axioms, list(self.pc) + list(hints), claim,
                                                            inst_terms=self.inst_terms, defined=self.ctx.spec_defined,
                                                            hint_fn=lambda sks, facts, goal: self.ctx.goal_hints(self, sks, facts, goal),
                                                            defs=self.ctx.defs, strides=self.strides, store=self.abs_store)
        ob = Obligation(name, tuple(prop), status, backend, secs, self.path_id, detail, model, where)
        if VERBOSE:
            print(f"  [{self.path_id}] {status:8s} {secs:6.2f}s {name}", flush=True)
        if status != "proved":
            ob.detail = (detail + " | claim: " + _short(claim)).strip()
            if model is not None:
                ob.detail += " | model: " + _short_model(model)
        self.obligations.append(ob)
        self.assume(claim)

    def cover(self, name):
        """vacuity guard: the assumptions collected on this path (requires, assumed callee contracts, invariants assumed after a
        cut) must be satisfiable here; recorded as cover/<name> with status covered / unknown / vacuous.  A site is vacuous only
        if it is on every path that reaches it (paths the branch test could not refute may be infeasible for good reasons)."""
        if self.pos < len(self.prefix):
            return
        import time as _t
        t0 = _t.time()
        st, _ = smt.check_sat(list(self.ctx.axioms) + list(self.pc), timeout_ms=3000)
        backend = "z3-sat"
        if st == "sat":
            status = "covered"
        elif st == "unsat":
            status = "vacuous"
        else:
            st2, _ = smt.check_sat([f for f in self.pc if not smt._has_quant(f)], timeout_ms=20000)
            backend = "z3-sat(ground part; quantified facts are proved invariants or definitions)"
            status = "covered" if st2 == "sat" else ("vacuous" if st2 == "unsat" else "unknown")
        self.obligations.append(Obligation("cover/" + name, (), status, backend, _t.time() - t0, self.path_id, "", None,
                                           self.trace[-1] if self.trace else ""))

    def fail(self, name, prop=(), detail=""):
        """an obligation that fails without a solver query (e.g. emitted text does not type)"""
        if not self.ctx.wants(prop, name) or self.pos < len(self.prefix):
            return
        # the failure is real only if the path is feasible: ask the solver with the full path condition
        st, mdl = smt.check_sat(list(self.ctx.axioms) + list(self.pc), timeout_ms=5000)
        if st == "unsat":
            return
        status = "refuted"
        if st != "sat":
            # undecided with the quantified facts: decide on the ground part of the path condition
            st2, mdl = smt.check_sat([f for f in self.pc if not smt._has_quant(f)], timeout_ms=5000)
            if st2 == "unsat":
                return
            status = "cex-ground" if st2 == "sat" else "unknown"
        self.obligations.append(Obligation(name, tuple(prop), status, "typing", 0.0, self.path_id, detail, mdl,
                                           self.trace[-1] if self.trace else ""))

    # ------------------------------------------------------------------ calling
    def call(self, callee, args, kwargs):
        ctx = self.ctx
        if isinstance(callee, Closure):
            return self.call_ast(callee.node, callee.env, args, kwargs, callee.defaults, callee.kwdefaults, callee.name)
        if isinstance(callee, BoundSym):
            from . import models
            return models.call_sym_method(self, callee.recv, callee.name, args, kwargs)
        if isinstance(callee, types.MethodType):
            return self.call(callee.__func__, [callee.__self__] + list(args), kwargs)
        from . import models
        m = models.BUILTIN_MODELS.get(id(callee))
        if m is not None:
            return m(self, args, kwargs)
        mod = getattr(callee, "__module__", None) or ""
        if isinstance(callee, types.FunctionType):
            qn = f"{mod}.{callee.__qualname__}"
            c = ctx.call_contracts.get(qn)
            if c is not None:
                return c(self, args, kwargs)
            if ctx.interpret_module(mod):
                if _all_plain(args, kwargs) and not ctx.force_interpret(qn):
                    return self.native(callee, args, kwargs)
                return self.call_function(callee, args, kwargs)
            if mod.startswith(NOOP_MODULE_PREFIXES) or qn in ctx.noop_functions:
                return None
            return self.native(callee, args, kwargs)
        if isinstance(callee, type):
            return self.instantiate(callee, args, kwargs)
        if isinstance(callee, functools_partial):
            return self.call(callee.func, list(callee.args) + list(args), {**callee.keywords, **kwargs})
        name = getattr(callee, "__qualname__", getattr(callee, "__name__", repr(callee)))
        if mod.startswith(NOOP_MODULE_PREFIXES) or (getattr(callee, "__self__", None).__class__.__module__ or "").startswith(NOOP_MODULE_PREFIXES):
            return None
        return self.native(callee, args, kwargs)

    def native(self, callee, args, kwargs):
        try:
            return callee(*args, **kwargs)
        except SymMisuse as e:
            raise Unsupported(f"symbolic value reached native code {getattr(callee, '__qualname__', callee)}: {e}")
        except (PyRaise, PathEnd, Unsupported, ReturnSig):
            raise
        except Exception as e:
            raise PyRaise(e)

    def instantiate(self, cls, args, kwargs):
        mod = cls.__module__ or ""
        if not self.ctx.interpret_module(mod) or issubclass(cls, (enum.Enum, BaseException)):
            if issubclass(cls, BaseException):
                return cls(*[_plain_repr(a) for a in args])
            return self.native(cls, args, kwargs)
        c = self.ctx.call_contracts.get(f"{mod}.{cls.__qualname__}")
        if c is not None:
            return c(self, args, kwargs)
        init = None
        for k in cls.__mro__:
            if "__init__" in k.__dict__:
                init = k.__dict__["__init__"]
                break
        if init is None or not isinstance(init, types.FunctionType) or init.__code__.co_filename.startswith("<"):
            return self.native(cls, args, kwargs)   # dataclass-generated or C-level __init__: stores only
        if _all_plain(args, kwargs) and not self.ctx.force_interpret(f"{mod}.{cls.__qualname__}"):
            return self.native(cls, args, kwargs)
        obj = cls.__new__(cls)
        self.call_function(init, [obj] + list(args), kwargs)
        return obj

    def call_function(self, fn, args, kwargs):
        node = func_ast(fn)
        env = Env(globals=fn.__globals__, func=fn)
        if fn.__closure__:
            for name, cell in zip(fn.__code__.co_freevars, fn.__closure__):
                try:
                    env.vars[name] = cell.cell_contents
                except ValueError:
                    pass
        return self.call_ast(node, env, args, kwargs, fn.__defaults__ or (), fn.__kwdefaults__ or {},
                             fn.__qualname__, fn)

    def call_ast(self, node, defenv, args, kwargs, defaults, kwdefaults, name, fn=None):
        env = Env(parent=defenv, globals=defenv.globals, func=fn)
        a = node.args
        params = [p.arg for p in a.posonlyargs + a.args]
        args = list(args)
        kwargs = dict(kwargs)
        nd = len(defaults)
        for i, p in enumerate(params):
            if i < len(args):
                env.vars[p] = args[i]
            elif p in kwargs:
                env.vars[p] = kwargs.pop(p)
            else:
                di = i - (len(params) - nd)
                if di < 0:
                    raise PyRaise(TypeError(f"{name}() missing argument {p}"))
                env.vars[p] = defaults[di]
        if len(args) > len(params):
            if a.vararg is None:
                raise PyRaise(TypeError(f"{name}() takes {len(params)} positional arguments"))
            env.vars[a.vararg.arg] = tuple(args[len(params):])
        elif a.vararg is not None:
            env.vars[a.vararg.arg] = ()
        for p in a.kwonlyargs:
            if p.arg in kwargs:
                env.vars[p.arg] = kwargs.pop(p.arg)
            elif p.arg in kwdefaults:
                env.vars[p.arg] = kwdefaults[p.arg]
            else:
                raise PyRaise(TypeError(f"{name}() missing keyword argument {p.arg}"))
        if a.kwarg is not None:
            env.vars[a.kwarg.arg] = kwargs
        elif kwargs:
            raise PyRaise(TypeError(f"{name}() got unexpected keyword arguments {list(kwargs)}"))
        env.self_arg = env.vars.get(params[0]) if params else None
        self.call_depth += 1
        if self.call_depth > 60:
            raise Unsupported("interpreted call depth > 60")
        self.trace.append(name)
        try:
            if isinstance(node, ast.Lambda):
                return self.eval(node.body, env)
            try:
                self.exec_block(node.body, env)
            except ReturnSig as r:
                return r.value
            return None
        finally:
            self.trace.pop()
            self.call_depth -= 1

    # ------------------------------------------------------------------ statements
    def exec_block(self, stmts, env):
        for s in stmts:
            self.exec(s, env)

    def exec(self, s, env):
        m = getattr(self, "x_" + type(s).__name__, None)
        if m is None:
            raise Unsupported(f"statement {type(s).__name__} at line {getattr(s, 'lineno', '?')}")
        hook = None
        if self.ctx.stmt_hooks and env.func is not None and not isinstance(s, (ast.For, ast.If, ast.While, ast.Try, ast.With, ast.FunctionDef)):
            txt = ast.unparse(s)
            hook = self.ctx.stmt_hooks.get((env.func.__qualname__, txt))
            if hook is None:
                for (qn, prefix), h in self.ctx.stmt_hooks.items():
                    if prefix.endswith("*") and qn == env.func.__qualname__ and txt.startswith(prefix[:-1]):
                        hook = h
                        break
        m(s, env)
        if hook:
            hook(self, env)

    def x_Expr(self, s, env):
        self.eval(s.value, env)

    def x_Pass(self, s, env):
        pass

    def x_Return(self, s, env):
        v = self.eval(s.value, env) if s.value is not None else None
        if env.func is not None:
            hook = self.ctx.return_hooks.get(env.func.__qualname__)
            if hook:
                hook(self, _function_env(env), v)
        raise ReturnSig(v)

    def x_Break(self, s, env):
        raise BreakSig()

    def x_Continue(self, s, env):
        raise ContinueSig()

    def x_Assign(self, s, env):
        v = self.eval(s.value, env)
        for t in s.targets:
            self.assign(t, v, env)

    def x_AnnAssign(self, s, env):
        if s.value is not None:
            self.assign(s.target, self.eval(s.value, env), env)

    def x_AugAssign(self, s, env):
        t = s.target
        if isinstance(t, ast.Name):
            cur = env.lookup(t.id)
            new = self.binop(s.op, cur, self.eval(s.value, env))
            self.assign(t, new, env)
        elif isinstance(t, ast.Subscript):
            obj = self.eval(t.value, env)
            idx = self.eval_index(t.slice, env)
            cur = self.getitem(obj, idx)
            new = self.binop(s.op, cur, self.eval(s.value, env))
            self.setitem(obj, idx, new)
        elif isinstance(t, ast.Attribute):
            obj = self.eval(t.value, env)
            cur = self.getattr(obj, t.attr)
            new = self.binop(s.op, cur, self.eval(s.value, env))
            self.setattr(obj, t.attr, new)
        else:
            raise Unsupported("augmented assignment target")

    def x_Delete(self, s, env):
        for t in s.targets:
            if isinstance(t, ast.Subscript):
                obj = self.eval(t.value, env)
                idx = self.eval_index(t.slice, env)
                if is_sym(obj) or is_sym(idx):
                    raise Unsupported("del on symbolic container")
                try:
                    del obj[idx]
                except Exception as e:
                    raise PyRaise(e)
            elif isinstance(t, ast.Name):
                env.vars.pop(t.id, None)
            else:
                raise Unsupported("del target")

    def x_If(self, s, env):
        if self.truth(self.eval(s.test, env)):
            self.exec_block(s.body, env)
        else:
            self.exec_block(s.orelse, env)

    def x_Assert(self, s, env):
        if not self.truth(self.eval(s.test, env)):
            raise PyRaise(AssertionError())

    def x_Raise(self, s, env):
        if s.exc is None:
            raise Unsupported("bare raise outside handler")
        e = self.eval(s.exc, env)
        if isinstance(e, type):
            e = e()
        raise PyRaise(e)

    def x_Try(self, s, env):
        try:
            try:
                self.exec_block(s.body, env)
            except PyRaise as pr:
                for h in s.handlers:
                    if h.type is None or isinstance(pr.exc, self.eval(h.type, env)):
                        if h.name:
                            env.set(h.name, pr.exc)
                        try:
                            self.exec_block(h.body, env)
                        except PyRaise as inner:
                            raise inner
                        break
                else:
                    raise
            else:
                self.exec_block(s.orelse, env)
        finally:
            if s.finalbody:
                self.exec_block(s.finalbody, env)

    def x_With(self, s, env):
        if len(s.items) != 1:
            raise Unsupported("multi-item with")
        item = s.items[0]
        cm = self.eval(item.context_expr, env)
        if is_sym(cm):
            raise Unsupported("symbolic context manager")
        val = self.ctx.with_enter(self, cm)
        if item.optional_vars is not None:
            self.assign(item.optional_vars, val, env)
        try:
            self.exec_block(s.body, env)
        finally:
            self.ctx.with_exit(self, cm)

    def x_Import(self, s, env):
        import importlib
        for a in s.names:
            mod = importlib.import_module(a.name)
            env.set(a.asname or a.name.split(".")[0], mod if a.asname else importlib.import_module(a.name.split(".")[0]))

    def x_ImportFrom(self, s, env):
        import importlib
        pkg = env.globals.get("__package__")
        mod = importlib.import_module("." * s.level + (s.module or ""), pkg) if s.level else importlib.import_module(s.module)
        for a in s.names:
            env.set(a.asname or a.name, getattr(mod, a.name))

    def x_FunctionDef(self, s, env):
        defaults = tuple(self.eval(d, env) for d in s.args.defaults)
        kwd = {a.arg: self.eval(d, env) for a, d in zip(s.args.kwonlyargs, s.args.kw_defaults) if d is not None}
        if s.decorator_list:
            raise Unsupported("decorated nested function")
        env.set(s.name, Closure(s, env, self, s.name, defaults, kwd))

    def x_Global(self, s, env):
        raise Unsupported("global statement")

    def x_While(self, s, env):
        n = 0
        while self.truth(self.eval(s.test, env)):
            n += 1
            if n > 10000:
                raise Unsupported("while loop did not terminate concretely")
            try:
                self.exec_block(s.body, env)
            except BreakSig:
                break
            except ContinueSig:
                continue
        else:
            self.exec_block(s.orelse, env)

    def x_For(self, s, env):
        from . import loops
        loops.exec_for(self, s, env)

    # ------------------------------------------------------------------ assignment helpers
    def assign(self, target, v, env):
        if isinstance(target, ast.Name):
            conv = self.ctx.on_assign(self, env, target.id, v)
            env.set(target.id, conv)
        elif isinstance(target, (ast.Tuple, ast.List)):
            vals = self.unpack(v, target)
            for t, x in zip(target.elts, vals):
                if isinstance(t, ast.Starred):
                    self.assign(t.value, x, env)
                else:
                    self.assign(t, x, env)
        elif isinstance(target, ast.Subscript):
            obj = self.eval(target.value, env)
            idx = self.eval_index(target.slice, env)
            self.setitem(obj, idx, v)
        elif isinstance(target, ast.Attribute):
            self.setattr(self.eval(target.value, env), target.attr, v)
        else:
            raise Unsupported(f"assignment target {type(target).__name__}")

    def unpack(self, v, target):
        items = self.iterate_concrete(v)
        elts = target.elts
        star = [i for i, t in enumerate(elts) if isinstance(t, ast.Starred)]
        if not star:
            if len(items) != len(elts):
                raise PyRaise(ValueError(f"cannot unpack {len(items)} values into {len(elts)}"))
            return items
        k = star[0]
        after = len(elts) - k - 1
        if len(items) < len(elts) - 1:
            raise PyRaise(ValueError("not enough values to unpack"))
        return items[:k] + [list(items[k:len(items) - after])] + items[len(items) - after:]

    def iterate_concrete(self, v) -> list:
        """list of elements of a collection whose length is concrete (possibly after forking on it)"""
        from . import loops
        return loops.concrete_items(self, v)

    # ------------------------------------------------------------------ expressions
    def eval(self, e, env):
        m = getattr(self, "e_" + type(e).__name__, None)
        if m is None:
            raise Unsupported(f"expression {type(e).__name__} at line {getattr(e, 'lineno', '?')}")
        return m(e, env)

    def e_Constant(self, e, env):
        return e.value

    def e_Name(self, e, env):
        return env.lookup(e.id)

    def e_NamedExpr(self, e, env):
        v = self.eval(e.value, env)
        env.set(e.target.id, v)
        return v

    def e_Tuple(self, e, env):
        return tuple(self.eval_elts(e.elts, env))

    def e_List(self, e, env):
        return list(self.eval_elts(e.elts, env))

    def e_Set(self, e, env):
        vals = self.eval_elts(e.elts, env)
        if is_sym(vals):
            raise Unsupported("set display with symbolic elements")
        return set(vals)

    def eval_elts(self, elts, env):
        out = []
        for x in elts:
            if isinstance(x, ast.Starred):
                out.extend(self.iterate_concrete(self.eval(x.value, env)))
            else:
                out.append(self.eval(x, env))
        return out

    def e_Dict(self, e, env):
        d = {}
        for k, v in zip(e.keys, e.values):
            if k is None:
                d.update(self.eval(v, env))
            else:
                kk = self.eval(k, env)
                if isinstance(kk, Sym):
                    raise Unsupported("dict display with symbolic key")
                d[kk] = self.eval(v, env)
        return d

    def e_BoolOp(self, e, env):
        if self.spec_mode:
            vals = [self.eval(v, env) for v in e.values]
            return sbool_and(*vals) if isinstance(e.op, ast.And) else sbool_or(*vals)
        v = None
        for sub in e.values:
            v = self.eval(sub, env)
            t = self.truth(v)
            if isinstance(e.op, ast.And) and not t:
                return v
            if isinstance(e.op, ast.Or) and t:
                return v
        return v

    def e_UnaryOp(self, e, env):
        v = self.eval(e.operand, env)
        if isinstance(e.op, ast.Not):
            if self.spec_mode and isinstance(v, Sym):
                return sbool_not(v)
            return not self.truth(v)
        if isinstance(e.op, ast.USub):
            return -v
        if isinstance(e.op, ast.UAdd):
            return +v
        raise Unsupported("unary operator")

    def e_BinOp(self, e, env):
        return self.binop(e.op, self.eval(e.left, env), self.eval(e.right, env))

    BINOPS = {ast.Add: operator.add, ast.Sub: operator.sub, ast.Mult: operator.mul, ast.Div: operator.truediv,
              ast.FloorDiv: operator.floordiv, ast.Mod: operator.mod, ast.Pow: operator.pow,
              ast.BitOr: operator.or_, ast.BitAnd: operator.and_, ast.BitXor: operator.xor}

    def binop(self, op, a, b):
        from . import models
        r = models.sym_binop(self, op, a, b)
        if r is not NotImplemented:
            return r
        f = self.BINOPS.get(type(op))
        if f is None:
            raise Unsupported(f"operator {type(op).__name__}")
        if isinstance(op, (ast.FloorDiv, ast.Mod)) and isinstance(b, (SInt,)):
            self.prove(b.t > 0, "py/positive-divisor")
        try:
            return f(a, b)
        except SymMisuse as ex:
            raise Unsupported(f"operator {type(op).__name__} on {type(a).__name__},{type(b).__name__}: {ex}")
        except (Unsupported, PyRaise, PathEnd):
            raise
        except Exception as ex:
            raise PyRaise(ex)

    def e_Compare(self, e, env):
        left = self.eval(e.left, env)
        result = True
        for op, rhs in zip(e.ops, e.comparators):
            right = self.eval(rhs, env)
            r = self.compare(op, left, right)
            if len(e.ops) == 1:
                return r
            if self.spec_mode:
                result = sbool_and(result, r)
            else:
                if not self.truth(r):
                    return False
            left = right
        return result

    def compare(self, op, a, b):
        from . import models
        if isinstance(op, (ast.Is, ast.IsNot)):
            if isinstance(a, Sym) or isinstance(b, Sym):
                if a is None or b is None:
                    other = b if a is None else a
                    r = models.is_none(self, other)
                else:
                    r = a is b
            else:
                r = a is b
            return r if isinstance(op, ast.Is) else sbool_not(r)
        if isinstance(op, (ast.In, ast.NotIn)):
            r = models.contains(self, b, a)
            return r if isinstance(op, ast.In) else sbool_not(r)
        if isinstance(op, (ast.Eq, ast.NotEq)):
            r = self.eq(a, b)
            return r if isinstance(op, ast.Eq) else sbool_not(r)
        f = {ast.Lt: operator.lt, ast.LtE: operator.le, ast.Gt: operator.gt, ast.GtE: operator.ge}[type(op)]
        r = models.sym_compare(self, op, a, b)
        if r is not NotImplemented:
            return r
        try:
            return f(a, b)
        except SymMisuse as ex:
            raise Unsupported(f"comparison: {ex}")
        except (Unsupported, PyRaise, PathEnd):
            raise
        except Exception as ex:
            raise PyRaise(ex)

    def eq(self, a, b):
        from . import models
        return models.equals(self, a, b)

    def e_IfExp(self, e, env):
        c = self.eval(e.test, env)
        if self.spec_mode and isinstance(c, Sym):
            x, y = self.eval(e.body, env), self.eval(e.orelse, env)
            return wrap_term(z3.If(truth_term(c), term_of(x), term_of(y)))
        return self.eval(e.body, env) if self.truth(c) else self.eval(e.orelse, env)

    def e_Lambda(self, e, env):
        defaults = tuple(self.eval(d, env) for d in e.args.defaults)
        return Closure(e, env, self, "<lambda>", defaults)

    def e_Attribute(self, e, env):
        return self.getattr(self.eval(e.value, env), e.attr)

    def e_Subscript(self, e, env):
        obj = self.eval(e.value, env)
        idx = self.eval_index(e.slice, env)
        return self.getitem(obj, idx)

    def eval_index(self, sl, env):
        if isinstance(sl, ast.Slice):
            return slice(self.eval(sl.lower, env) if sl.lower else None, self.eval(sl.upper, env) if sl.upper else None,
                         self.eval(sl.step, env) if sl.step else None)
        return self.eval(sl, env)

    def e_Slice(self, e, env):
        return self.eval_index(e, env)

    def e_Starred(self, e, env):
        raise Unsupported("starred expression in this position")

    def e_JoinedStr(self, e, env):
        from . import models
        parts = []
        for v in e.values:
            if isinstance(v, ast.Constant):
                parts.append(v.value)
            else:
                parts.append(self.e_FormattedValue(v, env))
        if len(parts) == 1 and isinstance(parts[0], SObj):
            return parts[0]     # f"{x:spec}" alone is format(x, spec): an abstract string identified by the object model
        return models.concat(self, parts)

    def e_FormattedValue(self, e, env):
        from . import models
        v = self.eval(e.value, env)
        spec = ""
        if e.format_spec is not None:
            spec = self.eval(e.format_spec, env)
            if isinstance(spec, Sym):
                raise Unsupported("symbolic format spec")
        if e.conversion == 114:
            if isinstance(v, Sym):
                raise Unsupported("!r of symbolic value")
            v = repr(v)
        elif e.conversion == 115:
            v = models.to_str(self, v)
        return models.format_value(self, v, spec)

    def e_Call(self, e, env):
        from . import models
        # logging / print: no-ops, arguments not evaluated (assumption listed in evidence)
        if models.is_noop_call(self, e, env):
            return None
        if isinstance(e.func, ast.Name) and e.func.id == "super" and not e.args:
            cls = env.lookup("__class__")
            slf = self._frame_self(env)
            return super(cls, slf)
        callee = self.eval(e.func, env)
        args = []
        for a in e.args:
            if isinstance(a, ast.Starred):
                args.extend(self.iterate_concrete(self.eval(a.value, env)))
            else:
                args.append(self.eval(a, env))
        kwargs = {}
        for k in e.keywords:
            if k.arg is None:
                kwargs.update(self.eval(k.value, env))
            else:
                kwargs[k.arg] = self.eval(k.value, env)
        return self.call(callee, args, kwargs)

    def _frame_self(self, env):
        x = env
        while x is not None:
            if x.self_arg is not None:
                return x.self_arg
            x = x.parent
        raise Unsupported("super() outside a method")

    def e_ListComp(self, e, env):
        from . import loops
        return loops.comprehension(self, e, env, "list")

    def e_GeneratorExp(self, e, env):
        from . import loops
        return loops.comprehension(self, e, env, "list")

    def e_SetComp(self, e, env):
        from . import loops
        return loops.comprehension(self, e, env, "set")

    def e_DictComp(self, e, env):
        from . import loops
        return loops.comprehension(self, e, env, "dict")

    # ------------------------------------------------------------------ attribute / item protocol
    def getattr(self, obj, name):
        from . import models
        return models.get_attr(self, obj, name)

    def setattr(self, obj, name, v):
        from . import models
        return models.set_attr(self, obj, name, v)

    def getitem(self, obj, idx):
        from . import models
        return models.get_item(self, obj, idx)

    def setitem(self, obj, idx, v):
        from . import models
        return models.set_item(self, obj, idx, v)

    # ------------------------------------------------------------------ spec evaluation
    def spec_eval(self, src: str, env, extra=None):
        """evaluate a contract clause (Python expression text) to a z3 Bool / value, no forking"""
        node = self.ctx.parse_clause(src)
        e = Env(parent=env, globals=env.globals if env else {})
        e.vars.update(self.ctx.spec_names)
        e.vars["__interp__"] = self
        if extra:
            e.vars.update(extra)
        self.spec_mode += 1
        try:
            return self.eval(node, e)
        finally:
            self.spec_mode -= 1


import functools
functools_partial = functools.partial


def _function_env(env):
    """innermost environment that belongs to a function frame (comprehension scopes are nested in it)"""
    return env


def _all_plain(args, kwargs):
    for a in list(args) + list(kwargs.values()):
        if a is None or isinstance(a, (str, int, float, bool, enum.Enum)):
            continue
        return False
    return True


def _plain_repr(a):
    if isinstance(a, Sym):
        return repr(a)
    return a


def _short(t, n=400):
    s = str(t).replace("\n", " ")
    return s if len(s) <= n else s[:n] + "..."


def _short_model(m, n=600):
    try:
        items = []
        for d in m.decls():
            if d.arity() == 0:
                items.append(f"{d.name()}={m[d]}")
        s = ", ".join(sorted(items))
    except Exception:
        s = str(m)
    return s if len(s) <= n else s[:n] + "..."
