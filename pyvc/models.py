"""Models of Python built-ins, containers and string operations on symbolic values."""
from __future__ import annotations
import ast, builtins, inspect, types, enum, operator, re
import z3
from .sym import (Sym, SInt, SReal, SBool, SStr, SList, FList, SObj, SRange, SDict, Lit, Hole, Unsupported,
                  SymMisuse, is_sym, mkstr, subst_value, IntCodec, as_segs, SymProto)
from .ops import truth_term, term_of, wrap_term, sbool_and, sbool_or, sbool_not, str_eq
from . import ops

BUILTIN_MODELS: dict = {}


def model(*fns):
    def deco(f):
        for fn in fns:
            BUILTIN_MODELS[id(fn)] = f
        return f
    return deco


# ------------------------------------------------------------------ no-op calls
_NOOP_NAMES = {"print"}
_NOOP_ATTR_OWNERS = {"logging", "logger"}


def is_noop_call(interp, e: ast.Call, env) -> bool:
    f = e.func
    if isinstance(f, ast.Name) and f.id in _NOOP_NAMES:
        return True
    if isinstance(f, ast.Attribute) and isinstance(f.value, ast.Name) and f.value.id in _NOOP_ATTR_OWNERS:
        return True
    return False


# ------------------------------------------------------------------ strings
def concat(interp, parts):
    segs = []
    for p in parts:
        if isinstance(p, str):
            segs.append(Lit(p))
        elif isinstance(p, SStr):
            segs.extend(p.segs)
        else:
            raise Unsupported(f"string concatenation with {type(p).__name__}")
    return mkstr(segs)


def int_to_str(interp, v: SInt):
    if interp.branch(v.t < 0):
        return SStr([Lit("-"), Hole("nat", z3.simplify(-v.t))])
    return SStr([Hole("nat", v.t)])


def float_to_str(interp, v: SReal):
    """repr() of a finite float; the sign is resolved by forking"""
    if interp.branch(v.t < 0):
        return SStr([Lit("-"), Hole("ufloat", z3.simplify(-v.t))])
    return SStr([Hole("ufloat", v.t)])


def to_str(interp, v):
    if isinstance(v, (str, SStr)):
        return v
    if isinstance(v, SInt):
        return int_to_str(interp, v)
    if isinstance(v, SReal):
        return float_to_str(interp, v)
    if isinstance(v, SBool):
        return "True" if interp.truth(v) else "False"
    if isinstance(v, Sym):
        raise Unsupported(f"str() of {type(v).__name__}")
    fmt = _static(type(v), "__str__")
    if isinstance(fmt, types.FunctionType) and interp.ctx.interpret_module(fmt.__module__ or ""):
        return interp.call_function(fmt, [v], {})
    return str(v)


def format_value(interp, v, spec):
    if isinstance(v, SStr) or isinstance(v, str):
        if spec == "":
            return v
        if isinstance(v, str):
            return format(v, spec)
        return pad_format(interp, v, spec)
    if isinstance(v, (SInt, SReal, SBool)):
        if spec == "":
            return to_str(interp, v)
        return interp.ctx.format_numeric(interp, v, spec)
    if isinstance(v, SObj):
        return interp.ctx.obj_format(interp, v, spec)
    if isinstance(v, Sym):
        raise Unsupported(f"format of {type(v).__name__}")
    fmt = _static(type(v), "__format__")
    if isinstance(fmt, types.FunctionType) and interp.ctx.interpret_module(fmt.__module__ or ""):
        return interp.call_function(fmt, [v, spec], {})
    try:
        return format(v, spec)
    except Exception as e:
        from .interp import PyRaise
        raise PyRaise(e)


def pad_format(interp, v: SStr, spec: str):
    m = re.fullmatch(r"([<>^]?)(\d+)", spec)
    if not m:
        raise Unsupported(f"format spec {spec!r} on symbolic string")
    return interp.ctx.pad_string(interp, v, m.group(1) or "<", int(m.group(2)))


def replace(interp, s, old, new):
    """str.replace on a structured string, exact or fail-closed"""
    if not isinstance(old, str) or not isinstance(new, str) or not old:
        raise Unsupported("replace with symbolic pattern")
    if isinstance(s, str):
        return s.replace(old, new)
    r = interp.ctx.str_replace(interp, s, old, new)
    if r is not None:
        return r
    segs = list(s.segs)
    # an occurrence of `old` must lie inside literal text: show that it cannot touch any hole
    for i, seg in enumerate(segs):
        if isinstance(seg, Hole):
            if hole_may_contain(seg, old):
                raise Unsupported(f"replace({old!r}) may match inside {seg!r}")
            left = segs[i - 1].text if i > 0 and isinstance(segs[i - 1], Lit) else ""
            right = segs[i + 1].text if i + 1 < len(segs) and isinstance(segs[i + 1], Lit) else ""
            prev_hole = i > 0 and isinstance(segs[i - 1], Hole)
            if straddle_possible(seg, old, left, right, prev_hole):
                raise Unsupported(f"replace({old!r}) may straddle the boundary of {seg!r}")
    out = []
    for seg in segs:
        if isinstance(seg, Lit):
            out.append(Lit(seg.text.replace(old, new)))
        else:
            out.append(seg)
    # replacements can create new adjacency only inside literals (already handled by str.replace semantics:
    # python scans left to right once; literal chunks are separated by holes that cannot take part)
    return mkstr(out)


_SIGNS = set("+-")


def hole_chars(h: Hole):
    """(set of chars that may occur anywhere, first-char set, last-char set) or None=unknown"""
    digits = set("0123456789")
    if h.kind == "nat":
        return digits, digits, digits
    if h.kind == "ufloat":
        return digits | set(".e+-infa"), digits | set("in"), digits | set("fn")
    if h.kind == "ident":
        w = set("abcdefghijklmnopqrstuvwxyzABCDEFGHIJKLMNOPQRSTUVWXYZ0123456789_")
        return w, w, w
    if h.kind == "word" and h.extra and "chars" in h.extra:
        c = set(h.extra["chars"])
        return c, c, c
    return None


def hole_may_contain(h: Hole, pat: str) -> bool:
    if isinstance(h.extra, dict) and pat in h.extra.get("lacks", ()):
        return False      # requires (well-formedness of the field): the substring does not occur
    hc = hole_chars(h)
    if hc is None:
        return True
    allc, _, _ = hc
    if not all(c in allc for c in pat):
        return False
    if h.kind == "ufloat":
        # repr of a finite non-negative float: digits [. digits] [e (+|-) digits]; "inf"/"nan" excluded by
        # precondition.  A sign is always preceded by 'e' and followed by a digit.
        return bool(re.fullmatch(r"[0-9.]*|[0-9]*e?[+-]?[0-9]*|\.?[0-9]*", pat)) and not (len(pat) >= 2 and all(c in "+-" for c in pat))
    return True


def straddle_possible(h: Hole, pat: str, left: str, right: str, prev_hole: bool) -> bool:
    if isinstance(h.extra, dict) and pat in h.extra.get("lacks", ()) and not left and not right and not prev_hole:
        return False
    hc = hole_chars(h)
    if hc is None:
        # unknown alphabet: an occurrence that is not wholly inside the hole must start in the literal text before it or
        # end in the literal text after it (an adjacent hole is handled conservatively)
        if prev_hole:
            return True
        return any(left.endswith(pat[:k]) or right.startswith(pat[k:]) for k in range(1, len(pat)))
    _, first, last = hc
    n = len(pat)
    # occurrence covering the end of `left` and the start of the hole
    for k in range(1, n):
        # k chars from left, n-k from the hole start (at least its first char)
        if left.endswith(pat[:k]) or (prev_hole and True):
            if pat[k] in first and (left.endswith(pat[:k])):
                if all(c in hc[0] for c in pat[k:]):
                    return True
        if right.startswith(pat[k:]) and pat[k - 1] in last and all(c in hc[0] for c in pat[:k]):
            return True
    return False


def split(interp, s, sep=None, maxsplit=-1):
    if isinstance(s, str):
        return s.split(sep, maxsplit)
    return interp.ctx.split_string(interp, s, sep, maxsplit)


def strip(interp, s, chars=None):
    if isinstance(s, str):
        return s.strip(chars)
    return interp.ctx.strip_string(interp, s, chars)


def join(interp, sep, items):
    items = interp.iterate_concrete(items)
    parts = []
    for i, it in enumerate(items):
        if i:
            parts.append(sep)
        if not isinstance(it, (str, SStr)):
            from .interp import PyRaise
            raise PyRaise(TypeError("sequence item: expected str instance"))
        parts.append(it)
    return concat(interp, parts)


STR_METHODS = {}


def call_sym_method(interp, recv, name, args, kwargs):
    if isinstance(recv, SymProto):
        return recv._vf("vf_method")(interp, name, args, kwargs)
    if isinstance(recv, (SStr, str)):
        if name == "join":
            return join(interp, recv, args[0])
        if name == "replace":
            return replace(interp, recv, *args)
        if name == "split":
            return split(interp, recv, *args, **kwargs)
        if name == "strip":
            return strip(interp, recv, *args)
        if name in ("rstrip", "lstrip") and isinstance(recv, SStr):
            return interp.ctx.strip_side(interp, recv, name, args[0] if args else None)
        if name == "format":
            return str_format(interp, recv, args, kwargs)
        if name in ("startswith", "endswith"):
            return interp.ctx.str_affix(interp, recv, name, args[0])
        if name in ("upper", "lower"):
            return interp.ctx.str_case(interp, recv, name)
        if name == "isdigit":
            return interp.ctx.str_isdigit(interp, recv)
        if name == "count":
            return interp.ctx.str_count(interp, recv, args[0])
        if isinstance(recv, str) and not is_sym(args) and not is_sym(kwargs):
            return interp.native(getattr(recv, name), args, kwargs)
        raise Unsupported(f"str.{name} on symbolic string")
    if isinstance(recv, SList):
        return slist_method(interp, recv, name, args, kwargs)
    if isinstance(recv, FList):
        return flist_method(interp, recv, name, args, kwargs)
    if isinstance(recv, list):
        return list_method(interp, recv, name, args, kwargs)
    if isinstance(recv, SObj):
        return interp.ctx.obj_method(interp, recv, name, args, kwargs)
    if isinstance(recv, SDict):
        if name == "items":
            return recv
        raise Unsupported(f"dict.{name} on symbolic dict")
    if isinstance(recv, dict):
        return dict_method(interp, recv, name, args, kwargs)
    from . import setmodel
    if isinstance(recv, setmodel.SSet):
        return setmodel.sset_method(interp, recv, name, args, kwargs)
    raise Unsupported(f"method {name} on {type(recv).__name__}")


def str_format(interp, fmt, args, kwargs):
    if not isinstance(fmt, str):
        raise Unsupported("format on symbolic template")
    import string
    out = []
    auto = 0
    for lit, fname, spec, conv in string.Formatter().parse(fmt):
        if lit:
            out.append(lit)
        if fname is None:
            continue
        if fname == "":
            v = args[auto]
            auto += 1
        elif fname.isdigit():
            v = args[int(fname)]
        else:
            v = kwargs[fname]
        if conv:
            raise Unsupported("conversion in str.format")
        out.append(format_value(interp, v, spec or ""))
    return concat(interp, out)


# ------------------------------------------------------------------ lists
def list_method(interp, lst: list, name, args, kwargs):
    """concrete-length Python list that may hold symbolic elements"""
    if name in ("append", "extend", "insert", "pop", "clear", "reverse") and not (name == "pop" and args and isinstance(args[0], Sym)):
        if name == "extend":
            lst.extend(interp.iterate_concrete(args[0]))
            return None
        if name == "insert" and isinstance(args[0], Sym):
            raise Unsupported("insert at symbolic position")
        try:
            return getattr(lst, name)(*args)
        except Exception as e:
            from .interp import PyRaise
            raise PyRaise(e)
    if name == "copy":
        return list(lst)
    if name in ("remove", "index", "count"):
        if len(args) != 1 or kwargs:
            raise Unsupported(f"list.{name} with start/stop arguments")
        x = args[0]
        if name == "count":
            n = 0
            for el in lst:
                if interp.truth(interp.eq(el, x)):
                    n += 1
            return n
        for i, el in enumerate(lst):
            if interp.truth(interp.eq(el, x)):
                if name == "remove":
                    del lst[i]
                    return None
                return i
        from .interp import PyRaise
        raise PyRaise(ValueError(f"list.{name}(x): x not in list"))
    if name == "sort":
        if is_sym(lst):
            raise Unsupported("sort of list with symbolic elements")
        return interp.native(lst.sort, args, kwargs)
    raise Unsupported(f"list.{name}")


def dict_method(interp, d: dict, name, args, kwargs):
    if name in ("items", "keys", "values", "copy", "clear"):
        return getattr(d, name)()
    if name == "get" and args and isinstance(args[0], (SInt, SReal)) and all(isinstance(k, (int, float)) for k in d):
        # concrete table, symbolic numeric key: fork over the keys
        for k in d:
            if interp.truth(args[0] == k):
                return d[k]
        return args[1] if len(args) > 1 else None
    if name == "get" and args and isinstance(args[0], SStr) and all(isinstance(k, str) for k in d):
        # concrete table with string keys, structured-string key: the structured equality decides each comparison (or fails closed)
        for k in d:
            if interp.truth(equals(interp, args[0], k)):
                return d[k]
        return args[1] if len(args) > 1 else None
    if name in ("get", "pop", "setdefault", "update"):
        if args and isinstance(args[0], Sym):
            raise Unsupported(f"dict.{name} with symbolic key")
        try:
            return getattr(d, name)(*args, **kwargs)
        except Exception as e:
            from .interp import PyRaise
            raise PyRaise(e)
    raise Unsupported(f"dict.{name}")


def slist_get(interp, lst: SList, idx_term, check=True, name="index-in-bounds"):
    if check and not interp.spec_mode:
        interp.prove(z3.And(idx_term >= 0, idx_term < lst.length), "py/" + name, detail=f"{lst!r}[{idx_term}]")
    return lst.codec.dec(interp, tuple(z3.simplify(z3.Select(a, idx_term)) for a in lst.arrays))


def slist_method(interp, lst: SList, name, args, kwargs):
    if kwargs or len(args) > 1:
        raise Unsupported(f"list.{name} with these arguments on a symbolic list")
    if name == "append":
        terms = _encode(interp, lst.codec, args[0])
        lst.arrays = tuple(z3.Store(a, lst.length, t) for a, t in zip(lst.arrays, terms))
        lst.length = z3.simplify(lst.length + 1)
        return None
    if name == "copy":
        return lst.copy()
    if name == "index":
        return interp.ctx.slist_index(interp, lst, args[0])
    if name == "pop":
        # list.pop(k) / pop(): a negative k counts from the end, out of range raises IndexError; the elements after k move down
        from .interp import PyRaise
        n = lst.length
        if args:
            k0 = args[0].t if isinstance(args[0], SInt) else (z3.IntVal(args[0]) if isinstance(args[0], int) and not isinstance(args[0], bool) else None)
            if k0 is None:
                raise Unsupported("list.pop with a non-integer index")
        else:
            k0 = n - 1
        if interp.branch(k0 < 0):
            k = z3.simplify(k0 + n)
        else:
            k = k0
        if not interp.branch(z3.And(k >= 0, k < n)):
            raise PyRaise(IndexError("pop index out of range"))
        val = slist_get(interp, lst, k, check=False)
        j = z3.Int("j_pop")
        lst.arrays = tuple(z3.Lambda([j], z3.If(j < k, z3.Select(a, j), z3.Select(a, j + 1))) for a in lst.arrays)
        lst.length = z3.simplify(n - 1)
        return val
    raise Unsupported(f"list.{name} on symbolic list")


def _encode(interp, codec, v):
    from .cfrag import CTypeError
    from .sym import EmitError
    try:
        return codec.enc(interp, v)
    except CTypeError as e:
        raise EmitError(f"{v!r}: {e}")


def flist_get(interp, lst: FList, idx):
    it = idx.t if isinstance(idx, SInt) else z3.IntVal(idx)
    if not interp.spec_mode:
        interp.prove(z3.And(it >= 0, it < lst.length), "py/index-in-bounds", detail=f"{lst!r}[{it}]")
    for (ui, uv) in reversed(lst.overlay):
        if interp.spec_mode:
            raise Unsupported("overlay list read in specification")
        if interp.branch(it == ui):
            return uv
    return subst_value(lst.template, lst.ivar, it)


def flist_method(interp, lst: FList, name, args, kwargs):
    if name == "append":
        lst.overlay.append((lst.length, args[0]))
        lst.length = z3.simplify(lst.length + 1)
        return None
    if name == "copy":
        return lst.copy()
    if name == "index":
        return interp.ctx.flist_index(interp, lst, args[0])
    raise Unsupported(f"list.{name} on functional symbolic list")


def get_item(interp, obj, idx):
    from .interp import PyRaise
    if isinstance(obj, SymProto):
        return obj._vf("vf_getitem")(interp, idx)
    if isinstance(obj, SList):
        if isinstance(idx, slice):
            raise Unsupported("slice of symbolic list")
        it = idx.t if isinstance(idx, SInt) else z3.IntVal(idx)
        return slist_get(interp, obj, it)
    if isinstance(obj, FList):
        if isinstance(idx, slice):
            raise Unsupported("slice of symbolic list")
        return flist_get(interp, obj, idx)
    if isinstance(obj, SStr):
        return interp.ctx.str_index(interp, obj, idx)
    if isinstance(obj, SObj):
        return interp.ctx.obj_getitem(interp, obj, idx)
    if isinstance(idx, Sym) or (isinstance(idx, slice) and is_sym((idx.start, idx.stop, idx.step))):
        if isinstance(obj, (list, tuple)) and isinstance(idx, SInt):
            # concrete container, symbolic index: fork over positions
            n = len(obj)
            interp.prove(z3.And(idx.t >= 0, idx.t < n), "py/index-in-bounds")
            for k in range(n):
                if interp.branch(idx.t == k):
                    return obj[k]
            from .interp import PathEnd
            raise PathEnd("index out of range")
        if isinstance(obj, str):
            return interp.ctx.str_index(interp, obj, idx)
        raise Unsupported(f"symbolic index into {type(obj).__name__}")
    try:
        return obj[idx]
    except SymMisuse as e:
        raise Unsupported(str(e))
    except Exception as e:
        raise PyRaise(e)


def set_item(interp, obj, idx, v):
    from .interp import PyRaise
    if isinstance(obj, SymProto):
        return obj._vf("vf_setitem")(interp, idx, v)
    if isinstance(obj, SList):
        it = idx.t if isinstance(idx, SInt) else z3.IntVal(idx)
        interp.prove(z3.And(it >= 0, it < obj.length), "py/store-in-bounds", detail=f"{obj!r}[{it}] = ...")
        terms = _encode(interp, obj.codec, v)
        obj.arrays = tuple(z3.Store(a, it, t) for a, t in zip(obj.arrays, terms))
        return
    if isinstance(obj, FList):
        it = idx.t if isinstance(idx, SInt) else z3.IntVal(idx)
        interp.prove(z3.And(it >= 0, it < obj.length), "py/store-in-bounds")
        obj.overlay.append((it, v))
        return
    if isinstance(idx, Sym):
        if isinstance(obj, dict):
            raise Unsupported("dict store with symbolic key (declare the variable as a symbolic-key dict in the contract)")
        raise Unsupported("symbolic index store into concrete container")
    try:
        obj[idx] = v
    except Exception as e:
        raise PyRaise(e)


# ------------------------------------------------------------------ attributes
def _static(tp, name):
    for k in tp.__mro__:
        if name in k.__dict__:
            return k.__dict__[name]
    return None


def get_attr(interp, obj, name):
    from .interp import PyRaise
    if isinstance(obj, SObj):
        return interp.ctx.obj_getattr(interp, obj, name)
    if isinstance(obj, (SStr, SList, FList, SDict, SymProto)):
        return __import__("pyvc.interp", fromlist=["BoundSym"]).BoundSym(obj, name)
    from . import setmodel
    if isinstance(obj, setmodel.SSet):
        return __import__("pyvc.interp", fromlist=["BoundSym"]).BoundSym(obj, name)
    if isinstance(obj, Sym):
        raise Unsupported(f"attribute {name} of {type(obj).__name__}")
    if isinstance(obj, (str, list, dict)) and name in ("join", "replace", "split", "strip", "format", "append", "extend",
                                                        "remove", "index", "count", "copy", "insert", "pop", "startswith",
                                                        "endswith", "upper", "lower", "isdigit", "items", "keys", "values",
                                                        "get", "update", "sort", "clear", "setdefault", "reverse", "ljust", "rjust"):
        from .interp import BoundSym
        return BoundSym(obj, name)
    if isinstance(obj, (set,)):
        from .interp import BoundSym
        return BoundSym(setmodel.CSet(obj), name)
    tp = obj if isinstance(obj, type) else type(obj)
    if not isinstance(obj, (type, types.ModuleType)):
        inst = getattr(obj, "__dict__", None)
        if inst is not None and name in inst:
            return inst[name]
        st = _static(tp, name)
        if isinstance(st, property) and st.fget is not None and interp.ctx.interpret_module(getattr(st.fget, "__module__", "") or ""):
            c = interp.ctx.call_contracts.get(f"{st.fget.__module__}.{st.fget.__qualname__}")
            if c is not None:
                return c(interp, [obj], {})
            return interp.call_function(st.fget, [obj], {})
    try:
        return getattr(obj, name)
    except SymMisuse as e:
        raise Unsupported(str(e))
    except AttributeError as e:
        raise PyRaise(e)


def set_attr(interp, obj, name, v):
    if isinstance(obj, SObj):
        return interp.ctx.obj_setattr(interp, obj, name, v)
    if isinstance(obj, Sym):
        raise Unsupported("attribute store on symbolic value")
    if not isinstance(obj, type):
        st = _static(type(obj), name)
        if isinstance(st, property) and st.fset is not None and interp.ctx.interpret_module(getattr(st.fset, "__module__", "") or ""):
            return interp.call_function(st.fset, [obj, v], {})
    v = interp.ctx.on_setattr(interp, obj, name, v)
    setattr(obj, name, v)


# ------------------------------------------------------------------ equality, membership
def equals(interp, a, b):
    if isinstance(a, SymProto) and hasattr(a, "vf_eq"):
        return a.vf_eq(interp, b)
    if isinstance(b, SymProto) and hasattr(b, "vf_eq"):
        return b.vf_eq(interp, a)
    if isinstance(a, SObj) or isinstance(b, SObj):
        return interp.ctx.obj_equals(interp, a, b)
    if isinstance(a, (SStr,)) or isinstance(b, (SStr,)):
        if isinstance(a, (str, SStr)) and isinstance(b, (str, SStr)):
            return str_eq(a, b)
        return False
    if isinstance(a, Sym) or isinstance(b, Sym):
        if isinstance(a, (SInt, SReal, SBool, int, float)) and isinstance(b, (SInt, SReal, SBool, int, float)):
            return a == b
        if a is None or b is None:
            return is_none(interp, b if a is None else a)
        if isinstance(a, (SInt, SReal, SBool)) or isinstance(b, (SInt, SReal, SBool)):
            return False   # number vs non-number
        raise Unsupported(f"== between {type(a).__name__} and {type(b).__name__}")
    if isinstance(a, (list, tuple)) and isinstance(b, (list, tuple)) and (is_sym(a) or is_sym(b)):
        if type(a) is not type(b) or len(a) != len(b):
            return False
        return sbool_and(*[equals(interp, x, y) for x, y in zip(a, b)])
    # real objects whose class defines __eq__ in interpreted code
    eqf = _static(type(a), "__eq__")
    if isinstance(eqf, types.FunctionType) and interp.ctx.interpret_module(eqf.__module__ or ""):
        c = interp.ctx.call_contracts.get(f"{eqf.__module__}.{eqf.__qualname__}")
        r = c(interp, [a, b], {}) if c else interp.call_function(eqf, [a, b], {})
        if r is NotImplemented:
            eqr = _static(type(b), "__eq__")
            if isinstance(eqr, types.FunctionType) and interp.ctx.interpret_module(eqr.__module__ or ""):
                r = interp.call_function(eqr, [b, a], {})
            if r is NotImplemented:
                r = a is b
        return r
    try:
        return a == b
    except SymMisuse as e:
        raise Unsupported(str(e))


def is_none(interp, v):
    if isinstance(v, SObj):
        return interp.ctx.obj_is_none(interp, v)
    return v is None


def contains(interp, container, x):
    from . import setmodel
    if isinstance(container, SymProto):
        return container._vf("vf_contains")(interp, x)
    if isinstance(container, setmodel.SSet):
        return setmodel.sset_contains(interp, container, x)
    if isinstance(container, (SList, FList)):
        return interp.ctx.slist_contains(interp, container, x)
    if isinstance(container, (list, tuple)):
        if interp.spec_mode:
            return sbool_or(*[equals(interp, el, x) for el in container])
        for el in container:
            if interp.truth(equals(interp, el, x)):
                return True
        return False
    if isinstance(container, (str, SStr)):
        return interp.ctx.str_contains(interp, container, x)
    if isinstance(container, Sym) or isinstance(x, Sym):
        if isinstance(container, (set, frozenset, dict)):
            if isinstance(x, SStr):
                for el in container:
                    if isinstance(el, str) and interp.truth(str_eq(x, el)):
                        return True
                return False
        raise Unsupported(f"`in` on {type(container).__name__}")
    cf = _static(type(container), "__contains__")
    if isinstance(cf, types.FunctionType) and interp.ctx.interpret_module(cf.__module__ or ""):
        return interp.call_function(cf, [container, x], {})
    if isinstance(container, (set, frozenset, dict)) and _needs_interp_hash(interp, x):
        return setmodel.cset_contains(interp, container, x)
    try:
        return x in container
    except SymMisuse as e:
        raise Unsupported(str(e))


def _needs_interp_hash(interp, x):
    return False


def sym_binop(interp, op, a, b):
    from . import setmodel
    if isinstance(a, (str, SStr)) and isinstance(b, (str, SStr)) and isinstance(op, ast.Add):
        return concat(interp, [a, b])
    if isinstance(op, ast.Mult) and isinstance(a, list) and isinstance(b, SInt):
        return interp.ctx.replicate(interp, a, b)
    if isinstance(op, ast.Mult) and isinstance(a, (SList, FList)) and isinstance(b, (SInt, int)):
        return interp.ctx.replicate(interp, a, b)
    if isinstance(op, ast.Add) and (isinstance(a, (SList, FList)) or isinstance(b, (SList, FList))):
        return interp.ctx.list_concat(interp, a, b)
    if isinstance(a, setmodel.SSet) or isinstance(b, setmodel.SSet):
        return setmodel.sset_binop(interp, op, a, b)
    if isinstance(op, ast.Mod) and isinstance(a, str) and is_sym(b):
        raise Unsupported("% formatting with symbolic args")
    if isinstance(op, ast.Pow) and (isinstance(a, Sym) or isinstance(b, Sym)):
        raise Unsupported("** on symbolic")
    return NotImplemented


def sym_compare(interp, op, a, b):
    return NotImplemented


# ------------------------------------------------------------------ builtins
@model(len)
def _len(interp, args, kwargs):
    (x,) = args
    if isinstance(x, SymProto):
        return x._vf("vf_len")(interp)
    if isinstance(x, (SList, FList)):
        return wrap_term(x.length)
    if isinstance(x, SRange):
        lo, hi = term_of(x.lo), term_of(x.hi)
        return wrap_term(z3.If(hi > lo, hi - lo, 0))
    if isinstance(x, SStr):
        return interp.ctx.str_len(interp, x)
    if isinstance(x, SDict):
        return wrap_term(x.length)
    from . import setmodel
    if isinstance(x, setmodel.SSet):
        raise Unsupported("len of symbolic set")
    if isinstance(x, Sym):
        raise Unsupported(f"len of {type(x).__name__}")
    return len(x)


@model(range)
def _range(interp, args, kwargs):
    if not is_sym(args):
        return range(*args)
    if len(args) == 1:
        return SRange(0, args[0])
    if len(args) == 2:
        return SRange(args[0], args[1])
    raise Unsupported("range with symbolic step")


class EnumView(Sym):
    def __init__(self, inner, start=0):
        self.inner, self.start = inner, start


class ZipView(Sym):
    def __init__(self, inners):
        self.inners = inners


@model(enumerate)
def _enumerate(interp, args, kwargs):
    start = kwargs.get("start", args[1] if len(args) > 1 else 0)
    return EnumView(args[0], start)


@model(zip)
def _zip(interp, args, kwargs):
    return ZipView(list(args))


try:
    from tqdm import tqdm as _tqdm

    @model(_tqdm)
    def _tqdm_model(interp, args, kwargs):
        return args[0]
except Exception:  # pragma: no cover
    pass


@model(isinstance)
def _isinstance(interp, args, kwargs):
    v, tp = args
    if isinstance(v, SObj):
        return interp.ctx.obj_isinstance(interp, v, tp)
    if isinstance(v, Sym):
        tps = tp if isinstance(tp, tuple) else (tp,)
        m = {SInt: int, SReal: float, SBool: bool, SStr: str, SList: list, FList: list, SDict: dict}
        py = m.get(type(v))
        from . import setmodel
        if isinstance(v, setmodel.SSet):
            py = set
        if py is None:
            raise Unsupported(f"isinstance of {type(v).__name__}")
        return any(issubclass(py, t) for t in tps if isinstance(t, type))
    return isinstance(v, tp)


@model(str)
def _str(interp, args, kwargs):
    if not args:
        return ""
    return to_str(interp, args[0])


@model(repr)
def _repr(interp, args, kwargs):
    if isinstance(args[0], Sym):
        return to_str(interp, args[0])
    return repr(args[0])


@model(int)
def _int(interp, args, kwargs):
    (x,) = args[:1]
    if isinstance(x, SInt):
        return x
    if isinstance(x, SBool):
        return wrap_term(z3.If(x.t, 1, 0))
    if isinstance(x, SReal):
        # truncation toward zero
        t = x.t
        return wrap_term(z3.If(t >= 0, z3.ToInt(t), -z3.ToInt(-t)))
    if isinstance(x, SStr):
        return interp.ctx.str_to_number(interp, x, "int")
    try:
        return int(*args)
    except Exception as e:
        from .interp import PyRaise
        raise PyRaise(e)


@model(float)
def _float(interp, args, kwargs):
    (x,) = args
    if isinstance(x, SReal):
        return x
    if isinstance(x, SInt):
        return SReal(z3.ToReal(x.t))
    if isinstance(x, SStr):
        return interp.ctx.str_to_number(interp, x, "float")
    try:
        return float(x)
    except Exception as e:
        from .interp import PyRaise
        raise PyRaise(e)


@model(bool)
def _bool(interp, args, kwargs):
    if not args:
        return False
    v = args[0]
    if isinstance(v, Sym):
        return wrap_term(truth_term(v))
    return bool(v)


@model(abs)
def _abs(interp, args, kwargs):
    return abs(args[0])


@model(max, min)
def _maxmin_dispatch(interp, args, kwargs):
    raise Unsupported("internal")  # replaced below


def _mk_maxmin(is_max):
    def f(interp, args, kwargs):
        items = list(args) if len(args) > 1 else interp.iterate_concrete(args[0])
        if kwargs:
            if is_sym(items):
                raise Unsupported("max/min with key on symbolic values")
            return (max if is_max else min)(items, **kwargs)
        if not is_sym(items):
            return (max if is_max else min)(items)
        acc = items[0]
        for x in items[1:]:
            c = (x > acc) if is_max else (x < acc)
            if isinstance(c, bool):
                acc = x if c else acc
            else:
                ta, tx = term_of(acc), term_of(x)
                if z3.is_int(ta) != z3.is_int(tx):
                    ta = z3.ToReal(ta) if z3.is_int(ta) else ta
                    tx = z3.ToReal(tx) if z3.is_int(tx) else tx
                acc = wrap_term(z3.If(c.t, tx, ta))
        return acc
    return f


BUILTIN_MODELS[id(max)] = _mk_maxmin(True)
BUILTIN_MODELS[id(min)] = _mk_maxmin(False)


@model(sum)
def _sum(interp, args, kwargs):
    items = interp.iterate_concrete(args[0])
    acc = args[1] if len(args) > 1 else 0
    for x in items:
        acc = acc + x
    return acc


@model(all)
def _all(interp, args, kwargs):
    x = args[0]
    if isinstance(x, (SList, FList)) or interp.spec_mode:
        return interp.ctx.quant_all(interp, x, True)
    for it in interp.iterate_concrete(x):
        if not interp.truth(it):
            return False
    return True


@model(any)
def _any(interp, args, kwargs):
    x = args[0]
    if isinstance(x, (SList, FList)) or interp.spec_mode:
        return interp.ctx.quant_all(interp, x, False)
    for it in interp.iterate_concrete(x):
        if interp.truth(it):
            return True
    return False


@model(list)
def _list(interp, args, kwargs):
    if not args:
        return []
    x = args[0]
    if isinstance(x, (SList, FList)):
        return x.copy()
    from . import setmodel
    if isinstance(x, setmodel.SSet):
        raise Unsupported("list(symbolic set)")
    return list(interp.iterate_concrete(x))


@model(tuple)
def _tuple(interp, args, kwargs):
    if not args:
        return ()
    return tuple(interp.iterate_concrete(args[0]))


@model(set)
def _set(interp, args, kwargs):
    from . import setmodel
    return setmodel.make_set(interp, args[0] if args else [])


@model(dict)
def _dict(interp, args, kwargs):
    if args and isinstance(args[0], Sym):
        raise Unsupported("dict(symbolic)")
    return dict(*args, **kwargs)


@model(sorted)
def _sorted(interp, args, kwargs):
    return interp.ctx.sorted_model(interp, args[0], kwargs)


@model(next)
def _next(interp, args, kwargs):
    it = args[0]
    if isinstance(it, _Iter):
        if it.pos < len(it.items):
            it.pos += 1
            return it.items[it.pos - 1]
        if len(args) > 1:
            return args[1]
        from .interp import PyRaise
        raise PyRaise(StopIteration())
    return interp.native(next, args, kwargs)


class _Iter:
    def __init__(self, items):
        self.items, self.pos = items, 0


@model(iter)
def _iter(interp, args, kwargs):
    return _Iter(interp.iterate_concrete(args[0]))


@model(getattr)
def _getattr(interp, args, kwargs):
    if len(args) == 3:
        from .interp import PyRaise
        try:
            return interp.getattr(args[0], args[1])
        except PyRaise as e:
            if isinstance(e.exc, AttributeError):
                return args[2]
            raise
    return interp.getattr(args[0], args[1])


@model(hash)
def _hash(interp, args, kwargs):
    (x,) = args
    if isinstance(x, Sym) or (isinstance(x, tuple) and is_sym(x)):
        from . import hashmodel
        return hashmodel.hash_of(interp, x)
    hf = _static(type(x), "__hash__")
    if isinstance(hf, types.FunctionType) and interp.ctx.interpret_module(hf.__module__ or ""):
        return interp.call_function(hf, [x], {})
    return hash(x)


@model(open)
def _open(interp, args, kwargs):
    hook = getattr(interp.ctx, "open_file", None)
    if hook is not None:
        return hook(interp, args, kwargs)
    if is_sym(args) or is_sym(kwargs):
        raise Unsupported("open() of a symbolic path")
    return interp.native(open, args, kwargs)


@model(type)
def _type(interp, args, kwargs):
    if len(args) == 1 and isinstance(args[0], Sym):
        raise Unsupported("type() of symbolic value")
    return type(*args)

from . import hashmodel  # noqa: E402  (registers the Counter / frozenset / hash models)
