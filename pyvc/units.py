"""Registry of verification units (functions / regions / lemma groups under contract)."""
from __future__ import annotations
import hashlib, importlib, inspect
from dataclasses import dataclass, field


@dataclass
class Unit:
    name: str
    module: str                   # contracts module that defines it
    make_ctx: object              # callable(props) -> VerifContext
    entry: object                 # callable(interp)
    functions: list = field(default_factory=list)   # real functions whose source is verified
    props: tuple = ()             # properties this unit serves
    note: str = ""
    max_paths: int = 20000
    timeout_ms: int = 0          # per-obligation z3 budget override (0: default)


_REG: dict = {}


def register(u: Unit):
    _REG[(u.module, u.name)] = u
    return u


def load(module, name) -> Unit:
    importlib.import_module(module)
    return _REG[(module, name)]


def all_units(module):
    importlib.import_module(module)
    return [u for (m, _), u in _REG.items() if m == module]


def source_info(fn):
    """file, line range and sha256 of the text that was verified (read from /repo's working tree)"""
    try:
        src, start = inspect.getsourcelines(fn)
        f = inspect.getsourcefile(fn)
        text = "".join(src)
        return {"function": f"{fn.__module__}.{fn.__qualname__}", "file": f, "lines": [start, start + len(src) - 1],
                "sha256": hashlib.sha256(text.encode()).hexdigest()}
    except Exception as e:  # pragma: no cover
        return {"function": getattr(fn, "__qualname__", str(fn)), "error": str(e)}
