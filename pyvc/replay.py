"""./vf replay <file>: re-run what a replay file describes against /repo's current tree.

native-witness     the bounded native oracle of the property is run again; exit 1 if a violation with the same
                   signature is found again (the failing input is printed), 0 otherwise
failed-obligation  the unit / obligation group is verified again; exit 1 if the named obligation is still not
                   discharged (solver output printed), 0 if it is proved now"""
from __future__ import annotations
import json, os, sys


def replay_file(path):
    from contracts import registry
    from . import runner, units
    doc = json.load(open(path))
    prop = doc["property"]
    spec = registry.PROPERTIES.get(prop)
    if spec is None:
        print(f"property {prop} not claimed")
        return 3
    tier = os.environ.get("VERIF_TIER", "quick")
    seed = int(os.environ.get("VERIF_SEED", "0") or 0)
    if doc.get("kind") == "native-witness" or (doc.get("kind") == "failed-obligation" and doc.get("native_witness")):
        if doc.get("kind") == "failed-obligation":
            doc = json.load(open(doc["native_witness"])) if os.path.exists(doc["native_witness"]) else doc
        sig = doc.get("witness", {}).get("signature")
        res = spec["oracle"](tier, seed)
        hits = [v for v in res.get("violations", []) if v.get("signature") == sig]
        if hits:
            print(f"REPRODUCED property={prop} signature={sig}")
            print(json.dumps(hits[0], indent=1, default=str)[:3000])
            return 1
        print(f"not reproduced: no violation with signature {sig} ({res.get('cases', 0)} cases run)")
        return 0
    full = doc.get("obligation", "")
    for (module, uname) in spec.get("units", []):
        if full.startswith(uname + "/"):
            unit = units.load(module, uname)
            res = runner.explore(unit, props=(prop,), max_paths=unit.max_paths)
            summ = runner.summarize(res.obligations)
            v = summ.get(full[len(uname) + 1:])
            if v is None:
                print(f"obligation {full} is not generated any more" + (f" (unit error: {res.error})" if res.error else ""))
                return 3 if res.error else 0
            print(f"obligation {full}: {v['status']} ({v['instances']} instances)")
            if v["status"] != "proved":
                print(v.get("detail", "")[:3000])
                print(v.get("model", "")[:2000])
                return 1
            return 0
    for fn in spec.get("extra", []):
        for it in fn(tier):
            if it["name"] == full:
                print(f"obligation {full}: {it['status']}")
                if it["status"] != "proved":
                    print(it.get("detail", "")[:3000])
                    return 1
                return 0
    print(f"obligation {full} not found in the current contract set")
    return 3
