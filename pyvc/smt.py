"""SMT layer: z3 API in-process, z3/cvc5 on SMT-LIB2 text as second opinion, timing/accounting."""
from __future__ import annotations
import os, subprocess, tempfile, time, shutil
import z3

Z3_TIMEOUT_MS = int(os.environ.get("VF_Z3_TIMEOUT_MS", "20000"))
CVC5_TIMEOUT_MS = int(os.environ.get("VF_CVC5_TIMEOUT_MS", "20000"))
FEAS_TIMEOUT_MS = int(os.environ.get("VF_FEAS_TIMEOUT_MS", "2000"))

STATS = {"queries": 0, "z3_time": 0.0, "cvc5_time": 0.0, "feas_queries": 0, "feas_time": 0.0,
         "by_backend": {}}


def _has_quant(e) -> bool:
    seen = set()
    stack = [e]
    while stack:
        x = stack.pop()
        if x.get_id() in seen:
            continue
        seen.add(x.get_id())
        if z3.is_quantifier(x):
            return True
        if z3.is_app(x):
            stack.extend(x.children())
    return False


class Feas:
    """Incremental feasibility checker over the quantifier-free part of a path condition
    (an over-approximation: dropping quantified assumptions can only make more paths feasible)."""

    def __init__(self):
        self.s = z3.Solver()
        self.s.set("timeout", FEAS_TIMEOUT_MS)

    def push_fact(self, f):
        if not _has_quant(f):
            self.s.add(f)

    def feasible(self, extra) -> bool:
        t0 = time.time()
        self.s.push()
        if not _has_quant(extra):
            self.s.add(extra)
        r = self.s.check()
        self.s.pop()
        STATS["feas_queries"] += 1
        STATS["feas_time"] += time.time() - t0
        return r != z3.unsat


def _to_smt2(assumptions, goal_neg) -> str:
    s = z3.Solver()
    for a in assumptions:
        s.add(a)
    s.add(goal_neg)
    return s.to_smt2()


def run_cvc5(smt2: str, timeout_ms: int = CVC5_TIMEOUT_MS, models: bool = False):
    exe = shutil.which("cvc5") or "/usr/bin/cvc5"
    if not os.path.exists(exe):
        return "unknown", "cvc5 not found"
    with tempfile.NamedTemporaryFile("w", suffix=".smt2", delete=False) as f:
        f.write("(set-logic ALL)\n" + smt2)
        path = f.name
    try:
        t0 = time.time()
        p = subprocess.run([exe, "--tlimit", str(timeout_ms), "--strings-exp", path], capture_output=True, text=True,
                           timeout=timeout_ms / 1000 + 5)
        STATS["cvc5_time"] += time.time() - t0
        out = (p.stdout or "").strip().splitlines()
        res = out[0].strip() if out else "unknown"
        if res not in ("sat", "unsat"):
            res = "unknown"
        return res, (p.stdout or "") + (p.stderr or "")
    except Exception as e:  # timeout or crash: undecided, never a verdict
        return "unknown", repr(e)
    finally:
        try:
            os.unlink(path)
        except OSError:
            pass


def check_valid(assumptions, claim, timeout_ms: int | None = None, use_cvc5: bool = True):
    """Is (/\\ assumptions) => claim valid?  returns (status, backend, seconds, model_or_None)
    status in {'proved','refuted','unknown'}.  'refuted' carries a z3 model of the negation."""
    timeout_ms = timeout_ms or Z3_TIMEOUT_MS
    STATS["queries"] += 1
    t0 = time.time()
    s = z3.Solver()
    s.set("timeout", timeout_ms)
    for a in assumptions:
        s.add(a)
    s.add(z3.Not(claim))
    r = s.check()
    dt = time.time() - t0
    STATS["z3_time"] += dt
    if r == z3.unsat:
        STATS["by_backend"]["z3"] = STATS["by_backend"].get("z3", 0) + 1
        return "proved", "z3", dt, None
    if r == z3.sat:
        return "refuted", "z3", dt, s.model()
    if use_cvc5:
        res, _ = run_cvc5(_to_smt2(assumptions, z3.Not(claim)))
        if res == "unsat":
            STATS["by_backend"]["cvc5"] = STATS["by_backend"].get("cvc5", 0) + 1
            return "proved", "cvc5", time.time() - t0, None
        if res == "sat":
            return "refuted", "cvc5", time.time() - t0, None
    return "unknown", "z3+cvc5" if use_cvc5 else "z3", time.time() - t0, None


def check_sat(assumptions, timeout_ms: int | None = None):
    """Cover / vacuity query: are the assumptions satisfiable? -> 'sat' | 'unsat' | 'unknown'"""
    s = z3.Solver()
    s.set("timeout", timeout_ms or Z3_TIMEOUT_MS)
    for a in assumptions:
        s.add(a)
    r = s.check()
    st = "sat" if r == z3.sat else "unsat" if r == z3.unsat else "unknown"
    return st, (s.model() if r == z3.sat else None)


# ---------------------------------------------------------------------------------------------
# goal-directed instantiation: skolemise a universally quantified goal, instantiate the universally
# quantified assumptions at the skolem constants and at contract-supplied index terms, and try the
# resulting ground problem first (sound: instances are consequences of the assumptions).
# ---------------------------------------------------------------------------------------------
import itertools

_sk_counter = [0]
_dump_n = [0]


def split_conj(f):
    out, stack = [], [f]
    while stack:
        x = stack.pop()
        if z3.is_and(x):
            stack.extend(x.children())
        else:
            out.append(x)
    return out


def skolemize_goal(goal):
    """strip leading universal quantifiers (and those under the consequent of implications)"""
    sks = []
    hyps = []
    while True:
        if z3.is_quantifier(goal) and goal.is_forall():
            vs = []
            for i in range(goal.num_vars()):
                _sk_counter[0] += 1
                vs.append(z3.Const(f"sk!{goal.var_name(i)}!{_sk_counter[0]}", goal.var_sort(i)))
            goal = z3.substitute_vars(goal.body(), *reversed(vs))
            sks.extend(vs)
            continue
        if z3.is_implies(goal):
            hyps.append(goal.arg(0))
            goal = goal.arg(1)
            continue
        break
    return sks, hyps, goal


def fun_names(fs):
    names = set()
    seen = set()
    stack = list(fs)
    while stack:
        x = stack.pop()
        if x.get_id() in seen:
            continue
        seen.add(x.get_id())
        if z3.is_quantifier(x):
            stack.append(x.body())
        elif z3.is_app(x):
            d = x.decl()
            if d.kind() == z3.Z3_OP_UNINTERPRETED and d.arity() > 0:
                names.add(d.name())
            stack.extend(x.children())
    return names


def _vars_of(t, acc=None):
    acc = set() if acc is None else acc
    stack = [t]
    seen = set()
    while stack:
        x = stack.pop()
        if x.get_id() in seen:
            continue
        seen.add(x.get_id())
        if z3.is_var(x):
            acc.add(z3.get_var_index(x))
        elif z3.is_app(x):
            stack.extend(x.children())
    return acc


def _split_flat(t, strides):
    """t == x*n + y for a stride n  ->  (x, y)"""
    if z3.is_app(t) and z3.is_add(t):
        parts = t.children()
        for k, c in enumerate(parts):
            if z3.is_mul(c) and c.num_args() == 2:
                a, b = c.arg(0), c.arg(1)
                for (x, n) in ((a, b), (b, a)):
                    if any(n.eq(sn) for sn in strides):
                        rest = [p for m, p in enumerate(parts) if m != k]
                        y = rest[0] if len(rest) == 1 else z3.Sum(rest)
                        return x, y
    return None


def _match(pat, g, bind, strides):
    if z3.is_var(pat):
        k = z3.get_var_index(pat)
        if k in bind:
            return bind[k].eq(g)
        if pat.sort() != g.sort():
            return False
        bind[k] = g
        return True
    if not _vars_of(pat):
        return pat.eq(g)
    fp, fg = _split_flat(pat, strides), _split_flat(g, strides)
    if fp is not None and fg is not None:
        return _match(fp[0], fg[0], bind, strides) and _match(fp[1], fg[1], bind, strides)
    if z3.is_app(pat) and z3.is_app(g) and pat.decl().eq(g.decl()) and pat.num_args() == g.num_args():
        saved = dict(bind)
        if all(_match(a, b, bind, strides) for a, b in zip(pat.children(), g.children())):
            return True
        bind.clear(); bind.update(saved)
        if pat.num_args() == 2 and (z3.is_add(pat) or z3.is_mul(pat)):
            if _match(pat.arg(0), g.arg(1), bind, strides) and _match(pat.arg(1), g.arg(0), bind, strides):
                return True
            bind.clear(); bind.update(saved)
    return False


def _array_base(a):
    while z3.is_app(a) and a.decl().kind() == z3.Z3_OP_STORE:
        a = a.arg(0)
    return a


def _ground_index(roots):
    selects, funcs = [], {}
    seen = set()
    stack = list(roots)
    while stack:
        x = stack.pop()
        if x.get_id() in seen or z3.is_quantifier(x):
            continue
        seen.add(x.get_id())
        if z3.is_app(x):
            if z3.is_select(x):
                selects.append((_array_base(x.arg(0)), x.arg(1)))
            elif x.decl().kind() == z3.Z3_OP_UNINTERPRETED and x.num_args() > 0:
                funcs.setdefault(x.decl().name(), []).append(x)
            stack.extend(x.children())
    return selects, funcs


def ematch(q, ground, strides, cap=40):
    """instances of the universally quantified fact q obtained by matching its select / function-application
    subterms that mention all bound variables against the ground terms of the goal"""
    nv = q.num_vars()
    body = q.body()
    allv = set(range(nv))
    pats = []
    seen = set()
    stack = [body]
    while stack:
        x = stack.pop()
        if x.get_id() in seen or not z3.is_app(x):
            continue
        seen.add(x.get_id())
        if (z3.is_select(x) or (x.decl().kind() == z3.Z3_OP_UNINTERPRETED and x.num_args() > 0)) and _vars_of(x) == allv:
            pats.append(x)
            continue     # maximal patterns only
        stack.extend(x.children())
    if not pats:
        return None
    selects, funcs = ground
    binds = []
    for p in pats:
        if z3.is_select(p):
            arr = p.arg(0)
            if _vars_of(arr):
                continue
            base = _array_base(arr)
            for (gb, gi) in selects:
                if gb.eq(base):
                    b = {}
                    if _match(p.arg(1), gi, b, strides) and len(b) == nv:
                        binds.append(b)
        else:
            for g in funcs.get(p.decl().name(), []):
                b = {}
                if _match(p, g, b, strides) and len(b) == nv:
                    binds.append(b)
    out, keys = [], set()
    for b in binds:
        key = tuple(b[k].get_id() for k in range(nv))
        if key in keys:
            continue
        keys.add(key)
        vals = [b[nv - 1 - pos] for pos in range(nv)]       # declaration order
        out.append(z3.substitute_vars(body, *reversed(vals)))
        if len(out) >= cap:
            break
    return out


def instantiate(qf, terms, cap=200):
    nv = qf.num_vars()
    sorts = [qf.var_sort(i) for i in range(nv)]
    pools = [[t for t in terms if t.sort() == srt] for srt in sorts]
    if any(not p for p in pools):
        return []
    out = []
    for combo in itertools.islice(itertools.product(*pools), cap):
        out.append(z3.substitute_vars(qf.body(), *reversed(combo)))
    return out


class Defs:
    """recursively defined spec functions: name -> (decl, arity-lambda giving the right-hand side, recursive?)"""

    def __init__(self):
        self.d = {}

    def define(self, decl, rhs, recursive=False):
        self.d[decl.name()] = (decl, rhs, recursive)

    def axioms(self):
        out = []
        for name, (decl, rhs, rec) in self.d.items():
            vs = [z3.Const(f"a{i}", decl.domain(i)) for i in range(decl.arity())]
            app = decl(*vs)
            out.append(z3.ForAll(vs, app == rhs(*vs), patterns=[app]))
        return out


def _apps_of(fs, names):
    out = {}
    seen = set()
    stack = list(fs)
    while stack:
        x = stack.pop()
        if x.get_id() in seen:
            continue
        seen.add(x.get_id())
        if z3.is_quantifier(x):
            continue
        if z3.is_app(x):
            if x.decl().kind() == z3.Z3_OP_UNINTERPRETED and x.decl().name() in names and x.num_args() > 0:
                out[x.get_id()] = x
            stack.extend(x.children())
    return list(out.values())


def unfold(defs: Defs, roots, rounds=3):
    """ground definitional instances for the defined-function applications occurring in `roots`
    (recursive definitions are unfolded for the roots only, non-recursive ones for `rounds` levels)"""
    if defs is None or not defs.d:
        return []
    names = set(defs.d)
    done = set()
    insts = []
    frontier = _apps_of(roots, names)
    for rnd in range(rounds):
        new = []
        for app in frontier:
            if app.get_id() in done:
                continue
            decl, rhs, rec = defs.d[app.decl().name()]
            if rec and rnd > 0:
                continue
            done.add(app.get_id())
            inst = app == rhs(*app.children())
            insts.append(inst)
            new.append(inst)
        frontier = _apps_of(new, names)
        if not frontier:
            break
    return insts


def path_equalities(facts):
    """(term, constant) pairs from facts of the shape  f(..) == numeral  /  c == numeral"""
    subs = []
    for f in facts:
        if z3.is_eq(f):
            a, b = f.arg(0), f.arg(1)
            for x, y in ((a, b), (b, a)):
                if (z3.is_int_value(y) or z3.is_rational_value(y) or z3.is_true(y) or z3.is_false(y)) and z3.is_app(x) \
                        and not (z3.is_int_value(x) or z3.is_rational_value(x)) and x.decl().kind() == z3.Z3_OP_UNINTERPRETED:
                    subs.append((x, y))
                    break
    return subs


# ---------------------------------------------------------------------------------------------
# manual linearisation of products with a designated positive "stride" constant n (row * n + col index
# arithmetic).  x*n is abstracted to an uninterpreted MULN(x); for every pair of abstracted arguments the
# true facts  a<c => MULN(a)+n <= MULN(c),  c==a+1 => MULN(c)==MULN(a)+n,  a>=0 => MULN(a)>=0  are added.
# Every real model is a model of the abstraction, so `unsat` of the abstraction proves the original.
# ---------------------------------------------------------------------------------------------

_ABS_CACHE: dict = {}


def abstract_products(fs, strides, store=None):
    """store: per-path dict kept by the caller (entries hold references to the keyed ASTs, so ids stay unique)"""
    if not strides:
        return list(fs), []
    if store is None:
        store = {}
    skey = tuple(n.get_id() for n in strides)
    cache, allapps, _keep = store.setdefault(skey, ({}, {}, list(strides)))
    apps = {}   # (stride idx, arg id) -> (MULN app, arg)
    muln = [z3.Function(f"MULN{k}", z3.IntSort(), z3.IntSort()) for k in range(len(strides))]

    def rec(x):
        k = x.get_id()
        hit = cache.get(k)
        if hit is not None:
            return hit[1], hit[2]
        if z3.is_quantifier(x) or z3.is_var(x) or not z3.is_app(x) or x.num_args() == 0:
            cache[k] = (x, x, frozenset())
            return x, frozenset()
        pairs = [rec(c) for c in x.children()]
        ch = [p[0] for p in pairs]
        used = frozenset().union(*[p[1] for p in pairs]) if pairs else frozenset()
        out = None
        if z3.is_mul(x) and z3.is_int(x):
            for si, n in enumerate(strides):
                hits = [i for i, c in enumerate(ch) if c.eq(n)]
                if hits:
                    rest = [c for i, c in enumerate(ch) if i != hits[0]]
                    if len(rest) != 1:
                        break
                    arg = rest[0]
                    app = muln[si](arg)
                    key = (si, arg.get_id())
                    allapps[key] = (app, arg)
                    used = used | {key}
                    out = app
                    break
        if out is None:
            try:
                out = x.decl()(*ch) if any(not a.eq(b) for a, b in zip(ch, x.children())) else x
            except Exception:
                out = x
        cache[k] = (x, out, used)
        return out, used

    new = []
    for f in fs:
        o, u = rec(f)
        new.append(o)
        for key in u:
            apps[key] = allapps[key]
    facts = []
    items = list(apps.items())
    for (si, _), (app, arg) in items:
        n = strides[si]
        facts.append(z3.Implies(arg >= 0, app >= 0))
        facts.append(z3.Implies(arg >= 1, app >= n))
    for a in range(len(items)):
        for b in range(a + 1, len(items)):
            (sa, _), (appa, xa) = items[a]
            (sb, _), (appb, xb) = items[b]
            if sa != sb:
                continue
            n = strides[sa]
            facts.append(z3.Implies(xa < xb, appa + n <= appb))
            facts.append(z3.Implies(xb < xa, appb + n <= appa))
            facts.append(z3.Implies(xb == xa + 1, appb == appa + n))
            facts.append(z3.Implies(xa == xb + 1, appa == appb + n))
            facts.append(z3.Implies(xa == xb, appa == appb))
    return new, facts


def _solve(assumptions, goal, timeout_ms, mbqi):
    s = z3.Solver()
    s.set("timeout", timeout_ms)
    s.set("smt.mbqi", mbqi)
    for a in assumptions:
        s.add(a)
    s.add(z3.Not(goal))
    t0 = time.time()
    r = s.check()
    dt = time.time() - t0
    STATS["z3_time"] += dt
    return r, s, dt


def check_valid_inst(axioms, pc, claim, inst_terms=(), defined=(), timeout_ms=None, hint_fn=None, defs=None, strides=(),
                     store=None):
    """(axioms and pc) => claim.
    Stage 1 (ground): the goal is skolemised; definitions of the spec functions occurring in it are unfolded
    as ground instances; universally quantified path facts (loop invariants) are instantiated at the skolem
    constants; contract-supplied ground lemma instances are added; everything is rewritten with the path's
    `term == numeral` equalities.  All of these are consequences of the assumptions, so `unsat` is a proof.
    Stage 2: the same plus the quantified assumptions (E-matching, then MBQI), then cvc5."""
    t0 = time.time()
    timeout_ms = timeout_ms or Z3_TIMEOUT_MS
    STATS["queries"] += 1
    sks, hyps, goal = skolemize_goal(claim)
    facts = []
    for f in list(pc) + hyps:
        facts.extend(split_conj(f))
    # stage 0: equality of real-valued terms modulo the commutative-ring / field identities that need no search
    if z3.is_eq(goal) and goal.arg(0).sort() == z3.RealSort():
        from . import acnorm
        gfacts = [f for f in facts if not z3.is_quantifier(f)]

        def nonzero(t):
            r, _s, _dt = _solve(gfacts, t != 0, 3000, False)
            return r == z3.unsat
        try:
            if acnorm.prove_equal(goal.arg(0), goal.arg(1), nonzero):
                dt = time.time() - t0
                STATS["by_backend"]["ac-normalisation"] = STATS["by_backend"].get("ac-normalisation", 0) + 1
                return "proved", "ac-normalisation(+z3 divisor side conditions)", dt, None
        except z3.Z3Exception:
            pass
    ground = [f for f in facts if not z3.is_quantifier(f)]
    quants = [f for f in facts if z3.is_quantifier(f)]
    terms = list(sks)
    insts = []
    unf = unfold(defs, [goal])
    roots = [goal] + unf + ground[-40:]
    seen_inst = set()
    for rnd in range(2):
        gidx = _ground_index(roots)
        pool = list(terms)
        for (_b, gi) in gidx[0]:
            if z3.is_int(gi) and not z3.is_int_value(gi) and not any(gi.eq(t) for t in pool) and len(pool) < 8:
                pool.append(gi)
        new = []
        for q in quants:
            if q.is_forall():
                m = ematch(q, gidx, list(strides))
                if m is None:
                    m = instantiate(q, pool if rnd == 0 else terms, cap=64) if pool else []
                for x in m:
                    if x.get_id() not in seen_inst:
                        seen_inst.add(x.get_id())
                        new.append(x)
        insts.extend(new)
        if not new:
            break
        roots = new
    unf = unfold(defs, [goal] + insts)
    hints = list(hint_fn(sks, insts + unf, goal)) if hint_fn else []
    subs = path_equalities(ground)

    def rw(f):
        if not subs:
            return f
        return z3.simplify(z3.substitute(f, *subs))
    g1 = rw(goal)
    stage1 = ground + [rw(x) for x in insts + unf + hints]
    if strides:
        lin, lin_facts = abstract_products(stage1 + [g1], list(strides), store)
        stage1, g1 = lin[:-1] + lin_facts, lin[-1]
    if os.environ.get("VF_DUMP"):
        _dump_n[0] += 1
        with open(os.path.join(os.environ["VF_DUMP"], f"vc{_dump_n[0]}.smt2"), "w") as f:
            f.write(_to_smt2(stage1, z3.Not(g1)))
    r, s, dt = _solve(stage1, g1, timeout_ms, False)
    if r == z3.unsat:
        STATS["by_backend"]["z3-ground"] = STATS["by_backend"].get("z3-ground", 0) + 1
        return "proved", "z3-ground", time.time() - t0, None
    ground_model = s.model() if r == z3.sat else None
    # stage 2: keep the quantified assumptions
    used = fun_names(facts + [goal])
    rel_axioms, rest = [], list(axioms)
    changed = True
    while changed:
        changed = False
        for a in list(rest):
            if not defined or not z3.is_quantifier(a) or (fun_names([a]) & used & set(defined)):
                rel_axioms.append(a)
                rest.remove(a)
                used |= fun_names([a])
                changed = True
    assumptions = rel_axioms + facts + insts + unf + hints
    has_q = any(z3.is_quantifier(a) for a in assumptions)
    if not has_q:
        if r == z3.sat:
            return "refuted", "z3", time.time() - t0, ground_model
    # the ground weakening has a model: most likely a genuine counterexample; give the full problem a short budget
    t2 = min(timeout_ms, 4000) if r == z3.sat else timeout_ms
    for mbqi in (False, True):
        r2, s2, dt2 = _solve(assumptions, goal, t2, mbqi)
        if r2 == z3.unsat:
            be = "z3-mbqi" if mbqi else "z3"
            STATS["by_backend"][be] = STATS["by_backend"].get(be, 0) + 1
            return "proved", be, time.time() - t0, None
        if r2 == z3.sat:
            return "refuted", "z3", time.time() - t0, s2.model()
    res, _ = run_cvc5(_to_smt2(assumptions, z3.Not(goal)), timeout_ms=min(CVC5_TIMEOUT_MS, t2))
    if res == "unsat":
        STATS["by_backend"]["cvc5"] = STATS["by_backend"].get("cvc5", 0) + 1
        return "proved", "cvc5", time.time() - t0, None
    if ground_model is not None:
        # counter-model of the instantiated (ground) problem, full problem undecided: reported as failed, the
        # model is a candidate counterexample for native replay
        return "cex-ground", "z3-ground", time.time() - t0, ground_model
    return "unknown", "z3+cvc5", time.time() - t0, None
