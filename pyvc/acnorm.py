"""Stage 0 for equalities between real-valued terms: normalisation modulo the commutative-ring axioms that need no search.

norm(t) flattens products and quotients into  coefficient * (multiset of numerator atoms) / (multiset of denominator atoms),
cancels common atoms, folds numerals, sorts; sums are flattened, like terms are merged, sorted; arguments of uninterpreted
functions and ite branches are normalised recursively.  Every step is an identity of the real field PROVIDED each divisor that
occurs is non-zero; the divisors are collected and each atom of each divisor must be proved non-zero from the path condition by
the solver (linear queries) - otherwise the normaliser gives up and the obligation goes to the solvers unchanged.
`a == b` is proved when norm(a) and norm(b) are syntactically identical."""
from __future__ import annotations
from fractions import Fraction
import z3


class GiveUp(Exception):
    pass


def _num(t):
    if z3.is_rational_value(t):
        return Fraction(t.numerator_as_long(), t.denominator_as_long())
    if z3.is_int_value(t):
        return Fraction(t.as_long())
    return None


def _key(t):
    return t.sexpr()


class Normaliser:
    def __init__(self):
        self.divisor_atoms = {}     # key -> atom term that must be non-zero
        self.cache = {}

    # product form: (coef, {key: (atom, exponent)})
    def prod(self, t):
        n = _num(t)
        if n is not None:
            return n, {}
        k = t.decl().kind() if z3.is_app(t) else None
        if k == z3.Z3_OP_MUL:
            coef, fs = Fraction(1), {}
            for c in t.children():
                cc, cf = self.prod(c)
                coef *= cc
                self._merge(fs, cf, 1)
            return coef, fs
        if k == z3.Z3_OP_DIV:
            a, b = t.children()
            ca, fa = self.prod(a)
            cb, fb = self.prod(b)
            if cb == 0:
                raise GiveUp("division by the numeral 0")
            for key, (atom, e) in fb.items():
                self.divisor_atoms[key] = atom
            fs = dict(fa)
            self._merge(fs, fb, -1)
            return ca / cb, fs
        if k == z3.Z3_OP_UMINUS:
            c, f = self.prod(t.arg(0))
            return -c, f
        if k == z3.Z3_OP_TO_REAL:
            n = _num(t.arg(0))
            if n is not None:
                return n, {}
        a = self.atom(t)
        n = _num(a)
        if n is not None:
            return n, {}
        return Fraction(1), {_key(a): (a, 1)}

    @staticmethod
    def _merge(fs, other, sign):
        for key, (atom, e) in other.items():
            cur = fs.get(key)
            ne = (cur[1] if cur else 0) + sign * e
            if ne == 0:
                fs.pop(key, None)
            else:
                fs[key] = (atom, ne)

    def atom(self, t):
        """normal form of a term that is not a product at top level"""
        k = t.decl().kind() if z3.is_app(t) else None
        if k in (z3.Z3_OP_ADD, z3.Z3_OP_SUB):
            return self.sum(t)
        if k in (z3.Z3_OP_MUL, z3.Z3_OP_DIV, z3.Z3_OP_UMINUS):
            return self.build(*self.prod(t))
        if z3.is_app(t) and t.num_args() > 0 and not z3.is_quantifier(t):
            kids = [self.norm(c) for c in t.children()]
            if k in (z3.Z3_OP_ITE, z3.Z3_OP_UNINTERPRETED, z3.Z3_OP_TO_REAL, z3.Z3_OP_GT, z3.Z3_OP_GE, z3.Z3_OP_LT, z3.Z3_OP_LE,
                     z3.Z3_OP_EQ, z3.Z3_OP_NOT, z3.Z3_OP_AND, z3.Z3_OP_OR, z3.Z3_OP_DISTINCT, z3.Z3_OP_SELECT):
                return t.decl()(*kids)
            raise GiveUp(f"operator {t.decl().name()}")
        return t

    def sum(self, t):
        terms = {}
        order = []

        def add(x, sign):
            k = x.decl().kind() if z3.is_app(x) else None
            if k == z3.Z3_OP_ADD:
                for c in x.children():
                    add(c, sign)
                return
            if k == z3.Z3_OP_SUB:
                ch = x.children()
                add(ch[0], sign)
                for c in ch[1:]:
                    add(c, -sign)
                return
            coef, fs = self.prod(x)
            mono = self.build(Fraction(1), fs)
            key = _key(mono)
            if key not in terms:
                terms[key] = [mono, Fraction(0)]
                order.append(key)
            terms[key][1] += sign * coef
        add(t, 1)
        parts = []
        for key in sorted(terms):
            mono, coef = terms[key]
            if coef == 0:
                continue
            if _num(mono) is not None:
                parts.append(z3.RealVal(str(coef * _num(mono))))
            elif coef == 1:
                parts.append(mono)
            else:
                parts.append(z3.RealVal(str(coef)) * mono)
        if not parts:
            return z3.RealVal(0)
        if len(parts) == 1:
            return parts[0]
        return z3.Sum(parts)

    def build(self, coef, fs):
        if coef == 0:
            return z3.RealVal(0)
        nums, dens = [], []
        for key in sorted(fs):
            atom, e = fs[key]
            (nums if e > 0 else dens).extend([atom] * abs(e))
        out = None
        for a in nums:
            out = a if out is None else out * a
        if out is None:
            out = z3.RealVal(str(coef))
        elif coef != 1:
            out = z3.RealVal(str(coef)) * out
        if dens:
            d = None
            for a in dens:
                d = a if d is None else d * a
            out = out / d
        return out

    def norm(self, t):
        key = t.get_id()
        r = self.cache.get(key)
        if r is None:
            if t.sort() == z3.RealSort() or t.sort() == z3.IntSort():
                if z3.is_int(t) and not z3.is_int_value(t):
                    r = t if not (z3.is_app(t) and t.num_args()) else self.atom(t) if t.decl().kind() in (z3.Z3_OP_UNINTERPRETED, z3.Z3_OP_SELECT) else t
                else:
                    r = self.build(*self.prod(t)) if not (z3.is_app(t) and t.decl().kind() in (z3.Z3_OP_ADD, z3.Z3_OP_SUB)) else self.sum(t)
            else:
                r = self.atom(t)
            self.cache[key] = (t, r)
            return r
        return r[1]


def prove_equal(a, b, nonzero):
    """True if norm(a) is norm(b) and every divisor atom is non-zero (nonzero(term) -> bool decides that from the path)"""
    try:
        nz = Normaliser()
        na, nb = nz.norm(a), nz.norm(b)
    except GiveUp:
        return False
    if not na.eq(nb) and na.sexpr() != nb.sexpr():
        return False
    for atom in nz.divisor_atoms.values():
        if not nonzero(atom):
            return False
    return True


# ---------------------------------------------------------------------------------------------------------------------
# polynomial normal form (with distribution): a term is a sum of monomials  coef * prod atom^e  (e may be negative for atoms
# that occur as divisors).  Divisors must be single monomials after normalisation (otherwise the divisor as a whole becomes
# an atom with exponent -1).  Atoms are normalised recursively.  Same side conditions as above: every divisor atom non-zero.
class PolyNormaliser(Normaliser):
    MAX_TERMS = 20000

    def poly(self, t):
        """{monomial key: (coef, {atomkey: (atom, exp)})}"""
        n = _num(t)
        if n is not None:
            return {(): (n, {})} if n != 0 else {}
        k = t.decl().kind() if z3.is_app(t) else None
        if k == z3.Z3_OP_ADD:
            out = {}
            for c in t.children():
                self._padd(out, self.poly(c), 1)
            return out
        if k == z3.Z3_OP_SUB:
            ch = t.children()
            out = dict(self.poly(ch[0]))
            for c in ch[1:]:
                self._padd(out, self.poly(c), -1)
            return out
        if k == z3.Z3_OP_UMINUS:
            out = {}
            self._padd(out, self.poly(t.arg(0)), -1)
            return out
        if k == z3.Z3_OP_MUL:
            out = {(): (Fraction(1), {})}
            for c in t.children():
                out = self._pmul(out, self.poly(c))
            return out
        if k == z3.Z3_OP_DIV:
            a, b = self.poly(t.arg(0)), self.poly(t.arg(1))
            if not b:
                raise GiveUp("division by 0")
            if len(b) == 1:
                (coef, fs), = b.values()
                for key, (atom, e) in fs.items():
                    if e > 0:
                        self.divisor_atoms[key] = atom
                inv = {self._mkey({kk: (aa, -ee) for kk, (aa, ee) in fs.items()}): (1 / coef, {kk: (aa, -ee) for kk, (aa, ee) in fs.items()})}
                return self._pmul(a, inv)
            d = self.from_poly(b)
            self.divisor_atoms[_key(d)] = d
            return self._pmul(a, {self._mkey({_key(d): (d, -1)}): (Fraction(1), {_key(d): (d, -1)})})
        if k == z3.Z3_OP_TO_REAL and z3.is_app(t.arg(0)) and t.arg(0).decl().kind() in (z3.Z3_OP_MUL, z3.Z3_OP_ADD, z3.Z3_OP_SUB, z3.Z3_OP_UMINUS):
            # ToReal distributes over integer ring operations
            inner = t.arg(0)
            ik = inner.decl().kind()
            kids = [z3.ToReal(c) for c in inner.children()]
            if ik == z3.Z3_OP_MUL:
                out = {(): (Fraction(1), {})}
                for c in kids:
                    out = self._pmul(out, self.poly(c))
                return out
            if ik == z3.Z3_OP_ADD:
                out = {}
                for c in kids:
                    self._padd(out, self.poly(c), 1)
                return out
            if ik == z3.Z3_OP_SUB:
                out = dict(self.poly(kids[0]))
                for c in kids[1:]:
                    self._padd(out, self.poly(c), -1)
                return out
            out = {}
            self._padd(out, self.poly(kids[0]), -1)
            return out
        if k == z3.Z3_OP_TO_REAL:
            n = _num(t.arg(0))
            if n is not None:
                return {(): (n, {})} if n != 0 else {}
        if k == z3.Z3_OP_ITE:
            c = z3.simplify(t.arg(0))
            if z3.is_true(c):
                return self.poly(t.arg(1))
            if z3.is_false(c):
                return self.poly(t.arg(2))
        a = self.patom(t)
        n = _num(a)
        if n is not None:
            return {(): (n, {})} if n != 0 else {}
        fs = {_key(a): (a, 1)}
        return {self._mkey(fs): (Fraction(1), fs)}

    def patom(self, t):
        k = t.decl().kind() if z3.is_app(t) else None
        if z3.is_app(t) and t.num_args() > 0:
            if k == z3.Z3_OP_ITE:
                c = z3.simplify(t.arg(0))
                if z3.is_true(c):
                    return self.from_poly(self.poly(t.arg(1)))
                if z3.is_false(c):
                    return self.from_poly(self.poly(t.arg(2)))
            kids = []
            for c in t.children():
                kids.append(self.from_poly(self.poly(c)) if c.sort() == z3.RealSort() else c)
            return t.decl()(*kids)
        return t

    @staticmethod
    def _mkey(fs):
        return tuple(sorted((k, e) for k, (_, e) in fs.items()))

    def _padd(self, out, other, sign):
        for key, (coef, fs) in other.items():
            cur = out.get(key)
            c = (cur[0] if cur else 0) + sign * coef
            if c == 0:
                out.pop(key, None)
            else:
                out[key] = (c, fs)

    def _pmul(self, a, b):
        out = {}
        if len(a) * len(b) > self.MAX_TERMS:
            raise GiveUp("polynomial too large")
        for _, (ca, fa) in a.items():
            for _, (cb, fb) in b.items():
                fs = dict(fa)
                self._merge(fs, fb, 1)
                key = self._mkey(fs)
                cur = out.get(key)
                c = (cur[0] if cur else 0) + ca * cb
                if c == 0:
                    out.pop(key, None)
                else:
                    out[key] = (c, fs)
        return out

    def from_poly(self, p):
        if not p:
            return z3.RealVal(0)
        parts = []
        for key in sorted(p, key=repr):
            coef, fs = p[key]
            parts.append(self.build(coef, fs))
        return parts[0] if len(parts) == 1 else z3.Sum(parts)


def poly_equal(a, b, nonzero):
    """a == b as polynomials in their atoms (distribution allowed), divisor atoms proved non-zero by `nonzero`"""
    try:
        nz = PolyNormaliser()
        d = {}
        nz._padd(d, nz.poly(a), 1)
        nz._padd(d, nz.poly(b), -1)
    except GiveUp:
        return False
    if d:
        return False
    return all(nonzero(atom) for atom in nz.divisor_atoms.values())
