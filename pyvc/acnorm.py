"""Stage 0 for equalities between real-valued terms: normalisation modulo the commutative-ring axioms that need no search.

norm(t) flattens products and quotients into  coefficient * (multiset of numerator atoms) / (multiset of denominator atoms),
cancels common atoms, folds numerals, sorts; sums are flattened, like terms are merged, sorted; arguments of uninterpreted
functions and ite branches are normalised recursively.  Every step is an identity of the real field PROVIDED each divisor that
occurs is non-zero; the divisors are collected and each atom of each divisor must be proved non-zero from the path condition by
the solver (linear queries) - otherwise the normaliser gives up and the obligation goes to the solvers unchanged.
`a == b` is proved when norm(a) and norm(b) are syntactically identical."""
from __future__ import annotations
from fractions import Fraction
import z3


class GiveUp(Exception):
    pass


def _num(t):
    if z3.is_rational_value(t):
        return Fraction(t.numerator_as_long(), t.denominator_as_long())
    if z3.is_int_value(t):
        return Fraction(t.as_long())
    return None


def _key(t):
    return t.sexpr()


class Normaliser:
    def __init__(self):
        self.divisor_atoms = {}     # key -> atom term that must be non-zero
        self.cache = {}

    # product form: (coef, {key: (atom, exponent)})
    def prod(self, t):
        n = _num(t)
        if n is not None:
            return n, {}
        k = t.decl().kind() if z3.is_app(t) else None
        if k == z3.Z3_OP_MUL:
            coef, fs = Fraction(1), {}
            for c in t.children():
                cc, cf = self.prod(c)
                coef *= cc
                self._merge(fs, cf, 1)
            return coef, fs
        if k == z3.Z3_OP_DIV:
            a, b = t.children()
            ca, fa = self.prod(a)
            cb, fb = self.prod(b)
            if cb == 0:
                raise GiveUp("division by the numeral 0")
            for key, (atom, e) in fb.items():
                self.divisor_atoms[key] = atom
            fs = dict(fa)
            self._merge(fs, fb, -1)
            return ca / cb, fs
        if k == z3.Z3_OP_UMINUS:
            c, f = self.prod(t.arg(0))
            return -c, f
        if k == z3.Z3_OP_TO_REAL:
            n = _num(t.arg(0))
            if n is not None:
                return n, {}
        a = self.atom(t)
        n = _num(a)
        if n is not None:
            return n, {}
        return Fraction(1), {_key(a): (a, 1)}

    @staticmethod
    def _merge(fs, other, sign):
        for key, (atom, e) in other.items():
            cur = fs.get(key)
            ne = (cur[1] if cur else 0) + sign * e
            if ne == 0:
                fs.pop(key, None)
            else:
                fs[key] = (atom, ne)

    def atom(self, t):
        """normal form of a term that is not a product at top level"""
        k = t.decl().kind() if z3.is_app(t) else None
        if k in (z3.Z3_OP_ADD, z3.Z3_OP_SUB):
            return self.sum(t)
        if k in (z3.Z3_OP_MUL, z3.Z3_OP_DIV, z3.Z3_OP_UMINUS):
            return self.build(*self.prod(t))
        if z3.is_app(t) and t.num_args() > 0 and not z3.is_quantifier(t):
            kids = [self.norm(c) for c in t.children()]
            if k in (z3.Z3_OP_ITE, z3.Z3_OP_UNINTERPRETED, z3.Z3_OP_TO_REAL, z3.Z3_OP_GT, z3.Z3_OP_GE, z3.Z3_OP_LT, z3.Z3_OP_LE,
                     z3.Z3_OP_EQ, z3.Z3_OP_NOT, z3.Z3_OP_AND, z3.Z3_OP_OR, z3.Z3_OP_DISTINCT, z3.Z3_OP_SELECT):
                return t.decl()(*kids)
            raise GiveUp(f"operator {t.decl().name()}")
        return t

    def sum(self, t):
        terms = {}
        order = []

        def add(x, sign):
            k = x.decl().kind() if z3.is_app(x) else None
            if k == z3.Z3_OP_ADD:
                for c in x.children():
                    add(c, sign)
                return
            if k == z3.Z3_OP_SUB:
                ch = x.children()
                add(ch[0], sign)
                for c in ch[1:]:
                    add(c, -sign)
                return
            coef, fs = self.prod(x)
            mono = self.build(Fraction(1), fs)
            key = _key(mono)
            if key not in terms:
                terms[key] = [mono, Fraction(0)]
                order.append(key)
            terms[key][1] += sign * coef
        add(t, 1)
        parts = []
        for key in sorted(terms):
            mono, coef = terms[key]
            if coef == 0:
                continue
            if _num(mono) is not None:
                parts.append(z3.RealVal(str(coef * _num(mono))))
            elif coef == 1:
                parts.append(mono)
            else:
                parts.append(z3.RealVal(str(coef)) * mono)
        if not parts:
            return z3.RealVal(0)
        if len(parts) == 1:
            return parts[0]
        return z3.Sum(parts)

    def build(self, coef, fs):
        if coef == 0:
            return z3.RealVal(0)
        nums, dens = [], []
        for key in sorted(fs):
            atom, e = fs[key]
            (nums if e > 0 else dens).extend([atom] * abs(e))
        out = None
        for a in nums:
            out = a if out is None else out * a
        if out is None:
            out = z3.RealVal(str(coef))
        elif coef != 1:
            out = z3.RealVal(str(coef)) * out
        if dens:
            d = None
            for a in dens:
                d = a if d is None else d * a
            out = out / d
        return out

    def norm(self, t):
        key = t.get_id()
        r = self.cache.get(key)
        if r is None:
            if t.sort() == z3.RealSort() or t.sort() == z3.IntSort():
                if z3.is_int(t) and not z3.is_int_value(t):
                    r = t if not (z3.is_app(t) and t.num_args()) else self.atom(t) if t.decl().kind() in (z3.Z3_OP_UNINTERPRETED, z3.Z3_OP_SELECT) else t
                else:
                    r = self.build(*self.prod(t)) if not (z3.is_app(t) and t.decl().kind() in (z3.Z3_OP_ADD, z3.Z3_OP_SUB)) else self.sum(t)
            else:
                r = self.atom(t)
            self.cache[key] = (t, r)
            return r
        return r[1]


def prove_equal(a, b, nonzero):
    """True if norm(a) is norm(b) and every divisor atom is non-zero (nonzero(term) -> bool decides that from the path)"""
    try:
        nz = Normaliser()
        na, nb = nz.norm(a), nz.norm(b)
    except GiveUp:
        return False
    if not na.eq(nb) and na.sexpr() != nb.sexpr():
        return False
    for atom in nz.divisor_atoms.values():
        if not nonzero(atom):
            return False
    return True
