"""Symbolic value domain of pyvc.

Concrete Python values are used as they are.  Symbolic ones are instances of the classes below.
Every symbolic value refuses implicit conversion (bool/str/format/index/hash): if one ever leaks into
natively executed code the run fails closed (SymMisuse -> checker error), never silently."""
from __future__ import annotations
from dataclasses import dataclass, field
from typing import Any, Callable
import z3


class SymMisuse(Exception):
    pass


class EmitError(Exception):
    """the program treats emitted code text in a way that cannot yield well-formed code (e.g. iterates over its
    characters): reported as a failed emit/typing obligation"""


class Unsupported(Exception):
    """construct outside the modelled Python subset: the check exits 3, never passes/alarms"""


class Sym:
    def __bool__(self):
        raise SymMisuse(f"bool() of symbolic value {self!r}")

    def __str__(self):
        raise SymMisuse("str() of symbolic value")

    def __format__(self, spec):
        raise SymMisuse("format() of symbolic value")

    def __index__(self):
        raise SymMisuse("index() of symbolic value")

    def __hash__(self):
        raise SymMisuse("hash() of symbolic value")

    def __iter__(self):
        raise SymMisuse("iter() of symbolic value")

    def __len__(self):
        raise SymMisuse("len() of symbolic value")


class SymProto(Sym):
    """symbolic container implementing its own protocol through optional methods
    vf_getitem(interp, idx) / vf_setitem(interp, idx, v) / vf_contains(interp, x) / vf_method(interp, name, args, kwargs) /
    vf_len(interp) / vf_view(interp) -> loops.IterView / vf_truth() -> z3 Bool; anything not provided fails closed"""

    def _vf(self, name):
        m = getattr(self, name, None)
        if m is None:
            raise Unsupported(f"{type(self).__name__} does not model {name[3:]}")
        return m


class SInt(Sym):
    def __init__(self, t):
        self.t = t if z3.is_expr(t) else z3.IntVal(t)

    def __repr__(self):
        return f"SInt({self.t})"


class SReal(Sym):
    """Python float modelled as a mathematical real (assumption recorded in every evidence file)."""

    def __init__(self, t):
        self.t = t if z3.is_expr(t) else z3.RealVal(t)

    def __repr__(self):
        return f"SReal({self.t})"


class SBool(Sym):
    def __init__(self, t):
        self.t = t if z3.is_expr(t) else z3.BoolVal(t)

    def __repr__(self):
        return f"SBool({self.t})"


# ---------------------------------------------------------------------------------------------
# structured strings
# ---------------------------------------------------------------------------------------------

@dataclass(frozen=True)
class Lit:
    text: str


@dataclass(frozen=True, eq=False)
class Hole:
    """A piece of text that is not known literally.
    kind:
      'nat'    decimal digits of a non-negative int            (val: Int term)
      'int'    str(int), sign undecided                          (val: Int term)
      'ufloat' repr() of a finite non-negative float             (val: Real term)
      'float'  repr() of a finite float, sign undecided          (val: Real term)
      'code'   previously typed C fragment                       (nt, den, is00)
      'ident'  abstract identifier-like string                   (sid: term of sort StrId)
      'word'   abstract string over a declared character class   (sid, cls)
      'user'   user supplied C expression text                   (sid)
    """
    kind: str
    val: Any = None           # z3 term (numeric value / string id)
    nt: str = ""              # nonterminal for code holes
    den: Any = None           # z3 denotation for code holes
    is00: Any = None          # z3 Bool: text == "0.0" (code holes of the accumulating kind)
    cls: str = ""             # character class name for 'word'
    minlen: int = 1
    extra: Any = None

    def __repr__(self):
        if self.kind == "code":
            return f"<{self.nt}:{self.den}>"
        return f"<{self.kind}:{self.val}>"


class SStr(Sym):
    def __init__(self, segs):
        out = []
        for s in segs:
            if isinstance(s, str):
                s = Lit(s)
            if isinstance(s, Lit):
                if not s.text:
                    continue
                if out and isinstance(out[-1], Lit):
                    out[-1] = Lit(out[-1].text + s.text)
                    continue
            out.append(s)
        self.segs = tuple(out)

    def __repr__(self):
        return "SStr(" + "".join(s.text if isinstance(s, Lit) else repr(s) for s in self.segs) + ")"

    @property
    def is_concrete(self):
        return all(isinstance(s, Lit) for s in self.segs)

    def concrete(self) -> str:
        return "".join(s.text for s in self.segs)

    def holes(self):
        return [s for s in self.segs if isinstance(s, Hole)]


def as_segs(v) -> tuple:
    if isinstance(v, SStr):
        return v.segs
    if isinstance(v, str):
        return (Lit(v),) if v else ()
    raise Unsupported(f"not a string value: {type(v).__name__}")


def mkstr(segs):
    s = SStr(segs)
    return s.concrete() if s.is_concrete else s


# ---------------------------------------------------------------------------------------------
# lists
# ---------------------------------------------------------------------------------------------

class Codec:
    """How elements of a symbolic list are stored in z3 arrays (one array per component)."""
    name = "?"
    sorts: tuple = ()

    def enc(self, interp, v) -> tuple:
        raise NotImplementedError

    def dec(self, interp, terms) -> Any:
        raise NotImplementedError


class IntCodec(Codec):
    name = "int"
    sorts = (z3.IntSort(),)

    def enc(self, interp, v):
        if isinstance(v, SInt):
            return (v.t,)
        if isinstance(v, bool) or not isinstance(v, int):
            raise Unsupported(f"list[int] element {v!r}")
        return (z3.IntVal(v),)

    def dec(self, interp, terms):
        return SInt(terms[0])


class CodeCodec(Codec):
    """list of C fragments of one nonterminal: (denotation, is-the-literal-"0.0")."""

    def __init__(self, nt="Sum", den_sort=None):
        self.nt = nt
        self.name = f"code:{nt}"
        self.sorts = (den_sort or z3.RealSort(), z3.BoolSort())

    def enc(self, interp, v):
        from .cfrag import type_fragment
        if isinstance(v, str):
            v = SStr([Lit(v)])
        return type_fragment(interp, v, self.nt)

    def dec(self, interp, terms):
        return SStr([Hole("code", nt=self.nt, den=terms[0], is00=terms[1], minlen=3)])


class ObjCodec(Codec):
    def __init__(self, cls):
        self.cls = cls
        self.name = f"obj:{cls}"
        self.sorts = (z3.IntSort(),)

    def enc(self, interp, v):
        if isinstance(v, SObj):
            return (v.id,)
        raise Unsupported(f"list[{self.cls}] element {v!r}")

    def dec(self, interp, terms):
        return SObj(self.cls, terms[0])


class SList(Sym):
    """Symbolic-length list stored in z3 arrays."""

    def __init__(self, codec: Codec, arrays: tuple, length):
        self.codec = codec
        self.arrays = tuple(arrays)
        self.length = length if z3.is_expr(length) else z3.IntVal(length)

    def __repr__(self):
        return f"SList[{self.codec.name}](len={self.length})"

    def copy(self):
        return SList(self.codec, self.arrays, self.length)


class FList(Sym):
    """Functional symbolic list: element i is `template` with the bound index variable replaced by i;
    `overlay` holds later point updates/appends [(index term, value)] (latest last)."""

    def __init__(self, length, ivar, template, overlay=()):
        self.length = length if z3.is_expr(length) else z3.IntVal(length)
        self.ivar = ivar
        self.template = template
        self.overlay = list(overlay)

    def __repr__(self):
        return f"FList(len={self.length}, {self.template!r})"

    def copy(self):
        return FList(self.length, self.ivar, self.template, self.overlay)


class GList(Sym):
    """Generic-element view of a list of symbolic length: only the element at one arbitrary, path-global index
    `g` (0 <= g < length) is represented.  Sound for element-wise maps / zips / enumerates, which is all it
    supports; any other use fails closed."""

    def __init__(self, length, g, value):
        self.length = length if z3.is_expr(length) else z3.IntVal(length)
        self.g = g
        self.value = value

    def __repr__(self):
        return f"GList(len={self.length}, [{self.g}]={self.value!r})"


class SObj(Sym):
    """Abstract object of a modelled class, identified by an integer term; fields come from the
    contract's object model (uninterpreted functions of the id)."""

    def __init__(self, cls: str, id_term, fields=None):
        self.cls = cls
        self.id = id_term
        self.fields = fields or {}

    def __repr__(self):
        return f"SObj({self.cls}#{self.id})"

    # abstract objects may be stored in native containers by interpreted code only through the
    # interpreter, never hashed natively


class SRange(Sym):
    def __init__(self, lo, hi):
        self.lo, self.hi = lo, hi

    def __repr__(self):
        return f"SRange({self.lo},{self.hi})"


class SDict(Sym):
    """dict with a symbolic number of entries, viewed as the insertion-ordered list of its items."""

    def __init__(self, keys, values, length):
        self.keys, self.values, self.length = keys, values, length


def subst_value(v, ivar, e):
    """replace index variable ivar by term e inside a (possibly nested) symbolic value"""
    if isinstance(v, SInt):
        return SInt(z3.substitute(v.t, (ivar, e)))
    if isinstance(v, SReal):
        return SReal(z3.substitute(v.t, (ivar, e)))
    if isinstance(v, SBool):
        return SBool(z3.substitute(v.t, (ivar, e)))
    if isinstance(v, SObj):
        return SObj(v.cls, z3.substitute(v.id, (ivar, e)),
                    {k: (z3.substitute(x, (ivar, e)) if z3.is_expr(x) else subst_value(x, ivar, e)) for k, x in v.fields.items()})
    if isinstance(v, SStr):
        segs = []
        for s in v.segs:
            if isinstance(s, Hole):
                def sb(t):
                    if z3.is_expr(t):
                        return z3.substitute(t, (ivar, e))
                    if isinstance(t, dict):
                        return {k: sb(x) for k, x in t.items()}
                    if isinstance(t, tuple):
                        return tuple(sb(x) for x in t)
                    return t
                segs.append(Hole(s.kind, sb(s.val), s.nt, sb(s.den), sb(s.is00), s.cls, s.minlen, sb(s.extra)))
            else:
                segs.append(s)
        return SStr(segs)
    if isinstance(v, tuple):
        return tuple(subst_value(x, ivar, e) for x in v)
    if isinstance(v, SList):
        return SList(v.codec, tuple(z3.substitute(a, (ivar, e)) for a in v.arrays), z3.substitute(v.length, (ivar, e)))
    if isinstance(v, FList):
        return FList(z3.substitute(v.length, (ivar, e)), v.ivar, subst_value(v.template, ivar, e),
                     [(z3.substitute(i, (ivar, e)), subst_value(x, ivar, e)) for i, x in v.overlay])
    if isinstance(v, list):
        return [subst_value(x, ivar, e) for x in v]
    return v


def is_sym(v, depth=2) -> bool:
    if isinstance(v, Sym):
        return True
    if depth > 0 and isinstance(v, (list, tuple, set, frozenset)):
        return any(is_sym(x, depth - 1) for x in v)
    if depth > 0 and isinstance(v, dict):
        return any(is_sym(x, depth - 1) for x in v.values()) or any(is_sym(x, depth - 1) for x in v.keys())
    return False
