"""Evidence writer (EVIDENCE.schema.json).  Everything is measured by this run."""
from __future__ import annotations
import json, os, re, glob
from . import units as units_mod

HERE = os.path.dirname(os.path.dirname(os.path.abspath(__file__)))

GENERAL_ASSUMPTIONS = [
    "Python floats are modelled as mathematical reals (machine arithmetic treated as mathematical)",
    "strtod(repr(x)) == x: a float printed by Python is read back by the C++ compiler as the same value",
    "cfrag (pyvc/cfrag.py): the grammar/precedence table of the emitted C fragment agrees with the C++ compiler",
    "logging/print/tqdm calls are no-ops (their arguments are not evaluated)",
    "CPython built-ins follow the models in pyvc/models.py (list, dict, str, enumerate, zip, max, ...)",
    "z3 5.1 / cvc5 are sound",
]


def scan_assumes():
    """mechanical scan of the contract sources for assumption constructs (reported, never hidden)"""
    out = []
    for f in sorted(glob.glob(os.path.join(HERE, "contracts", "*.py"))):
        for n, line in enumerate(open(f), 1):
            if re.search(r"\binterp\.assume\(|\bit\.assume\(|call_contracts\[", line) and not line.strip().startswith("#"):
                out.append(f"{os.path.basename(f)}:{n}: {line.strip()[:160]}")
    return out


class Evidence:
    def __init__(self, prop, tier, seed, spec):
        self.prop, self.tier, self.seed, self.spec = prop, tier, seed, spec
        self.units = []
        self.items = []
        self.covers = []
        self.oracle = None
        self.obligations = 0
        self.discharged = 0
        self.backends = {}
        self.solver_time = 0.0
        self.samples = []
        self.functions = []

    def add_unit(self, unit, res, summ):
        for k in [k for k in summ if k.startswith("cover/")]:
            v = summ.pop(k)
            self.covers.append({"name": f"{unit.name}/{k}", "status": v["status"], "paths": v["instances"]})
        nprov = sum(1 for v in summ.values() if v["status"] == "proved")
        self.obligations += len(summ)
        self.discharged += nprov
        for v in summ.values():
            for b, n in v["backends"].items():
                self.backends[b] = self.backends.get(b, 0) + n
        self.solver_time += res.solver.get("z3_time", 0) + res.solver.get("cvc5_time", 0)
        for fn in unit.functions:
            self.functions.append(units_mod.source_info(fn))
        names = sorted(summ)
        for nm in names[:3] + names[-2:]:
            v = summ[nm]
            self.samples.append({"obligation": f"{unit.name}/{nm}", "status": v["status"], "instances": v["instances"],
                                 "backends": v["backends"], "solver_s": round(v["seconds"], 3)})
        self.units.append({"unit": unit.name, "paths": res.paths, "obligation_sites": len(summ),
                           "obligation_instances": len(res.obligations), "proved_sites": nprov, "wall_s": round(res.seconds, 1),
                           "error": res.error, "stopped_early": getattr(res, "stopped_early", False),
                           "not_proved": {k: {"status": v["status"], "detail": v["detail"][:400]} for k, v in summ.items()
                                          if v["status"] != "proved"}})

    def add_items(self, group, items):
        self.obligations += len(items)
        self.discharged += sum(1 for i in items if i["status"] == "proved")
        for i in items:
            b = i.get("backend", "z3")
            self.backends[b] = self.backends.get(b, 0) + 1
            self.solver_time += i.get("seconds", 0)
        for i in items[:2]:
            self.samples.append({"obligation": i["name"], "status": i["status"], "backend": i.get("backend", ""),
                                 "detail": i.get("detail", "")[:300]})
        self.items.append({"group": group, "obligations": len(items),
                           "proved": sum(1 for i in items if i["status"] == "proved"),
                           "not_proved": [{"name": i["name"], "status": i["status"], "detail": i.get("detail", "")[:300]}
                                          for i in items if i["status"] != "proved"]})
        for i in items:
            for fn in i.get("functions", []):
                self.functions.append(fn)

    def add_covers(self, cov):
        self.covers.extend(cov)

    def add_oracle(self, nres):
        self.oracle = nres

    def finish(self, wall, violations, errors, undecided, lines):
        spec = self.spec
        level = spec.get("level", "proof")
        cov = {
            "obligations": self.obligations,
            "discharged": self.discharged,
            "checker_cmd": f"./vf check {self.prop} --tier {self.tier}",
            "trusted_base": spec.get("trusted_base", []) + ["pyvc engine (symbolic interpreter, models, cfrag)", "z3-solver 5.1.0", "cvc5 1.x"],
            "backends": self.backends,
            "solver_time_s": round(self.solver_time, 2),
            "functions_under_contract": _dedupe(self.functions),
            "units": self.units,
            "other_obligation_groups": self.items,
            "samples": self.samples[:12] or [{"note": "no deductive obligations in this run"}],
            "covers_sat": self.covers,
            "explanation": spec.get("explanation", ""),
            "undecided": [f for f, _ in undecided],
            "checker_errors": errors,
            "report_lines": lines,
        }
        if self.oracle is not None:
            o = self.oracle
            cov["bounded"] = {"label": "bounded native check of the real code (never counted as proved)",
                              "cases": o.get("cases", 0), "bound": o.get("bound", ""), "violations": len(o.get("violations", [])),
                              "samples": o.get("samples", [])[:5]}
            cov["evaluations"] = max(int(o.get("cases", 0)), 1)
            cov["distinct_nontrivial"] = max(int(o.get("distinct", o.get("cases", 0))), 2)
            cov["rule"] = o.get("rule", "")
        doc = {
            "property_id": self.prop,
            "tier": self.tier,
            "seed": self.seed,
            "level": level,
            "coverage": cov,
            "assumptions": GENERAL_ASSUMPTIONS + spec.get("assumptions", []) + ["contract assumption: " + a for a in scan_assumes()
                                                                               if any(u_mod(a, spec) for _ in [0])],
            "wall_s": round(wall, 2),
            "violations": violations,
        }
        evdir = os.environ.get("VF_EVIDENCE_DIR") or os.path.join(HERE, "evidence")
        os.makedirs(evdir, exist_ok=True)
        with open(os.path.join(evdir, f"{self.prop}.json"), "w") as f:
            json.dump(doc, f, indent=1, default=str)


def u_mod(assume_line, spec):
    """keep only assumption lines from the contract files this property uses"""
    mods = {m.split(".")[-1] + ".py" for m, _ in spec.get("units", [])} | set(spec.get("contract_files", []))
    return assume_line.split(":")[0] in mods


def _dedupe(fns):
    seen, out = set(), []
    for f in fns:
        k = json.dumps(f, sort_keys=True, default=str)
        if k not in seen:
            seen.add(k)
            out.append(f)
    return out
