"""Operator semantics on symbolic values (installed as Python operator overloads on the Sym classes,
so the interpreter can apply Python's own operators uniformly to concrete and symbolic operands).
Comparisons never branch: they return bool or SBool; only truth() in the interpreter forks paths."""
from __future__ import annotations
import operator
import z3
from .sym import Sym, SInt, SReal, SBool, SStr, SList, FList, SObj, Lit, Hole, Unsupported, mkstr


def _num(v):
    """-> ('int'|'real', z3 term) or None"""
    if isinstance(v, SInt):
        return "int", v.t
    if isinstance(v, SReal):
        return "real", v.t
    if isinstance(v, SBool):
        return "int", z3.If(v.t, z3.IntVal(1), z3.IntVal(0))
    if isinstance(v, bool):
        return "int", z3.IntVal(int(v))
    if isinstance(v, int):
        return "int", z3.IntVal(v)
    if isinstance(v, float):
        if v != v or v in (float("inf"), float("-inf")):
            raise Unsupported("non-finite float constant")
        from fractions import Fraction
        fr = Fraction(v)
        return "real", z3.RealVal(f"{fr.numerator}/{fr.denominator}")
    return None


def _wrap(ty, t):
    t = z3.simplify(t)
    if ty == "int":
        return int(t.as_long()) if z3.is_int_value(t) else SInt(t)
    if z3.is_rational_value(t) or z3.is_int_value(t):
        pass  # keep symbolic real wrapper for uniform float semantics? concrete floats are exact rationals
    return SReal(t)


def _arith(op):
    def f(a, b):
        x, y = _num(a), _num(b)
        if x is None or y is None:
            return NotImplemented
        (tx, ex), (ty, ey) = x, y
        if op in ("+", "-", "*"):
            if tx == "int" and ty == "int":
                r = {"+": ex + ey, "-": ex - ey, "*": ex * ey}[op]
                return _wrap("int", r)
            ex = z3.ToReal(ex) if tx == "int" else ex
            ey = z3.ToReal(ey) if ty == "int" else ey
            return _wrap("real", {"+": ex + ey, "-": ex - ey, "*": ex * ey}[op])
        if op == "/":
            ex = z3.ToReal(ex) if tx == "int" else ex
            ey = z3.ToReal(ey) if ty == "int" else ey
            return _wrap("real", ex / ey)
        if op in ("//", "%"):
            if tx == "int" and ty == "int":
                # Python floor semantics coincide with SMT-LIB div/mod for a positive divisor; callers
                # must have established ey > 0 (checked by the interpreter before dispatching here)
                return _wrap("int", ex / ey if op == "//" else ex % ey)
            raise Unsupported("// or % on symbolic floats")
        raise Unsupported(op)
    return f


def _rarith(op):
    base = _arith(op)
    return lambda a, b: base(b, a)


def _cmp(op):
    def f(a, b):
        x, y = _num(a), _num(b)
        if x is None or y is None:
            return NotImplemented
        (tx, ex), (ty, ey) = x, y
        if tx != ty:
            ex = z3.ToReal(ex) if tx == "int" else ex
            ey = z3.ToReal(ey) if ty == "int" else ey
        r = {"<": ex < ey, "<=": ex <= ey, ">": ex > ey, ">=": ex >= ey, "==": ex == ey, "!=": ex != ey}[op]
        r = z3.simplify(r)
        if z3.is_true(r):
            return True
        if z3.is_false(r):
            return False
        return SBool(r)
    return f


for cls in (SInt, SReal, SBool):
    cls.__add__ = _arith("+"); cls.__radd__ = _rarith("+")
    cls.__sub__ = _arith("-"); cls.__rsub__ = _rarith("-")
    cls.__mul__ = _arith("*"); cls.__rmul__ = _rarith("*")
    cls.__truediv__ = _arith("/"); cls.__rtruediv__ = _rarith("/")
    cls.__floordiv__ = _arith("//"); cls.__rfloordiv__ = _rarith("//")
    cls.__mod__ = _arith("%"); cls.__rmod__ = _rarith("%")
    cls.__lt__ = _cmp("<"); cls.__le__ = _cmp("<="); cls.__gt__ = _cmp(">"); cls.__ge__ = _cmp(">=")
    cls.__eq__ = _cmp("=="); cls.__ne__ = _cmp("!=")
    cls.__hash__ = Sym.__hash__
    cls.__neg__ = lambda a: _arith("-")(0, a)
    cls.__pos__ = lambda a: a
    cls.__abs__ = lambda a: (lambda k: _wrap(k[0], z3.If(k[1] >= 0, k[1], -k[1])))(_num(a))


def sbool_and(*xs):
    ts = []
    for x in xs:
        if x is True:
            continue
        if x is False:
            return False
        ts.append(x.t if isinstance(x, SBool) else truth_term(x))
    if not ts:
        return True
    return SBool(z3.And(*ts)) if len(ts) > 1 else SBool(ts[0])


def sbool_or(*xs):
    ts = []
    for x in xs:
        if x is False:
            continue
        if x is True:
            return True
        ts.append(x.t if isinstance(x, SBool) else truth_term(x))
    if not ts:
        return False
    return SBool(z3.Or(*ts)) if len(ts) > 1 else SBool(ts[0])


def sbool_not(x):
    if isinstance(x, bool):
        return not x
    if isinstance(x, SBool):
        r = z3.simplify(z3.Not(x.t))
        return True if z3.is_true(r) else False if z3.is_false(r) else SBool(r)
    return sbool_not(SBool(truth_term(x)))


def truth_term(v):
    """z3 Bool for Python truthiness of a value (no branching)"""
    if isinstance(v, SBool):
        return v.t
    if isinstance(v, SInt):
        return v.t != 0
    if isinstance(v, SReal):
        return v.t != 0
    if isinstance(v, (SList, FList)):
        return v.length > 0
    if isinstance(v, SStr):
        from .cfrag import min_len
        if min_len(v) > 0:
            return z3.BoolVal(True)
        raise Unsupported(f"truthiness of possibly-empty symbolic string {v!r}")
    if isinstance(v, SObj):
        return z3.BoolVal(True)
    if hasattr(v, "vf_truth"):
        return v.vf_truth()
    if isinstance(v, Sym):
        raise Unsupported(f"truthiness of {type(v).__name__}")
    return z3.BoolVal(bool(v))


def term_of(v):
    """raw z3 term of a scalar value (concrete or symbolic)"""
    if isinstance(v, (SInt, SReal, SBool)):
        return v.t
    if isinstance(v, SObj):
        return v.id
    if isinstance(v, bool):
        return z3.BoolVal(v)
    n = _num(v)
    if n is not None:
        return n[1]
    if z3.is_expr(v):
        return v
    raise Unsupported(f"no z3 term for {v!r}")


def wrap_term(t):
    if not z3.is_expr(t):
        return t
    if z3.is_bool(t):
        t = z3.simplify(t)
        return True if z3.is_true(t) else False if z3.is_false(t) else SBool(t)
    if z3.is_int(t):
        return _wrap("int", t)
    if z3.is_real(t):
        return SReal(t)
    return t


# ---------------------------------------------------------------------------------------------
# string equality
# ---------------------------------------------------------------------------------------------

def hole_eq(a: Hole, b: Hole):
    if a.kind != b.kind:
        raise Unsupported(f"equality of different hole kinds {a!r} {b!r}")
    if a.kind == "ident" and isinstance(a.extra, dict) and isinstance(b.extra, dict) and "slot" in a.extra and "slot" in b.extra:
        # aliases of listed species are pairwise distinct (contract of Species.alias / Network.species, C09)
        return a.extra["slot"] == b.extra["slot"]
    if a.kind in ("nat", "ident", "word", "user"):
        return a.val == b.val
    if a.kind == "ufloat":
        return a.val == b.val
    raise Unsupported(f"equality of {a.kind} holes")


def str_eq(a, b):
    """a == b for string values; returns bool or SBool"""
    from .cfrag import min_len
    sa = a.segs if isinstance(a, SStr) else ((Lit(a),) if a else ())
    sb = b.segs if isinstance(b, SStr) else ((Lit(b),) if b else ())
    if all(isinstance(s, Lit) for s in sa) and all(isinstance(s, Lit) for s in sb):
        return "".join(s.text for s in sa) == "".join(s.text for s in sb)
    # one side literal
    for x, y in ((sa, sb), (sb, sa)):
        if all(isinstance(s, Lit) for s in y):
            lit = "".join(s.text for s in y)
            if len(x) == 1 and isinstance(x[0], Hole):
                h = x[0]
                if h.kind == "code" and lit == "0.0" and h.is00 is not None:
                    return SBool(h.is00)
                if h.kind in ("word", "num") and isinstance(h.extra, dict):
                    if lit == "" or lit in h.extra.get("notin", ()):
                        return False      # requires: the field is non-empty and is none of the marker tokens
                    if any(c.isspace() for c in lit) or (h.kind == "num" and not any(ch.isdigit() for ch in lit)):
                        return False
                if h.kind == "ident" and h.extra and "islit" in h.extra:
                    return h.extra["islit"](lit)
            n = sum(len(s.text) if isinstance(s, Lit) else s.minlen for s in x)
            if lit == "" and n > 0:
                return False
            if n > len(lit):
                return False
            # literal prefix / suffix mismatch decides
            if isinstance(x[0], Lit) and not lit.startswith(x[0].text[: len(lit)]):
                return False
            if isinstance(x[-1], Lit) and not lit.endswith(x[-1].text[-len(lit):] if len(lit) else ""):
                return False
            raise Unsupported(f"equality of {SStr(x)!r} with literal {lit!r}")
    # same shape with exactly one hole each, identical literal frame
    if len(sa) == len(sb):
        holes_a = [i for i, s in enumerate(sa) if isinstance(s, Hole)]
        holes_b = [i for i, s in enumerate(sb) if isinstance(s, Hole)]
        if holes_a == holes_b and len(holes_a) == 1:
            k = holes_a[0]
            if all(sa[i] == sb[i] for i in range(len(sa)) if i != k):
                return SBool(hole_eq(sa[k], sb[k]))
            pre_a = sa[0].text if k > 0 else ""
            pre_b = sb[0].text if k > 0 else ""
            if not (pre_a.startswith(pre_b) or pre_b.startswith(pre_a)):
                return False
    raise Unsupported(f"string equality {SStr(sa)!r} == {SStr(sb)!r}")


def _sstr_eq(a, b):
    if isinstance(b, (str, SStr)):
        return str_eq(a, b)
    return False


def _sstr_ne(a, b):
    r = _sstr_eq(a, b)
    return sbool_not(r)


SStr.__eq__ = _sstr_eq
SStr.__ne__ = _sstr_ne
SStr.__hash__ = Sym.__hash__
SStr.__add__ = lambda a, b: mkstr(list(a.segs) + list(SStr([b]).segs if isinstance(b, str) else b.segs)) if isinstance(b, (str, SStr)) else NotImplemented
SStr.__radd__ = lambda a, b: mkstr([Lit(b)] + list(a.segs)) if isinstance(b, str) else NotImplemented


def _sobj_eq(a, b):
    raise Unsupported("== on abstract objects must go through the interpreter (class equality contract)")


SObj.__eq__ = _sobj_eq
SObj.__hash__ = Sym.__hash__
