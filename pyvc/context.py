"""Verification context: contracts, object models, axioms, and the domain hooks the interpreter calls.
Property-specific contexts (in /verif/contracts) subclass VerifContext and override what they model;
everything not modelled raises Unsupported (the check then exits 3 - never a pass, never an alarm)."""
from __future__ import annotations
import ast, re
from dataclasses import dataclass, field
import z3
from .sym import (Sym, SInt, SReal, SBool, SStr, SList, FList, SObj, SRange, SDict, Lit, Hole, Unsupported,
                  is_sym, mkstr, IntCodec, CodeCodec, ObjCodec, Codec, subst_value)
from .ops import term_of, wrap_term, truth_term, sbool_and, sbool_or, sbool_not


@dataclass
class LoopSpec:
    label: str
    index: str                              # ghost name of the iteration counter inside clauses
    invariants: list                        # [(clause text, (property ids...))]
    modifies: tuple = ()                    # extra names to havoc
    types: dict = field(default_factory=dict)   # name -> type string for havoc of names not yet symbolic
    assume_in_body: tuple = ()
    ghost_init: object = None               # callable(interp, env): ghost state set up when the loop is entered


def parse_type(ts: str) -> Codec:
    ts = ts.strip()
    if ts == "list[int]":
        return IntCodec()
    m = re.fullmatch(r"list\[code:(\w+)\]", ts)
    if m:
        return CodeCodec(m.group(1))
    m = re.fullmatch(r"list\[obj:(\w+)\]", ts)
    if m:
        return ObjCodec(m.group(1))
    raise Unsupported(f"type {ts}")


class VerifContext:
    interpret_prefix = "naunet"

    def __init__(self, props=()):
        self.props = set(props)           # property ids whose obligations this run reports
        self.axioms: list = []
        self.call_contracts: dict = {}
        self.noop_functions: set = set()
        self.stmt_hooks: dict = {}
        self.return_hooks: dict = {}      # function qualname -> callable(interp, env, value): postconditions
        self.loop_specs: dict = {}        # (func qualname, "target in iter") -> LoopSpec
        self.var_types: dict = {}         # (func qualname, var) -> type string
        self.spec_names: dict = {}
        self._clause_cache: dict = {}
        self.forced: set = set()
        self.used_loop_specs: set = set()
        self.defs = None                  # smt.Defs: recursive definitions of spec functions
        self.spec_defined: set = set()    # names of recursively defined spec functions (relevance filter)
        self.spec_names.update(dict(
            forall=self._forall, exists=self._exists, implies=self._implies, ite=self._ite,
            den=self._den, is00=self._is00, length=self._length, term=term_of, z3=z3,
        ))

    # ------------------------------------------------------------ policy
    def wants(self, prop, name) -> bool:
        """report this obligation?  Language-level safety obligations (py/...) and untagged ones always;
        tagged ones only when their property is selected"""
        if not prop or not self.props:
            return True
        return bool(set(prop) & self.props)

    def interpret_module(self, mod: str) -> bool:
        return mod == self.interpret_prefix or mod.startswith(self.interpret_prefix + ".")

    def force_interpret(self, qualname: str) -> bool:
        return qualname in self.forced

    # ------------------------------------------------------------ contracts plumbing
    def parse_clause(self, src: str):
        n = self._clause_cache.get(src)
        if n is None:
            n = ast.parse(src.strip(), mode="eval").body
            self._clause_cache[src] = n
        return n

    def loop_spec(self, key):
        sp = self.loop_specs.get(key)
        if sp is not None:
            self.used_loop_specs.add(key)
        return sp

    def hints_for(self, interp, env):
        return ()

    def goal_hints(self, interp, skolems, facts, goal):
        """ground consequences of proved lemmas, generated for the terms of this goal"""
        return ()

    def on_assign(self, interp, env, name, v):
        """convert freshly assigned concrete lists into typed symbolic lists when the contract declares it"""
        fn = env.func.__qualname__ if env.func else None
        ts = self.var_types.get((fn, name))
        if ts and isinstance(v, list):
            return self.to_slist(interp, v, parse_type(ts))
        return v

    def on_setattr(self, interp, obj, name, v):
        return v

    def to_slist(self, interp, items: list, codec: Codec) -> SList:
        arrays = [z3.K(z3.IntSort(), _default(s)) for s in codec.sorts]
        for i, it in enumerate(items):
            terms = codec.enc(interp, it)
            arrays = [z3.Store(a, i, t) for a, t in zip(arrays, terms)]
        return SList(codec, tuple(arrays), z3.IntVal(len(items)))

    def fresh_like(self, interp, name, v, spec: LoopSpec | None, env):
        if isinstance(v, SList):
            arrays = tuple(interp.fresh(f"{name}.a{i}", z3.ArraySort(z3.IntSort(), s)) for i, s in enumerate(v.codec.sorts))
            ln = interp.fresh(f"{name}.len", z3.IntSort())
            interp.assume(ln >= 0)
            return SList(v.codec, arrays, ln)
        if isinstance(v, SInt) or (isinstance(v, int) and not isinstance(v, bool)):
            return SInt(interp.fresh(name, z3.IntSort()))
        if isinstance(v, SReal) or isinstance(v, float):
            return SReal(interp.fresh(name, z3.RealSort()))
        if isinstance(v, SBool) or isinstance(v, bool):
            return SBool(interp.fresh(name, z3.BoolSort()))
        from . import setmodel
        if isinstance(v, setmodel.SSet):
            return setmodel.SSet(v.cls, interp.fresh(name, z3.ArraySort(z3.IntSort(), z3.BoolSort())))
        ts = (spec.types.get(name) if spec else None)
        if ts:
            return self.fresh_of_type(interp, name, ts)
        return self.fresh_custom(interp, name, v, spec, env)

    def fresh_of_type(self, interp, name, ts):
        if ts == "int":
            return SInt(interp.fresh(name, z3.IntSort()))
        if ts == "real":
            return SReal(interp.fresh(name, z3.RealSort()))
        if ts == "bool":
            return SBool(interp.fresh(name, z3.BoolSort()))
        if ts == "dead":
            return _Dead(name)
        codec = parse_type(ts)
        arrays = tuple(interp.fresh(f"{name}.a{i}", z3.ArraySort(z3.IntSort(), s)) for i, s in enumerate(codec.sorts))
        ln = interp.fresh(f"{name}.len", z3.IntSort())
        interp.assume(ln >= 0)
        return SList(codec, arrays, ln)

    def fresh_custom(self, interp, name, v, spec, env):
        raise Unsupported(f"cannot havoc `{name}` (value {type(v).__name__}); declare its type in the loop contract")

    def havoc(self, interp, env, names, spec: LoopSpec):
        for nm in sorted(names):
            if "." in nm:
                base, attr = nm.split(".", 1)
                try:
                    obj = env.lookup(base)
                except Exception:
                    continue
                self.havoc_attr(interp, env, obj, attr, spec, nm)
                continue
            e = env
            cur = _MISSING
            while e is not None:
                if nm in e.vars:
                    cur = e.vars[nm]
                    break
                e = e.parent
            if cur is _MISSING:
                ts = spec.types.get(nm)
                if ts:
                    env.set(nm, self.fresh_of_type(interp, nm, ts))
                continue   # loop-local temporary: defined inside the body before use
            ts = spec.types.get(nm)
            if ts:
                e.vars[nm] = self.fresh_of_type(interp, nm, ts)
            else:
                e.vars[nm] = self.fresh_like(interp, nm, cur, spec, env)

    def havoc_attr(self, interp, env, obj, attr, spec, nm):
        if isinstance(obj, Sym):
            return
        cur = getattr(obj, "__dict__", {}).get(attr, _MISSING)
        if cur is _MISSING:
            return
        ts = spec.types.get(nm)
        new = self.fresh_of_type(interp, nm, ts) if ts else self.fresh_like(interp, nm, cur, spec, env)
        obj.__dict__[attr] = new

    # ------------------------------------------------------------ spec helpers (available in clauses)
    def _forall(self, *fs):
        """forall(lambda i, j: body): universally quantified over Int"""
        (f,) = fs
        from .interp import Closure
        if not isinstance(f, Closure):
            raise Unsupported("forall needs a lambda")
        interp = f.interp
        names = [a.arg for a in f.node.args.args]
        vs = [interp.fresh_int(n) for n in names]
        body = interp.call(f, [SInt(v) for v in vs], {})
        bt = body.t if isinstance(body, SBool) else z3.BoolVal(bool(body))
        return SBool(z3.ForAll(vs, bt))

    def _exists(self, f):
        interp = f.interp
        names = [a.arg for a in f.node.args.args]
        vs = [interp.fresh_int(n) for n in names]
        body = interp.call(f, [SInt(v) for v in vs], {})
        bt = body.t if isinstance(body, SBool) else z3.BoolVal(bool(body))
        return SBool(z3.Exists(vs, bt))

    def _implies(self, a, b):
        return wrap_term(z3.Implies(truth_term(a), truth_term(b)))

    def _ite(self, c, a, b):
        return wrap_term(z3.If(truth_term(c), term_of(a), term_of(b)))

    def _den(self, lst, i=None):
        """denotation of element i of a list of code strings / of a code string"""
        if isinstance(lst, SList):
            return wrap_term(z3.Select(lst.arrays[0], term_of(i)))
        if isinstance(lst, (SStr, str)):
            from .cfrag import parse_expr, to_real
            return wrap_term(to_real(parse_expr(lst)))
        raise Unsupported("den() of this value")

    def _is00(self, lst, i=None):
        if isinstance(lst, SList):
            return wrap_term(z3.Select(lst.arrays[1], term_of(i)))
        from .ops import str_eq
        return str_eq(lst, "0.0")

    def _length(self, x):
        if isinstance(x, (SList, FList)):
            return wrap_term(x.length)
        return len(x)

    # ------------------------------------------------------------ default domain hooks
    def with_enter(self, interp, cm):
        return cm.__enter__()

    def with_exit(self, interp, cm):
        cm.__exit__(None, None, None)

    def prefer_flist(self, interp, e, env, view) -> bool:
        return True

    def length_bound(self, interp, n):
        """hook: contracts may assume their `requires` on collection sizes when a length is first needed"""
        return None

    def replicate(self, interp, lst, n):
        """[x] * n with symbolic n"""
        if isinstance(lst, list) and len(lst) == 1:
            x = lst[0]
            nt = term_of(n)
            codec = self.codec_for_value(interp, x)
            terms = codec.enc(interp, x)
            arrays = tuple(z3.K(z3.IntSort(), t) for t in terms)
            return SList(codec, arrays, z3.simplify(z3.If(nt > 0, nt, 0)))
        if isinstance(lst, SList):
            # (["0.0"] * n) * n: constant array stays constant
            if all(z3.is_K(a) for a in lst.arrays):
                nt = term_of(n)
                interp.prove(nt >= 0, "py/replicate-nonneg")
                return SList(lst.codec, lst.arrays, z3.simplify(lst.length * nt))
        raise Unsupported("list replication of this shape")

    def codec_for_value(self, interp, x) -> Codec:
        if isinstance(x, (int, SInt)) and not isinstance(x, bool):
            return IntCodec()
        if isinstance(x, (str, SStr)):
            return CodeCodec("Sum")
        raise Unsupported(f"no list codec for {type(x).__name__}")

    def list_concat(self, interp, a, b):
        raise Unsupported("concatenation of symbolic lists")

    def slist_index(self, interp, lst, x):
        raise Unsupported("list.index on symbolic list")

    def flist_index(self, interp, lst, x):
        raise Unsupported("list.index on symbolic list")

    def slist_contains(self, interp, lst, x):
        raise Unsupported("`in` on symbolic list")

    def quant_all(self, interp, x, is_all):
        from .loops import view_of
        view = view_of(interp, x)
        if view.concrete is not None:
            vals = view.concrete
            return sbool_and(*vals) if is_all else sbool_or(*vals)
        k = interp.fresh_int("q")
        interp.spec_mode += 1
        try:
            body = view.elem(interp, k)
        finally:
            interp.spec_mode -= 1
        bt = truth_term(body)
        rng = z3.And(k >= 0, k < view.length)
        bs = z3.simplify(bt) if z3.is_expr(bt) else bt
        if bs is True or bs is False or z3.is_true(bs) or z3.is_false(bs):
            # a body that does not depend on the element: all() / any() only ask whether the collection is empty (quantifier free)
            const = bs is True or (z3.is_expr(bs) and z3.is_true(bs))
            if is_all:
                return SBool(z3.BoolVal(True)) if const else SBool(view.length <= 0)
            return SBool(view.length > 0) if const else SBool(z3.BoolVal(False))
        if is_all:
            return SBool(z3.ForAll([k], z3.Implies(rng, bt)))
        return SBool(z3.Exists([k], z3.And(rng, bt)))

    def sorted_model(self, interp, x, kwargs):
        if isinstance(x, dict) and not any(is_sym(k) or isinstance(k, Sym) for k in x):
            x = list(x)            # sorted(d) sorts the keys; symbolic *values* play no part
        if not is_sym(x) and not isinstance(x, Sym):
            key = kwargs.get("key")
            items = list(x)
            return interp.native(sorted, [items], kwargs)
        raise Unsupported("sorted on symbolic collection")

    def set_rep(self, interp, x):
        raise Unsupported("set element representative")

    def set_of_list(self, interp, lst):
        raise Unsupported("set(symbolic list)")

    # strings: defaults fail closed
    def format_numeric(self, interp, v, spec):
        """float presentation types without width / fill: the text is a numeral whose value is
          * the number itself when the precision round-trips every double (>= 17 significant digits), otherwise
          * FMT_<spec>(x), an uninterpreted rounding with FMT(-x) = -FMT(x) and sign(FMT(x)) in {0, sign(x)}
        (nothing else is known about a shorter numeral: an obligation that needs its exact value is then not provable)."""
        import re as _re
        from .sym import SReal, SStr, Lit, Hole
        m = _re.fullmatch(r"(?:\.(\d+))?([gGeEfF])", spec or "")
        if isinstance(v, SReal) and m:
            prec = int(m.group(1)) if m.group(1) is not None else 6
            sig = prec if m.group(2) in "gG" else (prec + 1 if m.group(2) in "eE" else 0)
            if sig >= 17:
                f = lambda t: t
            else:
                fn = z3.Function(f"FMT_{m.group(2)}{prec}", z3.RealSort(), z3.RealSort())
                f = lambda t: fn(t)
                interp.assume(z3.And(z3.Implies(v.t >= 0, fn(v.t) >= 0), z3.Implies(v.t <= 0, fn(v.t) <= 0), fn(-v.t) == -fn(v.t)))
            if interp.branch(v.t < 0):
                return SStr([Lit("-"), Hole("ufloat", z3.simplify(f(-v.t)))])
            return SStr([Hole("ufloat", f(v.t))])
        raise Unsupported(f"format spec {spec!r} on symbolic number")

    def pad_string(self, interp, v, align, width):
        raise Unsupported("padding of symbolic string")

    def split_string(self, interp, s, sep, maxsplit):
        raise Unsupported("split of symbolic string")

    def strip_string(self, interp, s, chars):
        raise Unsupported("strip of symbolic string")

    def str_replace(self, interp, s, old, new):
        """domain model of str.replace on a structured string; None = use the generic (exact or fail-closed) model"""
        return None

    def strip_side(self, interp, s, which, chars):
        raise Unsupported(f"str.{which} on symbolic string")

    def str_affix(self, interp, s, which, arg):
        if isinstance(s, str) and isinstance(arg, (str, tuple)):
            return getattr(s, which)(arg)
        raise Unsupported(f"{which} on symbolic string")

    def str_case(self, interp, s, which):
        if isinstance(s, str):
            return getattr(s, which)()
        raise Unsupported(f"{which} on symbolic string")

    def str_isdigit(self, interp, s):
        if isinstance(s, str):
            return s.isdigit()
        raise Unsupported("isdigit on symbolic string")

    def str_count(self, interp, s, sub):
        if isinstance(s, str) and isinstance(sub, str):
            return s.count(sub)
        raise Unsupported("count on symbolic string")

    def str_index(self, interp, s, idx):
        raise Unsupported("index/slice of symbolic string")

    def str_len(self, interp, s):
        raise Unsupported("len of symbolic string")

    def str_contains(self, interp, s, x):
        if isinstance(s, str) and isinstance(x, str):
            return x in s
        raise Unsupported("substring test on symbolic string")

    def str_to_number(self, interp, s, kind):
        raise Unsupported(f"{kind}() of symbolic string")

    # abstract objects: defaults fail closed
    def obj_getattr(self, interp, obj, name):
        raise Unsupported(f"attribute {obj.cls}.{name} not modelled")

    def obj_setattr(self, interp, obj, name, v):
        raise Unsupported(f"attribute store {obj.cls}.{name} not modelled")

    def obj_method(self, interp, obj, name, args, kwargs):
        raise Unsupported(f"method {obj.cls}.{name} not modelled")

    def obj_getitem(self, interp, obj, idx):
        raise Unsupported(f"subscript of {obj.cls} not modelled")

    def obj_hash(self, interp, obj):
        raise Unsupported(f"hash of abstract {obj.cls} not modelled")

    def obj_format(self, interp, obj, spec):
        raise Unsupported(f"format of abstract {obj.cls} not modelled")

    def obj_equals(self, interp, a, b):
        raise Unsupported("== on abstract objects not modelled")

    def obj_is_none(self, interp, v):
        return False

    def obj_isinstance(self, interp, v, tp):
        raise Unsupported("isinstance on abstract object not modelled")


class _Dead(Sym):
    """value of a variable that is dead after havoc (reading it is an error in the contract)"""

    def __init__(self, name):
        self.name = name


_MISSING = object()


def _default(sort):
    if sort == z3.IntSort():
        return z3.IntVal(0)
    if sort == z3.RealSort():
        return z3.RealVal(0)
    if sort == z3.BoolSort():
        return z3.BoolVal(False)
    return z3.Const("default_" + str(sort), sort)


# ---------------------------------------------------------------------------------------------
# lemma "flat index is injective": 0<=b<n, 0<=d<n, a*n+b == c*n+d  ==>  a==c and b==d
# (proved once per run as obligation lemma/flat-index, see lemmas.py); instances are generated for every
# pair of terms of the shape x*n + y that occur in a goal
# ---------------------------------------------------------------------------------------------

def _flat_terms(fs):
    out = {}
    seen = set()
    stack = list(fs)
    while stack:
        x = stack.pop()
        if x.get_id() in seen:
            continue
        seen.add(x.get_id())
        if z3.is_quantifier(x):
            continue
        if z3.is_app(x):
            if z3.is_add(x) and x.num_args() == 2 and z3.is_int(x):
                for (m, y) in ((x.arg(0), x.arg(1)), (x.arg(1), x.arg(0))):
                    if z3.is_mul(m) and m.num_args() == 2 and not z3.is_int_value(m.arg(0)) and not z3.is_int_value(m.arg(1)):
                        out[x.get_id()] = (x, m.arg(0), m.arg(1), y)
                        break
            stack.extend(x.children())
    return list(out.values())


def flat_index_hints(facts, goal):
    terms = _flat_terms(list(facts) + [goal])
    hints = []
    for i in range(len(terms)):
        for j in range(i + 1, len(terms)):
            (p1, a1, b1, r1), (p2, a2, b2, r2) = terms[i], terms[j]
            # identify the common stride n: it is the factor shared by both products
            for (x1, n1) in ((a1, b1), (b1, a1)):
                for (x2, n2) in ((a2, b2), (b2, a2)):
                    if n1.eq(n2):
                        hints.append(z3.Implies(z3.And(r1 >= 0, r1 < n1, r2 >= 0, r2 < n1, p1 == p2), z3.And(x1 == x2, r1 == r2)))
    return hints[:60]
