"""collect one round of confirmed sub-agent changes into seeded/<id>/ (patch.diff, demo.py, meta.json)
usage: tools/assemble_round.py <round> <summary file with the lines printed by tools/seed_round.sh (first pass)> [<later pass> ...]
The first-pass line says whether the machinery AS IT STOOD caught the change; later passes are re-runs after strengthening."""
import json, os, re, shutil, sys
HERE = os.path.dirname(os.path.dirname(os.path.abspath(__file__)))
rnd = int(sys.argv[1])
passes = []
for f in sys.argv[2:]:
    d = {}
    for line in open(f):
        p = line.split()
        if p and re.match(r"C\d\d_r\d+_\d+", p[0]):
            d[p[0]] = line.strip()
    passes.append(d)
for sid, line in sorted(passes[0].items()):
    prop = sid.split("_")[0]
    src = f"/tmp/out{rnd}_{prop}"
    if "demo_pristine=0 demo_mutant=1" not in line or "82 passed" not in line:
        print("not confirmed, skipped:", line)
        continue
    dst = os.path.join(HERE, "seeded", sid)
    os.makedirs(dst, exist_ok=True)
    for fn in ("patch.diff", "demo.py"):
        shutil.copy(os.path.join(src, fn), os.path.join(dst, fn))
    meta = json.load(open(os.path.join(src, "meta.json")))
    meta.update(id=sid, round=rnd, property=prop, confirmed_here=line.split("|")[0].strip())
    first = line.split("|")[-1].strip()
    last = passes[-1].get(sid, line).split("|")[-1].strip() if len(passes) > 1 else first
    for later in passes[1:]:
        if sid in later:
            last = later[sid].split("|")[-1].strip()
    log = open(os.path.join(src, "check.log"), errors="replace").read() if os.path.exists(os.path.join(src, "check.log")) else ""
    viol = [l for l in log.splitlines() if l.startswith("VIOLATION")]
    meta["caught_by"] = {"check": f"./vf check {prop}", "first_pass": first, "result": last, "violation_lines": len(viol),
                         "with_failing_input": sum(1 for l in viol if "no-failing-input-found" not in l),
                         "failed_obligations": sorted({re.sub(r".*replay=\S*/" + prop + r"-(.*)\.json.*", r"\1", l) for l in viol if "no-failing-input-found" in l})[:8]}
    json.dump(meta, open(os.path.join(dst, "meta.json"), "w"), indent=1)
    print(sid, "|", first, "->", last)
