"""developer helper: explore one unit and print its obligation summary   (./vf-python tools/rununit.py module unit [prop])"""
import sys, os, time
sys.path.insert(0, os.path.dirname(os.path.dirname(os.path.abspath(__file__))))
from pyvc import runner, units
mod, un = sys.argv[1], sys.argv[2]
prop = sys.argv[3] if len(sys.argv) > 3 else None
u = units.load(mod, un)
t0 = time.time()
res = runner.explore(u, props=(prop,) if prop else u.props[:1], max_paths=u.max_paths)
summ = runner.summarize(res.obligations)
print("paths", res.paths, "error", res.error, "secs %.1f" % (time.time() - t0))
bad = 0
for k, v in sorted(summ.items()):
    if v["status"] not in ("proved", "covered") or os.environ.get("ALL"):
        bad += v["status"] not in ("proved", "covered")
        print(v["status"], k, v["instances"], (v.get("detail") or "")[:300].replace("\n", " "))
        if os.environ.get("MODEL") and v["status"] != "proved":
            print("   ", (v.get("model") or "")[:1500])
print(len(summ), "sites;", bad, "not proved;", "covers:", {k: (v["status"], v["instances"]) for k, v in summ.items() if k.startswith("cover/")})
