"""Collect the confirmed seeded changes into /verif/seeded/<id>/{patch.diff, demo.py, meta.json} and write seeded/MATRIX.md.
Inputs (scratch, not needed by any registered command): /tmp/out_Cxx/mutN (sub-agent output), /tmp/ported/<id>.diff (patches
re-based onto the fixed tree), /tmp/seed_confirm/summary.txt (confirmation on a scratch copy), /tmp/matrix/ (check results)."""
import json, os, re, shutil, sys
HERE = os.path.dirname(os.path.dirname(os.path.abspath(__file__)))
OUT = os.path.join(HERE, "seeded")
conf = {}
for line in open("/tmp/seed_confirm/summary.txt"):
    p = line.split()
    if p and p[0] != "DONE":
        conf[p[0].replace("(ported)", "")] = line.strip()
for extra in sys.argv[1:]:
    for line in open(extra):
        p = line.split()
        if p:
            conf[p[0].replace("(ported)", "")] = line.strip()
mat = {}
if os.path.exists("/tmp/matrix/summary.txt"):
    for line in open("/tmp/matrix/summary.txt"):
        p = line.split()
        if p and p[0] != "DONE":
            mat[p[0]] = line.strip()
for _rf in [f"/tmp/round{_r}/summary.txt" for _r in (2, 3, 4, 5, 6)]:
    if not os.path.exists(_rf):
        continue
    for line in open(_rf):
        p = line.split()
        if p and p[0] != "DONE":
            conf[p[0]] = line.split("|")[0].strip()
            mat[p[0]] = line.split("|")[-1].strip()
NEUTRALISED = {"C12_r5_2": "the fix bbf9036 (names no longer absorb a signed number) removes the ambiguity this grammar rewrite resolved differently: on the fixed tree the change "
                           "no longer alters any translation (its own demo passes); kept for the record, it was not caught before the fix"}
rows = []
for rnd_, c, m in [(r, c, m) for r in (1, 2, 3, 4, 5, 6) for c in range(1, 21) for m in (1, 2)]:
    if True:
        sid = f"C{c:02d}_{m}" if rnd_ == 1 else f"C{c:02d}_r{rnd_}_{m}"
        src = f"/tmp/out_C{c:02d}/mut{m}" if rnd_ == 1 else f"/tmp/out{rnd_}_C{c:02d}/mut{m}"
        if not os.path.exists(src + "/patch.diff") or not os.path.exists(src + "/meta.json") or (rnd_ >= 2 and sid not in conf and sid not in NEUTRALISED):
            continue
        d = os.path.join(OUT, sid)
        os.makedirs(d, exist_ok=True)
        ported = f"/tmp/ported/{sid}.diff"
        shutil.copy(ported if os.path.exists(ported) else src + "/patch.diff", d + "/patch.diff")
        shutil.copy(src + "/demo.py", d + "/demo.py")
        meta = json.load(open(src + "/meta.json"))
        meta["id"] = sid
        meta["round"] = rnd_
        meta["rebased_onto_fixed_tree"] = os.path.exists(ported)
        meta["confirmed_here"] = conf.get(sid, "not confirmed")
        log = f"/tmp/matrix/{sid}.log" if rnd_ == 1 else f"/tmp/round{rnd_}/{sid}.log"
        if os.path.exists(f"/tmp/regress{rnd_}/{sid}.log"):
            log = f"/tmp/regress{rnd_}/{sid}.log"          # re-run of the earlier rounds against the final machinery
        caught = {"check": f"./vf check C{c:02d}", "result": mat.get(sid, "not run")}
        if sid in NEUTRALISED:
            meta["neutralised"] = NEUTRALISED[sid]
        if os.path.exists(log):
            txt = open(log).read()
            viol = [l for l in txt.splitlines() if l.startswith("VIOLATION")]
            caught["violation_lines"] = len(viol)
            caught["with_failing_input"] = sum(1 for l in viol if "no-failing-input-found" not in l)
            caught["failed_obligations"] = sorted({re.sub(r".*replay=\S*/C\d\d-", "", l).replace(".json", "").split()[0] for l in viol if "no-failing-input-found" in l})[:6]
            caught["checker_errors"] = [l[:200] for l in txt.splitlines() if l.startswith("CHECKER-ERROR")][:2]
            m_ = re.search(r"exit=(\d)", txt.splitlines()[-1]) if txt.strip() else None
            caught["exit"] = int(m_.group(1)) if m_ else None
        evf = f"/tmp/mut_ev_rg/{sid}/C{c:02d}.json" if os.path.exists(f"/tmp/mut_ev_rg/{sid}/C{c:02d}.json") else f"/tmp/mut_ev/{sid}/C{c:02d}.json"
        ded = []
        if os.path.exists(evf):
            ev = json.load(open(evf))["coverage"]
            for u in ev.get("units", []):
                for k, v in (u.get("not_proved") or {}).items():
                    if v.get("status") in ("refuted", "cex-ground"):
                        ded.append(f"{u['unit']}/{k}")
                if u.get("error"):
                    ded.append(f"{u['unit']}: engine cannot process the changed code ({u['error'][:60]})")
            for g in ev.get("other_obligation_groups", []):
                for it_ in g.get("not_proved", []):
                    if it_.get("status") in ("refuted", "cex-ground"):
                        ded.append(it_["name"])
        caught["deductive_layer"] = ded[:8]
        meta["caught_by"] = caught
        json.dump(meta, open(d + "/meta.json", "w"), indent=1)
        layer = "-"
        if caught.get("exit") == 1:
            layer = ("failed obligation" if caught.get("failed_obligations") else "") + (" + " if caught.get("failed_obligations") and caught.get("with_failing_input") else "") + \
                    ("native witness (failing input)" if caught.get("with_failing_input") else "")
        nat = "yes" if caught.get("with_failing_input") else "no"
        dl = caught.get("deductive_layer", [])
        rows.append((sid, meta["summary"][:110].replace("|", "/"), caught.get("exit"), f"{len(dl)}" if dl else "0", nat, "; ".join(dl[:2])[:150]))
with open(os.path.join(OUT, "MATRIX.md"), "w") as f:
    f.write("# Seeded changes and the checks that catch them\n\nEach change was produced by an independent sub-agent that saw only the property text and a scratch worktree, "
            "confirmed on a scratch copy of the current tree (demo passes before / fails after, the 82 baseline tests unchanged), and run through "
            "`./vf check <property>` with VF_REPO pointing at the scratch copy.  exit 1 = violation reported.\n\n"
            "| id | change | exit | failed obligations (deductive layer) | concrete failing input (bounded oracle) | first failed obligations |\n|---|---|---|---|---|---|\n")
    for r in rows:
        f.write("| " + " | ".join(str(x) for x in r) + " |\n")
if NEUTRALISED:
    if True:
        with open(os.path.join(OUT, "MATRIX.md"), "a") as f2:
            f2.write("\nNotes\n\n" + "".join(f"* {k}: {v}\n" for k, v in NEUTRALISED.items()))
print(len(rows), "seeded changes assembled")
