#!/bin/bash
# re-run the property's quick check against every kept seeded change of the given properties (scratch copies, nothing in /repo or
# /verif/evidence touched).  usage: tools/regress.sh <outdir> <jobs> C06 C15 ...   -> <outdir>/summary.txt  (one line per change)
OUT="$1"; J="$2"; shift 2
HERE="$(cd "$(dirname "${BASH_SOURCE[0]}")/.." && pwd)"
mkdir -p "$OUT"
for p in "$@"; do ls -d "$HERE"/seeded/${p}_* ; done | xargs -P "$J" -I{} bash -c '
  d="{}"; sid=$(basename "$d"); p=${sid%%_*}; S=/tmp/rg_$sid; rm -rf "$S"; mkdir -p "$S" "'"$OUT"'/$sid/ev" "'"$OUT"'/$sid/rp"
  git -C /repo archive HEAD | tar -x -C "$S"
  if ! (cd "$S" && git apply "$d/patch.diff" 2>/dev/null); then echo "$sid patch-does-not-apply" >> "'"$OUT"'/summary.txt"; rm -rf "$S"; exit 0; fi
  (cd "'"$HERE"'" && VF_REPO="$S" VF_EVIDENCE_DIR="'"$OUT"'/$sid/ev" VF_REPLAY_DIR="'"$OUT"'/$sid/rp" VERIF_SEED=1 ./vf check "$p" --tier quick > "'"$OUT"'/$sid/check.log" 2>&1; echo "$sid exit=$? violations=$(grep -c ^VIOLATION "'"$OUT"'/$sid/check.log")" >> "'"$OUT"'/summary.txt")
  rm -rf "$S" "'"$OUT"'/$sid/ev" "'"$OUT"'/$sid/rp"
'
sort "$OUT/summary.txt"
