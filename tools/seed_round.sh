#!/bin/bash
# confirm one sub-agent change on a scratch copy of /repo HEAD and run the property's check against it.
# usage: tools/seed_round.sh <prop> <outdir with patch.diff demo.py meta.json> <seed-id> [--check-only]
# writes <outdir>/confirm.txt, <outdir>/check.log; prints one summary line.  Nothing in /repo or /verif/evidence is touched.
set -u
P="$1"; OUT="$2"; SID="$3"
HERE="$(cd "$(dirname "${BASH_SOURCE[0]}")/.." && pwd)"
S="/tmp/scr_$SID"
rm -rf "$S"; mkdir -p "$S"
git -C /repo archive HEAD | tar -x -C "$S"
cd "$S"
T() { PYTHONPATH="$S" /venv/bin/python -m pytest -p no:cacheprovider --timeout=900 --continue-on-collection-errors -q 2>&1 | tail -1; }
D() { PYTHONPATH="$S" timeout 600 /venv/bin/python "$OUT/demo.py" >"$OUT/demo_$1.txt" 2>&1; echo $?; }
if [ "${4:-}" != "--check-only" ]; then
  d0=$(D pristine)
fi
git apply --check "$OUT/patch.diff" 2>/dev/null || { echo "$SID patch does not apply"; rm -rf "$S"; exit 0; }
git apply "$OUT/patch.diff"
if [ "${4:-}" != "--check-only" ]; then
  t1=$(T); d1=$(D mutant)
  echo "$SID demo_pristine=$d0 demo_mutant=$d1 tests: $t1" > "$OUT/confirm.txt"
fi
mkdir -p "$OUT/ev" "$OUT/rp"
( cd "$HERE" && VF_REPO="$S" VF_EVIDENCE_DIR="$OUT/ev" VF_REPLAY_DIR="$OUT/rp" VERIF_SEED="${VERIF_SEED:-1}" ./vf check "$P" --tier quick >"$OUT/check.log" 2>&1; echo "exit=$?" >>"$OUT/check.log" )
ex=$(tail -1 "$OUT/check.log")
nv=$(grep -c '^VIOLATION' "$OUT/check.log")
ni=$(grep '^VIOLATION' "$OUT/check.log" | grep -c no-failing-input-found)
echo "$(cat "$OUT/confirm.txt" 2>/dev/null) | check $ex violations=$nv no_input=$ni"
rm -rf "$S"
