"""Bounded native checks for the configuration round trip (C20) and determinism of generation (C17).
Every rendering runs in a fresh interpreter (naunet keeps class-level state) with a chosen PYTHONHASHSEED."""
from __future__ import annotations
import contextlib, hashlib, io, json, os, re, shutil, subprocess, sys, tempfile
from pathlib import Path

HERE = os.path.dirname(os.path.dirname(os.path.abspath(__file__)))

KIDA_LINES = [
    "C          CH                     H          C2                                            2.400e-10  0.000e+00  0.000e+00 2.00e+00 1.00e+02 logn  4     10    300  3  4894 1  1",
    "H          C2                     C          CH                                            4.670e-10  5.000e-01  3.040e+04 2.00e+00 0.00e+00 logn  4     10    800  3  6599 1  1",
    "H          H                      H2                                                       1.000e-17  5.000e-01  0.000e+00 2.00e+00 0.00e+00 logn  4     10    800  3  7000 1  1",
]
UCL_LINES = [
    "H,H,NAN,H2,NAN,NAN,NAN,1.00e-17,0.50,0.0,10,41000",
    "CO,CRP,NAN,C,O,NAN,NAN,5.00e+00,0.00,0.0,10,41000",
    "HCL,PHOTON,NAN,H,CL,NAN,NAN,1.70e-09,0.00,2.0,10,41000",
    "CO,FREEZE,NAN,#CO,NAN,NAN,NAN,1.00e+00,0.00,0.0,10,41000",
    "HCL,FREEZE,NAN,#HCL,NAN,NAN,NAN,1.00e+00,0.00,0.0,10,41000",
    "#CO,THERM,NAN,CO,NAN,NAN,NAN,1.00e+00,0.00,0.0,10,41000",
    "#HCL,THERM,NAN,HCL,NAN,NAN,NAN,1.00e+00,0.00,0.0,10,41000",
    "#CO,DESCR,NAN,CO,NAN,NAN,NAN,1.00e+00,0.00,0.0,10,41000",
]
KROME_A = ["@format:idx,R,R,P,Tmin,Tmax,rate", "@common:user_crate", "@var:kk = 1.0d-3*Tgas", "1,H,H,H2,NONE,NONE,kk*user_crate", "2,H2,E,H,NONE,NONE,2.0d-9"]
KROME_B = ["@format:idx,R,R,P,Tmin,Tmax,rate", "1,C,H,CH,10,1d4,1.0d-10*(Tgas/3d2)**(0.5)"]
KROME_E = KROME_B + ["2,CH,E,C,10,1d4,3.0d-10", "3,H,E,H,NONE,NONE,2.0d-9"]

SPECS = {
    "minimal-modifiers": dict(files={"net.kida": KIDA_LINES}, formats=["kida"], elements=["H", "C"], pseudo=[],
                              rate_modifier={"6599": "0.0", "4894": "1.0e-10", "7000": "2.5e-17"},      # given in no particular order
                              ode_modifier=[[("C", "-1.5e-17", ["H"])], [("H", "2.0e-17", ["C2"]), ("CH", "0.5e-17", ["C"])], [("C", "0.25e-17", ["CH"])],
                                            [("H2", "1.0e-18", ["H", "H"]), ("H", "-2.0e-18", ["H", "H"])]],
                              extra=["He"] if False else [], solver=("cvode", "cpu", "dense")),
    "uclchem-replacement-binding": dict(files={"net.ucl": UCL_LINES}, formats=["uclchem"], elements=["H", "C", "O", "CL", "E"], pseudo=["CRP", "PHOTON"],
                                        replacement={"CL": "Cl", "E": "e"}, binding={"#HCL": 4321.5}, yields={"#CO": 0.01}, grain_model="rr07x",
                                        extra=["H2"], solver=("cvode", "cpu", "sparse")),
    # a module named under `loads` registers species data (the documented way to bring user tables into a project): its values are in
    # force for every species the configuration's own tables do not mention
    "loads-module-registers-data": dict(files={"net.ucl": UCL_LINES}, formats=["uclchem"], elements=["H", "C", "O", "CL", "E"], pseudo=["CRP", "PHOTON"],
                                        replacement={"CL": "Cl", "E": "e"}, binding={"#HCL": 4321.5}, yields={}, grain_model="rr07x",
                                        loads_module={"binding": {"#CO": 1575.25}, "yields": {"#CO": 0.0025}}, solver=("cvode", "cpu", "dense")),
    # photon yields given without any binding energy (each table reaches the project file on its own)
    "yields-without-binding": dict(files={"net.ucl": UCL_LINES + ["#CO,DEUVCR,NAN,CO,NAN,NAN,NAN,1.00e+00,0.00,0.0,10,41000"]}, formats=["uclchem"],
                                   elements=["H", "C", "O", "CL", "E"], pseudo=["CRP", "PHOTON"], replacement={"CL": "Cl", "E": "e"}, binding={}, yields={"#CO": 0.0027},
                                   grain_model="rr07x", solver=("cvode", "cpu", "dense")),
    "bulk-prefix": dict(files={"net.kida": KIDA_LINES}, formats=["kida"], elements=["H", "C"], pseudo=[], bulk_prefix="&", surface_prefix="#",
                        solver=("odeint", "cpu", "rosenbrock4")),
    "allowed-cooling": dict(files={"net.kida": KIDA_LINES}, formats=["kida"], elements=["H", "C", "He", "e"], pseudo=[], allowed=["H", "H2", "C", "CH", "C2"],
                            extra=["H"], cooling=[], solver=("cvode", "cpu", "dense")),
    "separator-in-modifier": dict(files={"net.kida": KIDA_LINES}, formats=["kida"], elements=["H", "C"], pseudo=[],
                                  rate_modifier={"4894": "1.0e-10 * pow(Tgas, 0.5)"}, solver=("cvode", "cpu", "dense")),
}


def quiet(f, *a, **k):
    buf = io.StringIO()
    with contextlib.redirect_stdout(buf), contextlib.redirect_stderr(buf):
        return f(*a, **k)


def expected_ode(spec):
    out = {}
    for group in spec.get("ode_modifier", []):
        for sp, fact, deps in group:
            e = out.setdefault(sp, {"factors": [], "reactants": []})
            e["factors"].append(fact)
            e["reactants"].append(list(deps))
    return out


def child_cli(workdir, spec):
    from cleo.application import Application
    from cleo.testers.command_tester import CommandTester
    from naunet.console.commands import InitCommand, RenderCommand
    app = Application()
    app.add(InitCommand())
    app.add(RenderCommand())
    solver, device, method = spec["solver"]
    q = lambda s: "'" + s + "'"
    lm = spec.get("loads_module")
    if lm:
        with open(os.path.join(workdir, "userdata.py"), "w") as f:
            f.write("from naunet.chemistrydata import update_binding_energy, update_photon_yield\n"
                    f"update_binding_energy({lm['binding']!r})\nupdate_photon_yield({lm['yields']!r})\n")
    opts = [
        "--name=vfproj", "--description='d'", "--loading=" + ("userdata.py" if lm else "''"),
        f"--surface-prefix={spec.get('surface_prefix', '#')}", f"--bulk-prefix={spec.get('bulk_prefix', '@')}",
        "--elements=" + q(",".join(spec["elements"])), "--pseudo-elements=" + q(",".join(spec["pseudo"])),
        "--element-replacement=" + q(",".join(f"{k}:{v}" for k, v in spec.get("replacement", {}).items())),
        "--allowed-species=" + q(",".join(spec.get("allowed", []))), "--extra-species=" + q(",".join(spec.get("extra", []))),
        "--binding=" + q(",".join(f"{k}={v}" for k, v in spec.get("binding", {}).items())),
        "--yield=" + q(",".join(f"{k}={v}" for k, v in spec.get("yields", {}).items())),
        "--grain-symbol=GRAIN", "--grain-model=" + q(spec.get("grain_model", "")),
        "--network-files=" + q(",".join(spec["files"])), "--file-formats=" + q(",".join(spec["formats"])),
        "--heating=''", "--cooling=" + q(",".join(spec.get("cooling", []))), "--shielding=''",
    ]
    if spec.get("rate_modifier"):
        opts.append("--rate-modifier=" + q(",".join(f"{k}:{v}" for k, v in spec["rate_modifier"].items())))
    for group in spec.get("ode_modifier", []):
        opts.append("--ode-modifier=" + q("".join(f"{s}:{f},[{' '.join(d)}];" for s, f, d in group)))
    opts += [f"--solver={solver}", f"--device={device}", f"--method={method}", "--render", "--render-force"]
    os.chdir(workdir)
    rc = quiet(CommandTester(app.find("init")).execute, " ".join(opts))
    if rc != 0:
        raise SystemExit(f"init --render returned {rc}")


def child_api(workdir, spec):
    from naunet.network import Network
    from naunet.species import Species
    from naunet.templateloader import TemplateLoader
    from naunet.chemistrydata import update_binding_energy, update_photon_yield
    os.chdir(workdir)
    kw = {"grain_symbol": "GRAIN", "surface_prefix": spec.get("surface_prefix", "#"), "bulk_prefix": spec.get("bulk_prefix", "@")}
    Species._replacement = dict(spec.get("replacement", {}))
    Species.set_known_elements(list(spec["elements"]))
    Species.set_known_pseudoelements(list(spec["pseudo"]))
    if spec.get("loads_module"):
        update_binding_energy(dict(spec["loads_module"]["binding"]))
        update_photon_yield(dict(spec["loads_module"]["yields"]))
    update_binding_energy({Species(k, **kw).name: v for k, v in spec.get("binding", {}).items()})
    update_photon_yield({Species(k, **kw).name: v for k, v in spec.get("yields", {}).items()})
    net = Network(filelist=list(spec["files"]), fileformats=list(spec["formats"]), elements=list(spec["elements"]),
                  pseudo_elements=list(spec["pseudo"]), allowed_species=list(spec.get("allowed", [])),
                  required_species=list(spec.get("extra", [])), species_kwargs=kw, grain_model=spec.get("grain_model", ""),
                  heating=[], cooling=list(spec.get("cooling", [])), shielding={},
                  rate_modifier={int(k): v for k, v in spec.get("rate_modifier", {}).items()}, ode_modifier=expected_ode(spec))
    for sub in ("include", "src", "python"):
        os.makedirs(sub, exist_ok=True)
    solver, device, method = spec["solver"]
    quiet(TemplateLoader(solver=solver, method=method, device=device).render, "vfproj", net, path=Path(workdir))


def child_history(workdir, spec):
    """C17: optional prelude operations on *other* networks, then render `spec` n times through the API"""
    from naunet.network import Network
    for pre in spec.get("prelude", []):
        d = tempfile.mkdtemp(prefix="vf_pre_")
        try:
            if pre == "custom-elements":
                p = os.path.join(d, "o.kida")
                open(p, "w").write("\n".join(KIDA_LINES) + "\n")
                n = Network(filelist=p, fileformats="kida", elements=["H", "C", "CH"], pseudo_elements=["X"],
                            species_kwargs={"grain_symbol": "DUST", "surface_prefix": "G", "bulk_prefix": "B"})
                quiet(n.to_code, path=d)
            elif pre == "standard-case-elements":
                # another network with the same elements written in standard case (He, Mg), rendered first
                from .native_net import AR, enc_kida
                p = os.path.join(d, "o.kida")
                rs = [(["He+", "H"], ["He", "H+"]), (["Mg", "H+"], ["Mg+", "H"]), (["He+", "Mg"], ["He", "Mg+"])]
                open(p, "w").write("\n".join(enc_kida(AR(r, q, 1.0e-9, 0.0, 0.0, 10, 1000, k + 1, 3)) for k, (r, q) in enumerate(rs)) + "\n")
                n = Network(filelist=p, fileformats="kida", elements=["H", "He", "Mg", "e"], pseudo_elements=[])
                quiet(n.to_code, path=d)
            elif pre == "krome-directives":
                p = os.path.join(d, "o.krome")
                open(p, "w").write("\n".join(KROME_A) + "\n")
                n = Network(filelist=p, fileformats="krome")
                quiet(n.to_code, path=d)
            elif pre == "binding-energies":
                from naunet.chemistrydata import update_binding_energy
                update_binding_energy({"#CO": 777.0})
            elif pre in ("edit-after-render", "patch-first", "edit-after-render-same-loader", "interleaved-load"):
                pass        # handled below: the target network itself is rendered, edited and rendered again
            elif pre == "failed-krome":
                p = os.path.join(d, "bad.krome")
                open(p, "w").write("\n".join(KROME_A[:3] + ["1,H,Qx,H2,NONE,NONE,1.0"]) + "\n")
                try:
                    Network(filelist=p, fileformats="krome")
                except Exception:
                    pass
        finally:
            shutil.rmtree(d, ignore_errors=True)
    os.chdir(workdir)
    for k in range(spec.get("repeat", 1)):
        out = os.path.join(workdir, f"r{k}")
        os.makedirs(out)
        kw = {}
        if spec.get("elements") is not None:
            kw["elements"], kw["pseudo_elements"] = list(spec["elements"]), list(spec["pseudo"])
        if spec.get("binding"):
            # the project's own user table: registered before the network is built, as the render command does
            from naunet.chemistrydata import update_binding_energy as _ube
            _ube(dict(spec["binding"]))
        late = list(spec.get("late_required", []))
        same_loader = "edit-after-render-same-loader" in spec.get("prelude", [])
        edit = "edit-after-render" in spec.get("prelude", []) or same_loader
        if late and not edit:
            kw["required_species"] = late
        if "interleaved-load" in spec.get("prelude", []) and kw.get("elements") is not None:
            # the network is created first, another network with the same element list but other pseudo-elements is built in between,
            # then the files are loaded into the first one
            from naunet.reactions.reaction import Reaction
            from naunet.reactiontype import ReactionType
            n = Network(grain_model=spec.get("grain_model", ""), **kw)
            other = Network([Reaction(["H", "H"], ["H2"], alpha=1.0, reaction_type=ReactionType.GAS_TWOBODY)], elements=list(kw["elements"]), pseudo_elements=list(spec.get("interleaved_pseudo", ["X"])))
            _ = other.species
            for f, fmt in zip(spec["files"], spec["formats"]):
                n.add_reaction_from_file(os.path.join(workdir, f), fmt)
        else:
            n = Network(filelist=[os.path.join(workdir, f) for f in spec["files"]], fileformats=list(spec["formats"]),
                        grain_model=spec.get("grain_model", ""), **kw)
        solver, device, method = spec["solver"]
        from naunet.templateloader import TemplateLoader
        final_loader = TemplateLoader(solver=solver, method=method, device=device)
        if "patch-first" in spec.get("prelude", []):
            # a simulation-code patch rendered from the same network object first must leave no trace in the sources rendered afterwards
            scratch = tempfile.mkdtemp(prefix="vf_patch_first_")
            try:
                from naunet.patches import patch_factory
                quiet(patch_factory("enzo", device).render, n, path=Path(scratch))
            except Exception:
                pass
            finally:
                shutil.rmtree(scratch, ignore_errors=True)
        if edit:
            # the same description reached through an edit of the network object after it was rendered once
            scratch = tempfile.mkdtemp(prefix="vf_pre_render_")
            try:
                quiet((final_loader if same_loader else TemplateLoader(solver=solver, method=method, device=device)).render, "vfproj", n, path=Path(scratch))
            finally:
                shutil.rmtree(scratch, ignore_errors=True)
            n.required_species = late
        quiet(final_loader.render, "vfproj", n, path=Path(out))


def collect(root):
    out = {}
    for sub in ("include", "src", "python"):
        for p in sorted((Path(root) / sub).rglob("*")):
            if p.is_file():
                t = p.read_text(errors="replace")
                t = re.sub(r"\d\d\.\d\d", "YY.MM", t) if "version" in t.lower() else t
                out[str(p.relative_to(root))] = t
    return out


def tree_hash(root):
    h = hashlib.sha256()
    for k, v in collect(root).items():
        h.update(k.encode())
        h.update(v.encode())
    return h.hexdigest()


def run_child(mode, workdir, spec, seed="0"):
    env = dict(os.environ, PYTHONHASHSEED=str(seed), TQDM_DISABLE="1")
    try:
        return subprocess.run([sys.executable, "-m", "contracts.native_cfg", mode, str(workdir), json.dumps(spec)],
                              capture_output=True, text=True, env=env, cwd=HERE, timeout=900, stdin=subprocess.DEVNULL)
    except subprocess.TimeoutExpired as e:
        return subprocess.CompletedProcess(e.cmd, 124, stdout="", stderr="child timed out after 900 s")


def write_files(d, spec):
    for name, lines in spec["files"].items():
        open(os.path.join(d, name), "w").write("\n".join(lines) + "\n")


def plain(o):
    if isinstance(o, dict):
        return {str(k): plain(v) for k, v in o.items()}
    if isinstance(o, (list, tuple)):
        return [plain(v) for v in o]
    if isinstance(o, (int, float, bool)):
        return o
    return str(o)


def oracle_c20(tier, seed, only=None, prop="C20"):
    import tomlkit
    viol, cases = [], 0
    for label, spec in SPECS.items():
        if only is not None and label not in only:
            continue

        def V(what):
            viol.append({"property": prop, "case": label, "what": what, "signature": f"{prop}:{label}:{what.split(':')[0]}"})
        tmp = tempfile.mkdtemp(prefix="vf_c20_")
        try:
            dirs = {}
            failed = False
            for mode in ("cli", "api"):
                d = os.path.join(tmp, mode)
                os.makedirs(d)
                write_files(d, spec)
                p = run_child("--" + mode, d, spec)
                dirs[mode] = d
                if p.returncode != 0:
                    V(f"{mode}-path-fails: " + (p.stderr.strip().splitlines() or ["?"])[-1][:300])
                    failed = True
            cases += 1
            if failed:
                continue
            cfg = plain(tomlkit.loads(open(os.path.join(dirs["cli"], "naunet_config.toml")).read()))
            chem = cfg["chemistry"]
            want = {
                "elements": (chem["element"]["elements"], spec["elements"]),
                "pseudo_elements": (chem["element"]["pseudo_elements"], spec["pseudo"]),
                "replacement": (chem["element"]["replacement"], spec.get("replacement", {})),
                "surface": (chem["symbol"]["surface"], spec.get("surface_prefix", "#")),
                "bulk": (chem["symbol"]["bulk"], spec.get("bulk_prefix", "@")),
                "grain": (chem["symbol"]["grain"], "GRAIN"),
                "allowed": (chem["species"]["allowed"], spec.get("allowed", [])),
                "required": (chem["species"]["required"], spec.get("extra", [])),
                "binding_energy": (chem["species"]["binding_energy"], spec.get("binding", {})),
                "photon_yield": (chem["species"]["photon_yield"], spec.get("yields", {})),
                "files": (chem["network"]["files"], list(spec["files"])),
                "formats": (chem["network"]["formats"], spec["formats"]),
                "grain_model": (chem["grain"]["model"], spec.get("grain_model", "")),
                "cooling": (chem["thermal"]["cooling"], spec.get("cooling", [])),
                "rate_modifier": (chem["rate_modifier"], spec.get("rate_modifier", {})),
                "ode_modifier": (chem["ode_modifier"], expected_ode(spec)),
                "solver": ([cfg["ODEsolver"][k] for k in ("solver", "device", "method")], list(spec["solver"])),
            }
            for k, (got, exp) in want.items():
                if got != exp:
                    V(f"toml-{k}: configured {exp!r}, file holds {got!r}")
            a, b = collect(dirs["cli"]), collect(dirs["api"])
            if set(a) != set(b):
                V(f"sources-file-set: {sorted(set(a) ^ set(b))[:5]}")
            else:
                diff = [k for k in a if a[k] != b[k]]
                if diff:
                    V(f"sources-differ: {diff[:6]}")
        finally:
            shutil.rmtree(tmp, ignore_errors=True)
    if only is None:
        # several project files written by one process: each holds what ITS configuration says, nothing of an earlier one
        try:
            from naunet.configuration import BaseConfiguration
            docs = []
            for k, kw in enumerate([dict(rate_modifier={"4894": "1.0e-10"}, ode_modifier={"H": {"factors": ["f1"], "reactants": [["C"]]}}, element=["H", "C"],
                                         binding_energy={"#CO": 1300.0}, shielding={"CO": "VB88Table"}, heating=["x"], allowed_species=["H"]),
                                    dict(), dict(rate_modifier={"7": "2.0"}, element=["O"])]):
                docs.append((kw, tomlkit.loads(BaseConfiguration(f"p{k}", **kw).content)))
            cases += 1
            for k, (kw, doc) in enumerate(docs):
                chem = doc["chemistry"]
                got = {"rate_modifier": {str(a): str(b) for a, b in chem["rate_modifier"].items()}, "ode_modifier": plain(chem["ode_modifier"]),
                       "element": list(chem["element"]["elements"]), "binding_energy": {a: float(b) for a, b in chem["species"]["binding_energy"].items()},
                       "shielding": dict(chem["shielding"]), "heating": list(chem["thermal"]["heating"]), "allowed_species": list(chem["species"]["allowed"])}
                want = {"rate_modifier": {str(a): str(b) for a, b in kw.get("rate_modifier", {}).items()}, "ode_modifier": kw.get("ode_modifier", {}), "element": kw.get("element", []),
                        "binding_energy": kw.get("binding_energy", {}), "shielding": kw.get("shielding", {}), "heating": kw.get("heating", []), "allowed_species": kw.get("allowed_species", [])}
                for f_ in want:
                    if got[f_] != want[f_]:
                        viol.append({"property": prop, "case": "several-project-files", "what": f"project-file-{k}-{f_}: configuration {k} has {want[f_]!r}, its project file holds {got[f_]!r} (configurations written earlier by the same process: {k})",
                                     "signature": f"{prop}:several-project-files:{f_}"})
        except Exception as e:
            viol.append({"property": prop, "case": "several-project-files", "what": f"raises: {type(e).__name__}: {e}", "signature": f"{prop}:several-project-files:raises"})
        # export of a partly indexed network: the index a rate-modifier key refers to still names the same reaction in the exported project
        tmpx = tempfile.mkdtemp(prefix="vf_c20x_")
        try:
            from naunet.network import Network
            from naunet.reactions.reaction import Reaction
            from naunet.reactiontype import ReactionType as RT
            from naunet.species import Species
            Species.reset()
            rs = [Reaction(["C", "H"], ["CH"], alpha=1.0, reaction_type=RT.GAS_TWOBODY, idxfromfile=1), Reaction(["CH", "H"], ["C", "H2"], alpha=2.0, reaction_type=RT.GAS_TWOBODY, idxfromfile=2),
                  Reaction(["H2", "C"], ["CH", "H"], alpha=3.0, reaction_type=RT.GAS_TWOBODY, idxfromfile=3), Reaction(["CH", "C"], ["C2", "H"], alpha=4.0, reaction_type=RT.GAS_TWOBODY)]
            net = Network(rs, rate_modifier={2: "9.5"})
            target = f"{rs[1]:minimal}"
            try:
                quiet(net.export, "proj", prefix=tmpx, overwrite=True)
            except Exception:
                pass        # rendering of the test programs may fail offline; the files checked below are written before that
            rf, cf = os.path.join(tmpx, "proj", "reactions.naunet"), os.path.join(tmpx, "proj", "naunet_config.toml")
            if os.path.exists(rf) and os.path.exists(cf):
                cases += 1
                Species.reset()
                back = Network(filelist=rf, fileformats="naunet")
                keys = [int(k) for k in tomlkit.loads(open(cf).read())["chemistry"]["rate_modifier"]]
                hit = [f"{r:minimal}" for r in back.reaction_list if r.idxfromfile in keys]
                if keys != [2] or hit != [target]:
                    viol.append({"property": prop, "case": "export-partly-indexed", "what": f"export-modifier-target: the project file keys the modifier by {keys}; in the exported reactions.naunet that index belongs to {hit}, in the network it was {target}",
                                 "signature": f"{prop}:export-partly-indexed:export-modifier-target"})
        except Exception as e:
            viol.append({"property": prop, "case": "export-partly-indexed", "what": f"raises: {type(e).__name__}: {e}", "signature": f"{prop}:export-partly-indexed:raises"})
        finally:
            shutil.rmtree(tmpx, ignore_errors=True)
        c2, v2 = oracle_examples(tier, seed)
        cases += c2
        viol.extend(v2)
    return {"cases": cases, "distinct": cases, "violations": viol, "samples": [{"cases": list(SPECS) + ["the six bundled examples through `naunet example --dry` + `naunet init`"]}],
            "bound": f"the 6 bundled examples (module data -> option string -> project file, every field compared) and {len(SPECS)} configurations (modifiers given several times, replacement+binding+yield+grain model, custom bulk prefix, allowed/extra species, separator inside a modifier) each rendered by `naunet init --render` and by the API in fresh interpreters",
            "rule": "one case per configuration: TOML compared field by field, source trees compared byte by byte"}


C17_SPECS = {
    "kida": dict(files={"net.kida": KIDA_LINES}, formats=["kida"], elements=None, pseudo=None, solver=("cvode", "cpu", "sparse"), late_required=["C2H", "CH2"]),
    "krome": dict(files={"net.krome": KROME_B}, formats=["krome"], elements=None, pseudo=None, solver=("cvode", "cpu", "dense")),
    "uclchem": dict(files={"net.ucl": UCL_LINES}, formats=["uclchem"], elements=["H", "C", "O", "Cl", "E"], pseudo=["CRP", "PHOTON"],
                    grain_model="rr07x", solver=("odeint", "cpu", "rosenbrock4")),
}
def _leeds_grain_lines():
    from .native_net import AR, enc_leeds
    rs = [(["GRAIN0", "e-"], ["GRAIN-"], 20), (["C+", "GRAIN-"], ["C", "GRAIN0"], 6), (["H+", "GRAIN-"], ["H", "GRAIN0"], 6),
          (["GRAIN0", "H+"], ["GRAIN+", "H"], 1), (["GRAIN+", "e-"], ["GRAIN0"], 1), (["C", "H"], ["CH"], 1), (["CH", "H+"], ["C+", "H2"], 1)]
    return [enc_leeds(AR(r, p, 1.0e-9 * (k + 1), 0.0, 0.0, 10, 1000, k + 1, code)) for k, (r, p, code) in enumerate(rs)]


# a network with the electron (the species whose alias a simulation-code patch spells differently)
C17_SPECS["krome-electron"] = dict(files={"net.krome": KROME_E}, formats=["krome"], elements=None, pseudo=None, solver=("cvode", "cpu", "dense"),
                                   skip_preludes=("custom-elements",))
# several grain species in one group: the grain density is a sum over them, whose order must not follow set iteration
C17_SPECS["leeds-grains"] = dict(files={"net.leeds": _leeds_grain_lines()}, formats=["leeds"], elements=None, pseudo=None, grain_model="hh93",
                                 solver=("cvode", "cpu", "sparse"), skip_preludes=("custom-elements",))
# a KIDA network with its own tables whose cosmic-ray marker (CRP) would read as pseudo-element CR + phosphorus under another
# network's pseudo-element list
C17_SPECS["kida-own-tables"] = dict(files={"net.kida": KIDA_LINES + [
    "H2         CRP                    H          H                                             4.600e-01  0.000e+00  0.000e+00 2.00e+00 0.00e+00 logn  1     10    300  1  7001 1  1",
    "P          H                      PH                                                       1.000e-17  0.000e+00  0.000e+00 2.00e+00 0.00e+00 logn  4     10    800  3  7002 1  1"]},
    formats=["kida"], elements=["H", "C", "O", "P", "e"], pseudo=["CRP", "CR", "Photon"], solver=("cvode", "cpu", "dense"), interleaved_pseudo=["CR", "Photon"])
# several user parameters declared on one @common line: their order in the generated data structure is the order of the file, under
# every hash seed
C17_SPECS["krome-commons"] = dict(files={"net.krome": ["@format:idx,R,R,P,Tmin,Tmax,rate", "@common:user_zeta,user_av,user_crate,user_dgr,user_tdust,user_h2frac",
                                                       "1,C,H,CH,10,1d4,1.0d-10*user_zeta*user_av", "2,CH,H,C,NONE,NONE,2.0d-9*user_crate*user_dgr/user_tdust*user_h2frac"]},
                                  formats=["krome"], elements=None, pseudo=None, solver=("cvode", "cpu", "dense"), skip_preludes=("custom-elements",))
# a project that declares its own binding energy for a species another project of the same process declared differently: the later
# declaration is the one in force (unlike the known finding, where the later project declares nothing and inherits)
C17_SPECS["uclchem-own-binding"] = dict(files={"net.ucl": [l.replace("HCL", "HCl").replace(",CL,", ",Cl,") for l in UCL_LINES]}, formats=["uclchem"],
                                        elements=["H", "C", "O", "Cl", "E"], pseudo=["CRP", "PHOTON"], grain_model="rr07x", solver=("cvode", "cpu", "dense"),
                                        binding={"#CO": 1300.0, "#HCl": 5174.0}, only_preludes=("binding-energies",))
def _upper_lines():
    from .native_net import AR, enc_kida
    rs = [(["HE+", "H"], ["HE", "H+"]), (["MG", "H+"], ["MG+", "H"]), (["HE+", "MG"], ["HE", "MG+"]), (["H+", "E"], ["H"])]
    return [enc_kida(AR(r, q, 1.0e-9 * (k + 1), 0.0, 0.0, 10, 1000, k + 1, 3)) for k, (r, q) in enumerate(rs)]


# element symbols written in capitals (HE, MG): the identifiers generated for them do not depend on whether a network with the
# standard spelling of the same elements was rendered earlier in the process
C17_SPECS["kida-uppercase"] = dict(files={"net.kida": _upper_lines()}, formats=["kida"], elements=["H", "HE", "MG", "E"], pseudo=[], solver=("cvode", "cpu", "dense"),
                                   only_preludes=("standard-case-elements",))
C17_SPECS["uclchem"]["files"] = {"net.ucl": [l.replace("HCL", "HCl").replace(",CL,", ",Cl,") for l in UCL_LINES]}


def oracle_c17(tier, seed):
    viol, cases = [], 0
    seeds = ["0", "1", "7"] if tier == "quick" else ["0", "1", "2", "3", "7", "11", "42", "1234"]
    preludes = [[], ["custom-elements"], ["krome-directives"], ["binding-energies"], ["failed-krome", "krome-directives"], ["failed-krome"], ["edit-after-render"], ["patch-first"], ["edit-after-render-same-loader"], ["interleaved-load"], ["standard-case-elements"]]
    for label, base in C17_SPECS.items():
        ref = None
        for hs in seeds:
            for pre in (preludes if hs == seeds[0] else [[]]):
                if base.get("only_preludes") is not None and pre and not all(x in base["only_preludes"] for x in pre):
                    continue
                if any(x == "standard-case-elements" and x not in (base.get("only_preludes") or ()) for x in pre):
                    continue      # opt-in prelude (only meaningful for the network that spells the same elements in capitals)
                if any(x in base.get("skip_preludes", ()) for x in pre):
                    continue      # (the leak of another network's element tables is a recorded finding on the kida / krome cases)
                spec = dict(base, prelude=pre, repeat=2 if not pre else 1)
                tmp = tempfile.mkdtemp(prefix="vf_c17_")
                try:
                    write_files(tmp, spec)
                    p = run_child("--history", tmp, spec, seed=hs)
                    cases += 1
                    sig_pre = "+".join(pre) or "fresh"

                    def V(what):
                        viol.append({"property": "C17", "case": label, "hashseed": hs, "prelude": pre, "what": what,
                                     "signature": f"C17:{label}:{what.split(':')[0]}:{sig_pre}"})
                    if p.returncode != 0:
                        V("render-fails: " + (p.stderr.strip().splitlines() or ["?"])[-1][:300])
                        continue
                    hashes = [tree_hash(os.path.join(tmp, f"r{k}")) for k in range(spec["repeat"])]
                    if len(set(hashes)) != 1:
                        V("repeated-rendering-differs: second rendering in the same process differs")
                    if ref is None:
                        ref = (hashes[0], collect(os.path.join(tmp, "r0")))
                    elif hashes[0] != ref[0]:
                        cur = collect(os.path.join(tmp, "r0"))
                        diff = [k for k in cur if cur.get(k) != ref[1].get(k)][:5]
                        V(f"{'history' if pre else 'hash-seed'}-dependence: files {diff} differ from the fresh seed-{seeds[0]} rendering")
                finally:
                    shutil.rmtree(tmp, ignore_errors=True)
    return {"cases": cases, "distinct": cases, "violations": viol, "samples": [{"seeds": seeds, "preludes": preludes}],
            "bound": f"{len(C17_SPECS)} networks x {len(seeds)} hash seeds, plus 9 preludes (an Enzo patch rendered from the network first; the network itself rendered once and then edited through a setter, with a fresh and with the same loader object; the files loaded into a network created before another network with the same elements but other pseudo-elements was built; other network with custom element lists/prefixes, KROME directives, user binding energies, a KROME file that fails half-way) and repeated rendering",
            "rule": "each (network, seed, prelude) rendering in a fresh interpreter is one case; sha256 of include/ src/ python/"}


def oracle_c13_cli(tier, seed):
    """C13: the modifiers given on the command line reach the rendered sources exactly as through the API"""
    return oracle_c20(tier, seed, only=("minimal-modifiers",), prop="C13")


# ---------------------------------------------------------------- bundled examples: module data -> option string -> project file
def child_examples(workdir, spec):
    """`naunet example --select=N --dry` prints the init command; the same option string (without --render) is run through the real
    `naunet init` and the project file is written as JSON to stdout for the parent to compare with the example module"""
    import importlib, tomlkit
    from cleo.application import Application
    from cleo.testers.command_tester import CommandTester
    from naunet.console.commands import InitCommand, ExampleCommand
    app = Application()
    app.add(InitCommand())
    app.add(ExampleCommand())
    os.chdir(workdir)
    buf = io.StringIO()
    with contextlib.redirect_stdout(buf), contextlib.redirect_stderr(io.StringIO()):
        t = CommandTester(app.find("example"))
        rc = t.execute(f"--select={spec['select']} --dry")
    text = buf.getvalue() + t.io.fetch_output()
    m = re.search(r"naunet init (.*)", text, flags=re.S)
    if rc != 0 or not m:
        raise SystemExit(f"example --dry returned {rc}: {text[-300:]}")
    opts = re.sub(r"\s--render(-force)?\b", " ", " " + m.group(1).strip())
    rc = quiet(CommandTester(app.find("init")).execute, opts.strip(), inputs="no\n" * 8)
    if rc != 0:
        raise SystemExit(f"init returned {rc}")
    cfg = tomlkit.loads(open(os.path.join(workdir, "naunet_config.toml")).read())
    print("CONFIG-JSON:" + json.dumps(plain(cfg)))


def oracle_examples(tier, seed):
    import importlib, re as _re
    viol, cases = [], 0
    picks = {"minimal": 5, "primordial": 8, "deuterium": 12, "cloud": 17, "ism": 20, "empty": 0}
    for name, idx in picks.items():
        mod = importlib.import_module(f"naunet.examples.{name}")
        tmp = tempfile.mkdtemp(prefix="vf_ex_")
        try:
            p = run_child("--examples", tmp, {"select": idx})
            cases += 1

            def V(what):
                viol.append({"property": "C20", "case": f"example-{name}", "what": what, "signature": f"C20:example-{name}:{what.split(':')[0]}"})
            mm = _re.search(r"CONFIG-JSON:(.*)", p.stdout)
            if p.returncode != 0 or not mm:
                V("example-path-fails: " + ((p.stderr.strip().splitlines() or [p.stdout[-200:]])[-1][:300]))
                continue
            cfg = json.loads(mm.group(1))
            chem = cfg["chemistry"]
            want = {
                "elements": (chem["element"]["elements"], list(mod.elements)),
                "pseudo_elements": (chem["element"]["pseudo_elements"], list(mod.pseudo_elements)),
                "replacement": (chem["element"]["replacement"], dict(mod.element_replacement)),
                "allowed": (chem["species"]["allowed"], list(mod.allowed_species)),
                "required": (chem["species"]["required"], list(mod.extra_species)),
                "binding_energy": ({k: float(v) for k, v in chem["species"]["binding_energy"].items()}, {k: float(v) for k, v in mod.binding_energy.items()}),
                "photon_yield": ({k: float(v) for k, v in chem["species"]["photon_yield"].items()}, {k: float(v) for k, v in mod.photon_yield.items()}),
                "files": (chem["network"]["files"], [mod.files] if mod.files else []),
                "formats": (chem["network"]["formats"], [mod.formats] if mod.formats else []),
                "heating": (chem["thermal"]["heating"], list(mod.heating)),
                "cooling": (chem["thermal"]["cooling"], list(mod.cooling)),
                "shielding": (chem["shielding"], dict(mod.shielding)),
                "grain_model": (chem["grain"]["model"], mod.grain_model),
                "rate_modifier": ({str(k): str(v) for k, v in chem["rate_modifier"].items()}, {str(k): str(v) for k, v in mod.rate_modifier.items()}),
                "ode_modifier": ({k: {"factors": [str(f).strip() for f in v["factors"]], "reactants": [list(r) for r in v["reactants"]]} for k, v in chem["ode_modifier"].items()},
                                 {k: {"factors": [str(f).strip() for f in v["factors"]], "reactants": [list(r) for r in v["reactants"]]} for k, v in mod.ode_modifier.items()}),
            }
            for k, (got, exp) in want.items():
                if got != exp:
                    V(f"example-{k}: the example module has {str(exp)[:200]}, the project file holds {str(got)[:200]}")
        finally:
            shutil.rmtree(tmp, ignore_errors=True)
    return cases, viol


if __name__ == "__main__":
    import logging
    logging.disable(logging.CRITICAL)
    mode, wd, spec = sys.argv[1], sys.argv[2], json.loads(sys.argv[3])
    {"--cli": child_cli, "--api": child_api, "--history": child_history, "--examples": child_examples}[mode](wd, spec)
