"""C11: grain-surface rate builders against the dust-model formulae.

Hasegawa, Herbst & Leung (1992), Hasegawa & Herbst (1993) ("hh93", "hh93i" = Walsh et al. 2015 variant):
  accretion        k = opt * alpha * pi rG^2 * n_gr * sqrt(8 kB Tgas / (pi amu A))
  thermal des.     k = opt * cov * nMono * densites * nu0 * exp(-Eb/Tdust),   nu0 = sqrt(2 sites kB Eb / (pi^2 amu A))
  CR des.          k = opt * cov * duty * nMono * densites * (zeta/zism) * nu0 * exp(-Eb/Tcr)
  photodes.        k = opt * cov * (G0*habing*exp(-Av*3.02) + crphot*(zeta/zism)) * Y * nMono * garea      (Y default 1e-3)
  recombination    k = alpha * pi rG^2 n_gr * sqrt(8 kB T/(pi amu A)) * (1 + e^2/(rG kB T)) * (1 + sqrt(2 e^2/(rG kB T + 2 e^2)))
  electron capture k = pi rG^2 sqrt(8 kB T / (pi amu me))
  two-body surface k = kappa * (Rdiff_a + Rdiff_b) * (nMono*densites)^2 / n_gr * cov^2 with tunnelling for H/H2:
                   kappa = max(exp(-Ea/Td), exp(quan*sqrt(mu Ea))), Rdiff = max(thermal hop, tunnelling hop)
  reactive des.    k = opt_rcd * branch * (two-body rate)
Roberts et al. (2007) as implemented in UCLCHEM v1.3 ("rr07", "rr07x"):
  freeze-out       k = 4.57e4 * alpha * gxsec * fr * sqrt(T/A) [* (1 + 16.71e-4/(rG T)) for ions; electrons: no sqrt term]
  photodes.        k = mantabund>1e-30 ? (eb_uvd >= Eb ? opt*4.875e3*gxsec*((zeta/zism)+(G0/uvcreff)*exp(-1.8 Av))*Y/mant : 0) : 0 (Y default 0.1)
  CR des.          k = ... opt*4 pi crdeseff*(zeta/zism)*1.64e-4*gxsec/mant
  H2-form. des.    k = ... opt*h2deseff*H2formation*y[H]/mant
  thermal (rr07x)  k = mantabund>1e-30 ? opt_thd * nu0 * 2 densites * exp(-Eb/Tdust) : 0
Requests a model does not implement are refused (NotImplementedError)."""
from __future__ import annotations
import z3
from pyvc.context import VerifContext
from pyvc.sym import SReal, SStr, Unsupported
from pyvc.interp import PyRaise
from pyvc import cfrag
from pyvc.cfrag import CTypeError, cconst, ufun
from . import laws_gas as L

R = z3.RealSort()
SQRT, EXP, POW = L.SQRT, L.EXP, L.POW
FMAX = ufun("fn:fmax/2", R, R, R)
c = cconst
pi, kerg, amu, meu, echarge = c("pi"), c("kerg"), c("amu"), c("meu"), c("echarge")
Tgas, Tdust, zeta, zeta_cr, zism, G0, Av, nH = c("Tgas"), c("Tdust"), c("zeta"), c("zeta_cr"), c("zism"), c("G0"), c("Av"), c("nH")


def rv(x):
    return z3.RealVal(x)


class GrainCtx(VerifContext):
    def __init__(self, props=()):
        super().__init__(props)
        self.axioms = L.math_axioms()


def make_ctx(props=()):
    return GrainCtx(props)


def _species(name, A, eb=None, yld=None, **kw):
    from naunet.species import Species
    sp = Species(name, **kw)
    sp._massnumber = SReal(A)
    if eb is not None:
        sp._binding_energy = SReal(eb)
    if yld is not None:
        sp._photon_yield = SReal(yld)
    return sp


def cases():
    """(label, grain model, reaction class, reaction type code, reactant names, law(ctx) or None, expected exception)"""
    from naunet.grains.grain import Grain
    from naunet.grains.hh93grain import HH93Grain, HH93IGrain
    from naunet.grains.rr07grain import RR07Grain, RR07XGrain
    from naunet.reactiontype import ReactionType as RT
    out = []
    a = z3.Real("alpha")
    A1, A2, E1, E2, Y1 = z3.Reals("A1 A2 Eb1 Eb2 Y1")

    def hh93(g=""):
        rG, gd = c("rG" + g), c("gdens" + g)
        sites, nMono, cov = c("sites" + g), c("nMono" + g), c("cov" + g)
        densites, garea, unisites = c("densites" + g), c("garea" + g), c("unisites" + g)
        freq, quan, hop = c("freq" + g), c("quan" + g), c("hop" + g)
        nu0 = lambda E, A: SQRT(2 * sites * kerg * E / (pi * pi * amu * A))
        d = {}
        d[RT.GRAIN_FREEZE] = c("opt_frz" + g) * a * pi * rG * rG * gd * SQRT(8 * kerg * Tgas / (pi * amu * A1))
        d[RT.GRAIN_DESORB_THERMAL] = c("opt_thd" + g) * cov * nMono * densites * nu0(c("eb_ALIAS1"), A1) * EXP(-c("eb_ALIAS1") / Tdust)
        d[RT.GRAIN_DESORB_COSMICRAY] = c("opt_crd" + g) * cov * c("duty" + g) * nMono * densites * (zeta_cr / zism) * nu0(c("eb_ALIAS1"), A1) * EXP(-c("eb_ALIAS1") / c("Tcr" + g))
        d[RT.GRAIN_DESORB_PHOTON] = lambda Y: c("opt_uvd" + g) * cov * (G0 * c("habing") * EXP(-Av * rv("3.02")) + c("crphot") * (zeta_cr / zism)) * Y * nMono * garea
        d[RT.GRAIN_ECAPTURE] = pi * rG * rG * SQRT(8 * kerg * Tgas / pi / amu / meu)
        e2 = POW(echarge, 2)
        d[RT.GRAIN_RECOMINE] = lambda Aion: a * pi * rG * rG * gd * SQRT(8 * kerg * Tgas / (pi * amu * Aion)) * (1 + e2 / rG / kerg / Tgas) * \
            (1 + SQRT(2 * e2 / (rG * kerg * Tgas + 2 * e2)))

        def surface(tun1, tun2):
            afreq = freq * SQRT(E1 / A1)
            adiff = afreq * EXP(-E1 * hop / Tdust) / unisites
            aquan = afreq * EXP(quan * SQRT(hop * A1 * E1)) / unisites
            bfreq = freq * SQRT(E2 / A2)
            bdiff = bfreq * EXP(-E2 * hop / Tdust) / unisites
            bquan = bfreq * EXP(quan * SQRT(hop * A2 * E2)) / unisites
            kappa = EXP(-a / Tdust)
            kquan = EXP(quan * SQRT(((A1 * A2) / (A1 + A2)) * a))
            ra = FMAX(adiff, aquan) if tun1 else adiff
            rb = FMAX(bdiff, bquan) if tun2 else bdiff
            kap = FMAX(kappa, kquan) if (tun1 or tun2) else kappa
            return kap * (ra + rb) * POW(nMono * densites, 2) / gd * cov * cov
        d["surface"] = surface
        d["rcd"] = lambda s: c("opt_rcd" + g) * c("branch" + g) * s
        return d

    H = hh93()
    from naunet.reactions.leedsreaction import LEEDSReaction
    from naunet.reactions.uclchemreaction import UCLCHEMReaction
    for model, cls in [("hh93", HH93Grain), ("hh93i", HH93IGrain)]:
        out.append((f"{model}/freeze", cls, LEEDSReaction, RT.GRAIN_FREEZE, ["CO"], H[RT.GRAIN_FREEZE], None))
        out.append((f"{model}/thermal", cls, LEEDSReaction, RT.GRAIN_DESORB_THERMAL, ["GCO"], H[RT.GRAIN_DESORB_THERMAL], None))
        out.append((f"{model}/cosmicray", cls, LEEDSReaction, RT.GRAIN_DESORB_COSMICRAY, ["GCO"], H[RT.GRAIN_DESORB_COSMICRAY], None))
        out.append((f"{model}/photon", cls, LEEDSReaction, RT.GRAIN_DESORB_PHOTON, ["GCO"], H[RT.GRAIN_DESORB_PHOTON], None))
        out.append((f"{model}/ecapture", cls, LEEDSReaction, RT.GRAIN_ECAPTURE, ["e-", "GRAIN0"], H[RT.GRAIN_ECAPTURE], None))
        out.append((f"{model}/recombination", cls, LEEDSReaction, RT.GRAIN_RECOMINE, ["C+", "GRAIN-"], H[RT.GRAIN_RECOMINE](A1), None))
        out.append((f"{model}/recombination-grain-first", cls, LEEDSReaction, RT.GRAIN_RECOMINE, ["GRAIN-", "C+"], H[RT.GRAIN_RECOMINE](A2), None))
        for n1, n2 in [("GH", "GH"), ("GH", "GCO"), ("GCO", "GH2"), ("GCO", "GOH"), ("GH2", "GH")]:
            t1, t2 = n1 in ("GH", "GH2"), n2 in ("GH", "GH2")
            out.append((f"{model}/surface/{n1}+{n2}", cls, LEEDSReaction, RT.SURFACE_TWOBODY, [n1, n2], H["surface"](t1, t2), None))
            out.append((f"{model}/reactive/{n1}+{n2}", cls, LEEDSReaction, RT.GRAIN_DESORB_REACTIVE, [n1, n2], H["rcd"](H["surface"](t1, t2)), None))
        out.append((f"{model}/h2-desorption-not-implemented", cls, LEEDSReaction, RT.GRAIN_DESORB_H2, ["GCO"], None, NotImplementedError))
    # Roberts et al. 2007 / UCLCHEM
    rG, gxsec, fr, mant, mantabund = c("rG"), c("gxsec"), c("fr"), c("mant"), c("mantabund")
    base = rv("4.57e4") * a * gxsec * fr
    ion = 1 + rv("16.71e-4") / (rG * Tgas)

    def guard2(eb_lim, inner):
        return lambda E: z3.If(mantabund > rv("1e-30"), z3.If(eb_lim >= E, inner, rv(0)), rv(0))
    for model, cls in [("rr07", RR07Grain), ("rr07x", RR07XGrain)]:
        out.append((f"{model}/freeze-neutral", cls, UCLCHEMReaction, RT.GRAIN_FREEZE, ["CO"], base * SQRT(Tgas / A1), None))
        out.append((f"{model}/freeze-ion", cls, UCLCHEMReaction, RT.GRAIN_FREEZE, ["HCO+"], base * SQRT(Tgas / A1) * ion, None))
        out.append((f"{model}/freeze-electron", cls, UCLCHEMReaction, RT.GRAIN_FREEZE, ["e-"], base * ion, None))
        phot = lambda Y: c("opt_uvd") * rv("4.875e3") * gxsec * ((zeta / zism) + (G0 / c("uvcreff")) * EXP(-rv("1.8") * Av)) * Y / mant
        out.append((f"{model}/photon", cls, UCLCHEMReaction, RT.GRAIN_DESORB_PHOTON, ["#CO"], ("rr07-photon", phot, c("eb_uvd")), None))
        crd = c("opt_crd") * 4 * pi * c("crdeseff") * (zeta / zism) * rv("1.64e-4") * gxsec / mant
        out.append((f"{model}/cosmicray", cls, UCLCHEMReaction, RT.GRAIN_DESORB_COSMICRAY, ["#CO"], ("guard", guard2(c("eb_crd"), crd)), None))
        h2d = c("opt_h2d") * c("h2deseff") * c("H2formation") * ufun("arr:y", z3.IntSort(), R)(z3.Int("m:IDX_HI")) / mant
        out.append((f"{model}/h2-desorption", cls, UCLCHEMReaction, RT.GRAIN_DESORB_H2, ["#CO"], ("guard", guard2(c("eb_h2d"), h2d)), None))
        if model == "rr07":
            out.append((f"{model}/thermal-not-implemented", cls, UCLCHEMReaction, RT.GRAIN_DESORB_THERMAL, ["#CO"], None, NotImplementedError))
        else:
            th = c("opt_thd") * SQRT(2 * c("sites") * kerg * c("eb_ALIAS1") / (pi * pi * amu * A1)) * 2 * c("densites") * EXP(-c("eb_ALIAS1") / Tgas)
            out.append((f"{model}/thermal", cls, UCLCHEMReaction, RT.GRAIN_DESORB_THERMAL, ["#CO"], z3.If(mantabund > rv("1e-30"), th, rv(0)), None))
        out.append((f"{model}/surface-not-implemented", cls, UCLCHEMReaction, RT.SURFACE_TWOBODY, ["#CO", "#H"], None, (NotImplementedError, ValueError)))
        out.append((f"{model}/recombination-not-implemented", cls, UCLCHEMReaction, RT.GRAIN_RECOMINE, ["C+", "GRAIN-"], None, (NotImplementedError, ValueError)))
    out.append(("base/thermal-not-implemented", Grain, LEEDSReaction, RT.GRAIN_DESORB_THERMAL, ["GCO"], None, NotImplementedError))
    out.append(("base/unknown-type", Grain, LEEDSReaction, RT.GAS_TWOBODY, ["CO"], None, ValueError))
    return out


def expected(law, alias1):
    """the model formula of a case as a term over alpha, A1, A2, Eb1, Eb2, Y1 and the named constants"""
    A1, A2, E1, E2, Y1 = z3.Reals("A1 A2 Eb1 Eb2 Y1")
    want = law
    if isinstance(law, tuple) and law[0] == "rr07-photon":
        # Y: the species' yield, default 0.1 when zero; threshold compares with the species' binding energy
        yv = z3.If(Y1 != 0, Y1, z3.RealVal("0.1"))
        want = z3.If(c("mantabund") > rv("1e-30"), z3.If(law[2] >= E1, law[1](yv), rv(0)), rv(0))
    elif isinstance(law, tuple) and law[0] == "guard":
        want = law[1](E1)
    elif callable(law):
        want = law(z3.If(Y1 != 0, Y1, z3.RealVal("1e-3")))
    return z3.substitute(want, (c("eb_ALIAS1"), c("eb_" + alias1)))


_CASES = None


def entry(it):
    global _CASES
    from naunet.species import Species
    if _CASES is None:
        _CASES = cases()
    label, gcls, rcls, rtype, names, law, exc = _CASES[it.choose(len(_CASES), "case")]
    Species.reset()
    P = ("C11",)
    a = z3.Real("alpha")
    A1, A2, E1, E2, Y1 = z3.Reals("A1 A2 Eb1 Eb2 Y1")
    for f in (A1 > 0, A2 > 0, E1 > 0, E2 > 0, Y1 >= 0, Tgas > 0, Tdust > 0, zism > 0):
        it.assume(f)     # requires: positive mass numbers / binding energies, non-negative yield
    for nm in ("pi", "kerg", "amu", "meu", "echarge", "rG", "gdens", "unisites", "mant", "nH", "uvcreff", "Tcr", "sites",
               "densites", "garea", "gxsec", "nMono", "hop"):
        it.assume(c(nm) > 0)   # requires: physical constants and grain parameters used as divisors are positive
    kw = {"surface_prefix": "G"} if rcls.__name__ == "LEEDSReaction" else {}
    grain = gcls()
    reac = rcls("")
    reac.reaction_type = rtype
    sps = []
    for k, nm in enumerate(names):
        sps.append(_species(nm, [A1, A2][k], eb=[E1, E2][k] if nm.startswith(("G", "#")) and not nm.startswith("GRAIN") else None,
                            yld=Y1 if k == 0 and nm.startswith(("G", "#")) and not nm.startswith("GRAIN") else None, **kw))
    reac.reactants = sps
    reac.alpha = SReal(a)
    reac.beta, reac.gamma = 0.0, 0.0
    if rcls.__name__ == "LEEDSReaction":
        inv = {int(v): k for k, v in rcls.rtype2type.items()}
        reac.rtype = inv.get(int(rtype), 99)
    try:
        # the real path: the reaction's own rateexpr dispatches to the grain model and cleans up fused signs
        if label.startswith("base/") or (rcls.__name__ == "LEEDSReaction" and reac.rtype == 99):
            rate = it.call_function(type(grain).rateexpr, [grain, reac], {})
        else:
            rate = it.call_function(rcls.rateexpr, [reac, grain], {})
    except PyRaise as e:
        if exc is not None and isinstance(e.exc, exc):
            it.prove(z3.BoolVal(True), f"{label}/refused-with-error", P)
            return
        it.fail(f"{label}/no-exception", P, f"{type(e.exc).__name__}: {e.exc}")
        return
    if exc is not None:
        it.fail(f"{label}/refused-with-error", P, f"expected an error, got {rate!r}")
        return
    try:
        v = cfrag.parse_expr(rate)
    except CTypeError as e:
        it.fail(f"{label}/valid-C", P, f"{rate!r}: {e}")
        return
    it.prove(z3.BoolVal(True), f"{label}/valid-C", P, detail=repr(rate))
    # eb_<alias> constants: identify with the species' binding energy symbol used by the law
    alias1 = sps[0].alias if isinstance(sps[0].alias, str) else "?"
    den = cfrag.to_real(v)
    want = expected(law, alias1)
    it.prove(den == want, f"{label}/equals-model-formula", P, detail=repr(rate))


# ---------------------------------------------------------------- species data getters (binding energy, yield)
def entry_getters(it):
    """Contract of Species.binding_energy / Species.photon_yield (getter), for an ice species:
         result == first non-zero of (value set on the species, user table entry for its name, RATE12 entry for its gas name)
                   -> RuntimeError when there is none;   yield: own value, else the user table entry, else 0.0
         frame:  the getter modifies neither the species nor the tables  (a value looked up once must not shadow a later user
                 override - "binding energy incl. user overrides" in the property statement)"""
    from naunet.species import Species
    from naunet import chemistrydata
    P = ("C11",)
    Species.reset()
    which = it.choose(3, "getter")
    if which == 2:
        # Component._create_species(x) for a Species instance x is x itself: the values a caller has set on the object (binding
        # energy, yield, alias) stay attached to the species the reaction holds
        from naunet.component import Component
        sp0 = Species("#CO")
        sp0.binding_energy = 1300.0
        got = it.call_function(Component._create_species, [Component(), sp0], {})
        if got is sp0:
            it.prove(z3.BoolVal(True), "create-species/a-species-instance-is-kept-as-it-is", P)
        else:
            it.fail("create-species/a-species-instance-is-kept-as-it-is", P, f"returned {got!r} (binding energy {getattr(got, '_binding_energy', None)!r}) for the instance carrying 1300.0")
        return
    own_set, user_set, r12_set = it.choose(2, "own"), it.choose(2, "user"), it.choose(2, "rate12")
    E0, Eu, Er = z3.Reals("own_value user_value rate12_value")
    sp = Species("#CO")
    saved = (dict(chemistrydata.user_binding_energy), dict(chemistrydata.rate12_binding_energy), dict(chemistrydata.user_photon_yield))
    try:
        for d in (chemistrydata.user_binding_energy, chemistrydata.user_photon_yield):
            d.clear()
        chemistrydata.rate12_binding_energy.pop(sp.gasname, None)
        attr = "_binding_energy" if which == 0 else "_photon_yield"
        user = chemistrydata.user_binding_energy if which == 0 else chemistrydata.user_photon_yield
        if own_set:
            setattr(sp, attr, SReal(E0))
        if user_set:
            user[sp.name] = SReal(Eu)
        if r12_set and which == 0:
            chemistrydata.rate12_binding_energy[sp.gasname] = SReal(Er)
        before = dict(sp.__dict__)
        tabs_before = [dict(chemistrydata.user_binding_energy), dict(chemistrydata.rate12_binding_energy), dict(chemistrydata.user_photon_yield)]
        getter = (Species.binding_energy if which == 0 else Species.photon_yield).fget
        name = "binding-energy" if which == 0 else "photon-yield"
        cands = ([E0] if own_set else []) + ([Eu] if user_set else []) + ([Er] if (r12_set and which == 0) else [])
        want, none = z3.RealVal(0), z3.BoolVal(True)
        for cnd in reversed(cands):
            want = z3.If(cnd != 0, cnd, want)
            none = z3.And(none, cnd == 0)
        try:
            res = it.call_function(getter, [sp], {})
        except PyRaise as e:
            if which == 0 and isinstance(e.exc, RuntimeError):
                it.prove(none, f"getter/{name}/error-only-when-no-value-is-known", P)
                res = None
            else:
                it.fail(f"getter/{name}/no-exception", P, f"{type(e.exc).__name__}: {e.exc}")
                return
        if res is not None:
            from pyvc.ops import term_of
            if which == 0:
                it.prove(z3.Not(none), f"getter/{name}/value-returned-only-when-one-is-known", P)
            t = term_of(res)
            it.prove((z3.ToReal(t) if z3.is_int(t) else t) == want, f"getter/{name}/first-nonzero-of-own-user-rate12", P, detail=repr(res))
        after = sp.__dict__
        same = set(after) == set(before) and all(after[k] is before[k] for k in before)
        if not same:
            changed = sorted(k for k in set(after) | set(before) if after.get(k) is not before.get(k))
            it.fail(f"getter/{name}/frame-species-not-modified", P, f"the getter changed {changed}")
        else:
            it.prove(z3.BoolVal(True), f"getter/{name}/frame-species-not-modified", P)
        tabs_after = [chemistrydata.user_binding_energy, chemistrydata.rate12_binding_energy, chemistrydata.user_photon_yield]
        if any(set(a) != set(b) or any(a[k] is not b[k] for k in b) for a, b in zip(tabs_after, tabs_before)):
            it.fail(f"getter/{name}/frame-tables-not-modified", P, "a data table was modified by the getter")
        else:
            it.prove(z3.BoolVal(True), f"getter/{name}/frame-tables-not-modified", P)
    finally:
        for d, sv in zip((chemistrydata.user_binding_energy, chemistrydata.rate12_binding_energy, chemistrydata.user_photon_yield), saved):
            d.clear()
            d.update(sv)


def _register():
    from pyvc.units import Unit, register
    from naunet.grains.grain import Grain
    from naunet.grains.hh93grain import HH93Grain
    from naunet.grains.rr07grain import RR07Grain, RR07XGrain
    from naunet.species import Species
    fns = [Grain.rateexpr, Grain.rate_depletion, HH93Grain.rate_depletion, HH93Grain.rate_thermal_desorption,
           HH93Grain.rate_photon_desorption, HH93Grain.rate_cosmicray_desorption, HH93Grain.rate_electron_capture,
           HH93Grain.rate_recombination, HH93Grain._rate_surface, HH93Grain.rate_surface_twobody,
           HH93Grain.rate_reactive_desorption, RR07Grain.rate_depletion, RR07Grain.rate_photon_desorption,
           RR07Grain.rate_cosmicray_desorption, RR07Grain.rate_h2_desorption, RR07XGrain.rate_thermal_desorption,
           Species.binding_energy.fget, Species.photon_yield.fget, Species.massnumber.fget]
    register(Unit("grain_rateexpr", __name__, make_ctx, entry, functions=fns, props=("C11",), timeout_ms=90000))
    register(Unit("species_data_getters", __name__, make_ctx, entry_getters,
                  functions=[Species.binding_energy.fget, Species.photon_yield.fget], props=("C11",)))


_register()
