"""C08 / C16 (deductive part): the element bookkeeping of the species parser, Species._add_element_count(element, count).

Contract (for every count, symbolic; element one of: a regular element already counted / not yet counted, a pseudo element, the
surface prefix, the grain symbol):
  pseudo element                 nothing changes
  surface prefix                 first time: is_surface, surface_group = count, composition unchanged;  second time: RuntimeError
  grain symbol                   first time: is_grain, grain_group = count, composition[grain] += 1;   second time: RuntimeError
  regular element                composition[element] = old + (count if count > 0 else 1)   (every occurrence of a symbol adds up)
  frame                          no other entry of the composition and no other attribute changes
The tokenizer in front of it (regular expressions, longest match with masking) is outside the fragment: bounded oracle only."""
from __future__ import annotations
import z3
from pyvc.context import VerifContext
from pyvc.sym import SInt, Unsupported
from pyvc.interp import PyRaise
from pyvc.ops import term_of

P = ("C08", "C16")


def make_ctx(props=()):
    return VerifContext(props)


CASES = ["regular-present", "regular-absent", "pseudo", "surface-first", "surface-second", "grain-first", "grain-second"]


def entry(it):
    from naunet.species import Species
    Species.reset()
    Species.set_known_elements(["H", "C", "O"])
    Species.set_known_pseudoelements(["CR"])
    case = CASES[it.choose(len(CASES), "case")]
    sp = Species.__new__(Species)
    old_c = z3.Int("old_count_C")
    it.assume(old_c >= 1)
    sp.name = "test"
    sp.element_count = {"C": SInt(old_c), "H": 2} if case != "regular-absent" else {"H": 2}
    sp._surface_prefix, sp._grain_symbol = "#", "GRAIN"
    sp._is_surface, sp._is_grain = case == "surface-second", case == "grain-second"
    sp._surface_group = 0 if case == "surface-second" else None
    sp._grain_group = 0 if case == "grain-second" else None
    count = z3.Int("count")
    it.assume(count >= 0)          # requires: counts read from a name are non-negative integers (isdigit)
    elem = {"regular-present": "C", "regular-absent": "C", "pseudo": "CR", "surface-first": "#", "surface-second": "#",
            "grain-first": "GRAIN", "grain-second": "GRAIN"}[case]
    before = dict(sp.__dict__)
    before_ec = dict(sp.element_count)
    try:
        it.call_function(Species._add_element_count, [sp, elem, SInt(count)], {})
        raised = None
    except PyRaise as e:
        raised = e.exc

    def ok(name, cond, detail=""):
        if cond:
            it.prove(z3.BoolVal(True), f"count/{case}/{name}", P)
        else:
            it.fail(f"count/{case}/{name}", P, detail)
    ec = sp.element_count
    if case in ("surface-second", "grain-second"):
        ok("repeated-symbol-is-refused", isinstance(raised, RuntimeError), f"raised {raised!r}")
        return
    ok("no-exception", raised is None, f"{raised!r}")
    if raised is not None:
        return
    others = {k: v for k, v in ec.items() if k != elem}
    ok("frame-other-elements-untouched", set(others) == set(k for k in before_ec if k != elem) and all(others[k] is before_ec[k] or others[k] == before_ec[k] for k in others), f"{ec!r}")
    changed = sorted(k for k in set(sp.__dict__) | set(before) if k != "element_count" and sp.__dict__.get(k) is not before.get(k) and sp.__dict__.get(k) != before.get(k))
    if case == "pseudo":
        ok("nothing-changes", elem not in ec and not changed, f"{ec!r} {changed}")
    elif case == "surface-first":
        ok("marks-surface-species", sp._is_surface is True and elem not in ec and changed == ["_is_surface", "_surface_group"] or changed == ["_is_surface", "_surface_group"], f"{changed} {ec!r}")
        it.prove(term_of(sp._surface_group) == count, f"count/{case}/group-number-is-the-count", P)
    elif case == "grain-first":
        ok("marks-grain-species", sp._is_grain is True and changed == ["_grain_group", "_is_grain"], f"{changed}")
        it.prove(term_of(sp._grain_group) == count, f"count/{case}/group-number-is-the-count", P)
        it.prove(term_of(ec.get(elem, 0)) == 1, f"count/{case}/grain-counts-once", P)
    else:
        ok("no-attribute-changes", not changed, f"{changed}")
        base = old_c if case == "regular-present" else z3.IntVal(0)
        it.prove(term_of(ec.get(elem, 0)) == base + z3.If(count > 0, count, 1), f"count/{case}/occurrences-add-up", P, detail=repr(ec.get(elem)))


def _register():
    from pyvc.units import Unit, register
    from naunet.species import Species
    register(Unit("species_add_element_count", __name__, make_ctx, entry, functions=[Species._add_element_count], props=("C08", "C16")))


_register()


def entry_mass(it):
    """Species.massnumber: the cached value when there is one, otherwise sum over the composition of count x (protons + neutrons),
    isotopes (D) included, symbols that are no elements (grain) contributing nothing; the result is cached."""
    from naunet.species import Species
    Species.reset()
    Species.set_known_elements(["H", "D", "C", "O", "Si"])
    cached = it.choose(2, "cached") == 1
    sp = Species.__new__(Species)
    sp.name = "test"
    c = {k: z3.Int(f"n_{k}") for k in ("H", "D", "C", "O", "Si")}
    for v in c.values():
        it.assume(v >= 0)
    sp.element_count = {k: SInt(v) for k, v in c.items()}
    sp.element_count["GRAIN"] = 1
    m0 = z3.Real("cached_mass")
    it.assume(m0 > 0)
    from pyvc.sym import SReal
    sp._massnumber = SReal(m0) if cached else 0.0
    PM = ("C08", "C16", "C11")
    try:
        res = it.call_function(Species.massnumber.fget, [sp], {})
    except PyRaise as e:
        it.fail("massnumber/no-exception", PM, f"{type(e.exc).__name__}: {e.exc}")
        return
    t = term_of(res)
    t = z3.ToReal(t) if z3.is_int(t) else t
    if cached:
        it.prove(t == m0, "massnumber/cached-value-returned", PM)
        return
    want = z3.ToReal(c["H"]) * 1 + z3.ToReal(c["D"]) * 2 + z3.ToReal(c["C"]) * 12 + z3.ToReal(c["O"]) * 16 + z3.ToReal(c["Si"]) * 28
    it.prove(t == want, "massnumber/sum-of-count-times-nucleons", PM, detail=repr(res))
    t2 = term_of(sp._massnumber)
    it.prove((z3.ToReal(t2) if z3.is_int(t2) else t2) == want, "massnumber/result-is-cached", PM)


def _register2():
    from pyvc.units import Unit, register
    from naunet.species import Species
    register(Unit("species_massnumber", __name__, make_ctx, entry_mass, functions=[Species.massnumber.fget], props=("C08", "C16", "C11")))


_register2()
