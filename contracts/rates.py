"""Contracts for the rate-statement builder (C06) and the gas-phase rate-expression builders (C05).

_assign_rates is an element-wise map over `reactions`; it is executed on the generic element g of a list of
arbitrary length (pyvc.sym.GList), which covers every list length and every position.
The rateexpr builders are loop free: every path (type x zero-ness of beta/gamma x sign of each coefficient) is
explored, the emitted text must type as a C expression for every coefficient value on that path (no `--`,
no token fusion) and its denotation must equal the published law (contracts/laws_gas.py)."""
from __future__ import annotations
import z3
from pyvc.context import VerifContext
from pyvc.sym import SInt, SReal, SBool, SStr, SObj, GList, Hole, Lit, Unsupported
from pyvc.interp import PyRaise
from pyvc import cfrag
from pyvc.cfrag import CTypeError, cconst
from . import laws_gas as L

I, R, B = z3.IntSort(), z3.RealSort(), z3.BoolSort()

tmin = z3.Function("temp_min", I, R)
tmax = z3.Function("temp_max", I, R)
rexpr = z3.Function("rateexpr_den", I, R)
Tgas = cconst("Tgas")


class RatesCtx(VerifContext):
    def __init__(self, props=()):
        super().__init__(props)
        self.axioms = L.math_axioms()

    def obj_getattr(self, interp, obj, name):
        if obj.cls == "Reaction":
            if name == "temp_min":
                return SReal(tmin(obj.id))
            if name == "temp_max":
                return SReal(tmax(obj.id))
            if name == "grain_group":
                return None
            if name == "rateexpr":
                from pyvc.interp import BoundSym
                return BoundSym(obj, "rateexpr")
        raise Unsupported(f"attribute {obj.cls}.{name}")

    def obj_method(self, interp, obj, name, args, kwargs):
        if obj.cls == "Reaction" and name == "rateexpr":
            # contract of rateexpr (C05/C11): a C expression (any precedence level) denoting the rate coefficient
            return SStr([Hole("code", nt="Expr", den=rexpr(obj.id), extra={"first": "any", "last": "any"})])
        raise Unsupported(f"method {obj.cls}.{name}")


def make_ctx(props=()):
    return RatesCtx(props)


def window(q):
    """the property's window: a bound that is zero or negative means unbounded; Tmin <= T < Tmax"""
    return z3.And(z3.Implies(tmin(q) > 0, Tgas >= tmin(q)), z3.Implies(tmax(q) > 0, Tgas < tmax(q)))


def entry_assign_rates(it):
    import naunet.templateloader as tlm
    from naunet.grains.grain import Grain
    fn = tlm.TemplateLoader._assign_rates
    slf = object.__new__(tlm.TemplateLoader)
    # the statements are the same for every solver configuration (host and device code evaluate the same guarded assignments)
    method, device = [("dense", "cpu"), ("sparse", "cpu"), ("cusparse", "gpu"), ("rosenbrock4", "cpu")][it.choose(4, "configuration")]
    try:
        slf._general = tlm.TemplateLoader.GeneralInfo(method, device, "0", project_version="0")
    except Exception:
        slf._general = None
    n = z3.Int("n_items")
    g = z3.Int("g")
    it.assume(z3.And(0 <= g, g < n))
    reactions = GList(n, g, SObj("Reaction", g))
    mode = it.choose(3, "caller")
    if mode == 0:
        sym, res = "k", it.call_function(fn, [slf, "k", reactions, [Grain()]], {})
    elif mode == 1:
        sym, res = "kh", it.call_function(fn, [slf, "kh", reactions], {})
    else:
        sym, res = "kc", it.call_function(fn, [slf, "kc", reactions, None], {})
    P = ("C06",)
    if not isinstance(res, GList):
        it.fail("assign_rates/result-shape", P, f"{type(res).__name__}")
        return
    it.prove(res.length == n, "assign_rates/length", P + ("C03",))
    try:
        st = cfrag.parse_stmts(res.value)
    except CTypeError as e:
        it.fail("assign_rates/valid-C", P, f"{res.value!r}: {e}")
        return
    if len(st) != 1:
        it.fail("assign_rates/one-statement", P, f"{res.value!r}")
        return
    s = st[0]
    guard = z3.BoolVal(True)
    if isinstance(s, cfrag.IfStmt):
        if len(s.body) != 1:
            it.fail("assign_rates/one-statement", P, f"{res.value!r}")
            return
        guard, s = s.cond, s.body[0]
    if not isinstance(s, cfrag.Assign) or s.arr != sym or s.index is None:
        it.fail("assign_rates/assigns-rate-array", P, f"{res.value!r}")
        return
    it.prove(s.index == g, "assign_rates/target-index", P + ("C03", "C13"))
    it.prove(s.value == rexpr(g), "assign_rates/value-is-rateexpr", P + ("C05",))
    it.prove(guard == window(g), "assign_rates/guard-is-window", P)
    # corollary used by the statement: adjacent windows [a,b) [b,c): exactly one guard holds for T in [a,c)


def lemma_adjacent_windows(tier):
    """QF real arithmetic: windows [a,b) and [b,c) with 0<a<b<c: for every T in [a,c) exactly one is active,
    boundaries included; a reaction without window is always active"""
    from pyvc import smt
    a, b, c, T = z3.Reals("a b c T")
    w1 = z3.And(z3.Implies(a > 0, T >= a), z3.Implies(b > 0, T < b))
    w2 = z3.And(z3.Implies(b > 0, T >= b), z3.Implies(c > 0, T < c))
    items = []
    for name, claim in [
        ("lemma/adjacent-windows-exactly-one", z3.Implies(z3.And(0 < a, a < b, b < c, a <= T, T < c), z3.Xor(w1, w2))),
        ("lemma/boundary-belongs-to-upper", z3.Implies(z3.And(0 < a, a < b, b < c, T == b), z3.And(z3.Not(w1), w2))),
        ("lemma/no-window-always-active", z3.Implies(z3.And(a <= 0, b <= 0), w1)),
        ("lemma/lower-only", z3.Implies(z3.And(a > 0, b <= 0), w1 == (T >= a))),
        ("lemma/upper-only", z3.Implies(z3.And(a <= 0, b > 0), w1 == (T < b))),
    ]:
        st, be, dt, _ = smt.check_valid([], claim)
        items.append({"name": name, "status": st, "backend": be, "seconds": dt, "detail": str(claim)[:200]})
    return items


# ---------------------------------------------------------------------------------------------- C05
def _mk(cls, **attrs):
    obj = cls.__new__(cls)
    from naunet.component import Component
    Component.__init__(obj)
    obj.reactants, obj.products = [], []
    obj.temp_min = obj.temp_max = -1.0
    obj.idxfromfile = -1
    obj.source = "vf"
    obj.react_string = None
    for k, v in attrs.items():
        setattr(obj, k, v)
    return obj


def gas_cases():
    from naunet.reactions.reaction import Reaction
    from naunet.reactions.kidareaction import KIDAReaction
    from naunet.reactions.umistreaction import UMISTReaction
    from naunet.reactions.leedsreaction import LEEDSReaction
    from naunet.reactions.uclchemreaction import UCLCHEMReaction
    from naunet.reactiontype import ReactionType as RT
    from naunet.species import Species
    cases = []
    for name, law in L.NATIVE.items():
        cases.append((f"native/{name}", lambda name=name: _mk(Reaction, reaction_type=RT[name]), law, None))
    cases.append(("native/UNKNOWN", lambda: _mk(Reaction, reaction_type=RT.UNKNOWN), None, RuntimeError))
    cases.append(("native/GAS_THREEBODY", lambda: _mk(Reaction, reaction_type=RT.GAS_THREEBODY), None, RuntimeError))
    for f, law in L.KIDA.items():
        cases.append((f"kida/formula{f}", lambda f=f: _mk(KIDAReaction, formula=f, itype=-1, reaction_type=KIDAReaction.formula2type[f]), law, None))
    cases.append(("kida/formula6", lambda: _mk(KIDAReaction, formula=6, itype=-1, reaction_type=KIDAReaction.formula2type[6]), None, NotImplementedError))
    cases.append(("kida/formula0", lambda: _mk(KIDAReaction, formula=0, itype=-1, reaction_type=None), None, RuntimeError))
    for code, law in L.UMIST.items():
        cases.append((f"umist/{code}", lambda code=code: _mk(UMISTReaction, code=code, reaction_type=UMISTReaction.code2type[code]), law, None))
    cases.append(("umist/unknown-code", lambda: _mk(UMISTReaction, code="XX", reaction_type=None), None, RuntimeError))
    for rt in [1, 2, 3, 4, 5, 11, 12, 15, 16, 17, 18, 19]:
        names = ["C"]
        if rt == 4:
            names = ["C", "H2", "CO", "N2"]
        if rt == 12:
            names = ["GC", "GH2", "GCO", "GN2"]
        for nm in names:
            def mk(rt=rt, nm=nm):
                from naunet.species import Species
                return _mk(LEEDSReaction, rtype=rt, reaction_type=LEEDSReaction.rtype2type.get(rt),
                           reactants=[Species(nm, surface_prefix="G")])
            cases.append((f"leeds/type{rt}/{nm}", mk, L.leeds(rt, nm), None))
    cases.append(("leeds/type21", lambda: _mk(LEEDSReaction, rtype=21, reaction_type=None, reactants=[Species("C")]), None, RuntimeError))
    for code in ["MA", "CRP", "CRPHOT", "PHOTON"]:
        for nm in (["C", "CO"] if code == "PHOTON" else ["C"]):
            def mk(code=code, nm=nm):
                from naunet.species import Species
                rt = UCLCHEMReaction.reactant2type.get(code, UCLCHEMReaction.ReactionType.UCLCHEM_MA)
                return _mk(UCLCHEMReaction, reaction_type=rt, reactants=[Species(nm)])
            cases.append((f"uclchem/{code}/{nm}", mk, L.uclchem(code, nm), None))
    return cases


_CASES = None


def entry_gas_rates(it):
    global _CASES
    from naunet.species import Species
    if _CASES is None:
        _CASES = gas_cases()
    label, mk, law, exc = _CASES[it.choose(len(_CASES), "case")]
    Species.reset()
    obj = mk()
    a, b, c = z3.Real("alpha"), z3.Real("beta"), z3.Real("gamma")
    obj.alpha, obj.beta, obj.gamma = SReal(a), SReal(b), SReal(c)
    P = ("C05",)
    # physical parameter ranges (requires): T > 0, 0 <= omega < 1, zism > 0 (constant 1.3e-17)
    for f in (L.T > 0, L.omega >= 0, L.omega < 1, L.zism > 0):
        it.assume(f)
    try:
        rate = it.call_function(type(obj).rateexpr, [obj], {})
    except PyRaise as e:
        if exc is not None and isinstance(e.exc, exc):
            it.prove(z3.BoolVal(True), f"{label}/refused-with-error", P)
            return
        it.fail(f"{label}/no-exception", P, f"{type(e.exc).__name__}: {e.exc}")
        return
    if exc is not None:
        it.fail(f"{label}/refused-with-error", P, f"expected {exc.__name__}, got rate {rate!r}")
        return
    try:
        v = cfrag.parse_expr(rate)
    except CTypeError as e:
        it.fail(f"{label}/valid-C", P, f"{rate!r}: {e}")
        return
    it.prove(z3.BoolVal(True), f"{label}/valid-C", P, detail=repr(rate))
    it.prove(cfrag.to_real(v) == law(a, b, c), f"{label}/equals-published-law", P, detail=repr(rate))


def table_checks(tier):
    """format-code -> reaction-type tables compared entry by entry with the documented meaning"""
    from naunet.reactions.kidareaction import KIDAReaction
    from naunet.reactions.umistreaction import UMISTReaction
    from naunet.reactions.leedsreaction import LEEDSReaction
    from naunet.reactions.uclchemreaction import UCLCHEMReaction
    from naunet.reactiontype import ReactionType as RT
    items = []

    def cmp(name, table, spec):
        keys = set(table) | set(spec)
        for k in sorted(keys, key=str):
            got = table.get(k)
            ok = got is not None and k in spec and int(got) == int(RT[spec[k]])
            items.append({"name": f"table/{name}/{k}", "status": "proved" if ok else "refuted", "backend": "table-compare",
                          "seconds": 0.0, "detail": f"{name}[{k!r}] = {got!r}, documented {spec.get(k)}"})
    cmp("kida.formula2type", KIDAReaction.formula2type, L.KIDA_TYPES)
    cmp("umist.code2type", UMISTReaction.code2type, L.UMIST_TYPES)
    cmp("leeds.rtype2type", LEEDSReaction.rtype2type, L.LEEDS_TYPES)
    cmp("uclchem.reactant2type", UCLCHEMReaction.reactant2type, L.UCLCHEM_TYPES)
    return items


def _register():
    from pyvc.units import Unit, register
    import naunet.templateloader as tlm
    from naunet.reactions.reaction import Reaction
    from naunet.reactions.kidareaction import KIDAReaction
    from naunet.reactions.umistreaction import UMISTReaction
    from naunet.reactions.leedsreaction import LEEDSReaction
    from naunet.reactions.uclchemreaction import UCLCHEMReaction
    register(Unit("assign_rates", __name__, make_ctx, entry_assign_rates, functions=[tlm.TemplateLoader._assign_rates],
                  props=("C06",)))
    register(Unit("gas_rateexpr", __name__, make_ctx, entry_gas_rates,
                  functions=[Reaction.rateexpr, Reaction._beautify, KIDAReaction.rateexpr, UMISTReaction.rateexpr,
                             LEEDSReaction.rateexpr, UCLCHEMReaction.rateexpr], props=("C05",)))


_register()
