"""Identity of species and reactions: __eq__ is an equivalence and __hash__ is consistent with it (C15; relied on by C04, C09, C14).

These are the assumptions under which the class-keyed dict / set models (pyvc/dictmodel.py, pyvc/setmodel.py) are faithful; here
they are proved of the real Species.__eq__/__hash__ and Reaction.rpeq/__eq__/__hash__ bodies, executed on abstract objects.

Species.  An abstract species x has fields name, basename (abstract strings), charge, grain_group, surface_group (integers; None
is a distinguished integer), is_electron, is_grain, is_surface.  REQUIRES (representation invariant of a parsed species, checked
on generated names by the bounded oracles of C08/C09, not proved here):
  W1  an electron is neither a grain nor a surface species;  W2  no species is both grain and surface species;
  W3  the fields are a function of the name (one configuration: same name => same fields);
  W4  grains of the same group and charge have the same basename; a grain has no surface group; a non-grain has no grain group.
ENSURES  eq reflexive, symmetric, transitive;  eq(x, y) => hash(x) == hash(y)   (hash through uninterpreted functions: congruence only).

Reaction.  Reactants / products are lists of at most 3 / 5 species whose classes are arbitrary (Species identity abstracted by the
class id, justified by the first unit).  ENSURES
  rpeq(a, b) <=> same multiset of reactant classes and same multiset of product classes       (order never matters, multiplicity does)
  rpeq is an equivalence;  __eq__ is reflexive and symmetric, and transitive on reactions whose type is not UNKNOWN (known finding:
  the UNKNOWN wildcard);  __eq__(a, b) => hash(a) == hash(b);   __eq__ implies rpeq and equal temperature windows."""
from __future__ import annotations
import z3
from pyvc.context import VerifContext
from pyvc.sym import SObj, SInt, SBool, SStr, Hole, FList, Unsupported
from pyvc.ops import wrap_term, term_of, truth_term
from pyvc.cfrag import StrId

I, B = z3.IntSort(), z3.BoolSort()
P = ("C15", "C04", "C09", "C14", "C01", "C02", "C03", "C06")
F_NAME, F_BASE = z3.Function("sp_name", I, StrId), z3.Function("sp_basename", I, StrId)
F_CHG, F_GG, F_SG = z3.Function("sp_charge", I, I), z3.Function("sp_grain_group", I, I), z3.Function("sp_surface_group", I, I)
F_E, F_G, F_S = z3.Function("sp_is_electron", I, B), z3.Function("sp_is_grain", I, B), z3.Function("sp_is_surface", I, B)
NONE = z3.IntVal(-1)
SPECIES_FIELDS = {"name": F_NAME, "basename": F_BASE, "charge": F_CHG, "grain_group": F_GG, "surface_group": F_SG,
                  "is_electron": F_E, "is_grain": F_G, "is_surface": F_S}


class SpeciesCtx(VerifContext):
    def obj_getattr(self, interp, obj, name):
        if obj.cls == "Species" and name in SPECIES_FIELDS:
            t = SPECIES_FIELDS[name](obj.id)
            if t.sort() == StrId:
                return SStr([Hole("ident", t)])
            return wrap_term(t)
        raise Unsupported(f"{obj.cls}.{name}")

    def obj_isinstance(self, interp, v, tp):
        from naunet.species import Species
        return v.cls == "Species" and tp is Species

    def obj_is_none(self, interp, v):
        return False


def wf_species(x, y=None):
    fs = [z3.Implies(F_E(x), z3.And(z3.Not(F_G(x)), z3.Not(F_S(x)))), z3.Not(z3.And(F_G(x), F_S(x))),
          z3.Implies(F_G(x), F_SG(x) == NONE), z3.Implies(z3.Not(F_G(x)), F_GG(x) == NONE)]
    if y is not None:
        same = z3.And(*[f(x) == f(y) for f in SPECIES_FIELDS.values()])
        fs.append(z3.Implies(F_NAME(x) == F_NAME(y), same))
        fs.append(z3.Implies(z3.And(F_G(x), F_G(y), F_GG(x) == F_GG(y), F_CHG(x) == F_CHG(y)), F_BASE(x) == F_BASE(y)))
    return fs


def entry_species(it):
    from naunet.species import Species
    a, b, c = (SObj("Species", z3.Int(n)) for n in ("sp_a", "sp_b", "sp_c"))
    for x in (a, b, c):
        for y in (a, b, c):
            for f in wf_species(x.id, y.id):
                it.assume(f)
    it.cover("requires")

    def eq(x, y):
        it.spec_mode += 1
        try:
            r = it.call_function(Species.__eq__, [x, y], {})
        finally:
            it.spec_mode -= 1
        if r is NotImplemented:
            it.fail("species/eq-not-implemented-for-species", P)
            return z3.BoolVal(False)
        return truth_term(r)
    eab, eba, ebc, eac, eaa = eq(a, b), eq(b, a), eq(b, c), eq(a, c), eq(a, a)
    it.prove(eaa, "species/eq-reflexive", P)
    it.prove(eab == eba, "species/eq-symmetric", P)
    it.prove(z3.Implies(z3.And(eab, ebc), eac), "species/eq-transitive", P)
    ha = it.call_function(Species.__hash__, [a], {})
    hb = it.call_function(Species.__hash__, [b], {})
    it.prove(z3.Implies(eab, term_of(ha) == term_of(hb)), "species/hash-consistent-with-eq", P)
    # what the equivalence is (strongest postcondition; documents the classes the other contracts abstract)
    spec = z3.Or(z3.And(F_E(a.id), F_E(b.id)),
                 z3.And(F_G(a.id), F_G(b.id), F_GG(a.id) == F_GG(b.id), F_CHG(a.id) == F_CHG(b.id)),
                 z3.And(F_S(a.id), F_S(b.id), F_SG(a.id) == F_SG(b.id), F_CHG(a.id) == F_CHG(b.id), F_BASE(a.id) == F_BASE(b.id)),
                 F_NAME(a.id) == F_NAME(b.id))
    it.prove(eab == spec, "species/eq-is-the-documented-relation", P)


# ---------------------------------------------------------------------------------------------- reactions
MAXR, MAXP = 3, 5
R_NR, R_NP = z3.Function("nr", I, I), z3.Function("np", I, I)
R_RC, R_PC = z3.Function("reactant_class", I, I, I), z3.Function("product_class", I, I, I)
R_TMIN, R_TMAX = z3.Function("temp_min", I, z3.RealSort()), z3.Function("temp_max", I, z3.RealSort())
R_TYPE = z3.Function("reaction_type", I, I)
H_SPECIES = z3.Function("hash_species_class", I, I)


def mset(q, n, f, mx):
    a = z3.K(I, z3.IntVal(0))
    for m in range(mx):
        a = z3.If(n(q) > m, z3.Store(a, f(q, m), z3.Select(a, f(q, m)) + 1), a)
    return a


class ReactionCtx(VerifContext):
    symbolic_counters = True     # frozenset(Counter().items()) of an empty species list is the empty multiset

    def __init__(self, props=()):
        super().__init__(props)
        from naunet.reactiontype import ReactionType
        self.UNKNOWN = int(ReactionType.UNKNOWN)

    def obj_getattr(self, interp, obj, name):
        if obj.cls == "Reaction":
            if name in ("reactants", "products"):
                n, f, mx = (R_NR, R_RC, MAXR) if name == "reactants" else (R_NP, R_PC, MAXP)
                interp.assume(z3.And(n(obj.id) >= 0, n(obj.id) <= mx))
                m = z3.Int("rm")
                return FList(n(obj.id), m, SObj("Species", f(obj.id, m)))
            if name == "temp_min":
                return wrap_term(R_TMIN(obj.id))
            if name == "temp_max":
                return wrap_term(R_TMAX(obj.id))
            if name == "reaction_type":
                return SObj("ReactionTypeValue", R_TYPE(obj.id))
            if name == "rpeq":
                from naunet.reactions.reaction import Reaction
                return lambda o, obj=obj: interp.call_function(Reaction.rpeq, [obj, o], {})
        raise Unsupported(f"{obj.cls}.{name}")

    def obj_method(self, interp, obj, name, args, kwargs):
        if obj.cls == "Reaction" and name == "rpeq":
            from naunet.reactions.reaction import Reaction
            return interp.call_function(Reaction.rpeq, [obj] + list(args), kwargs)
        raise Unsupported(f"{obj.cls}.{name}")

    def obj_isinstance(self, interp, v, tp):
        from naunet.reactions.reaction import Reaction
        return v.cls == "Reaction" and tp is Reaction

    def obj_equals(self, interp, a, b):
        ta = a.id if isinstance(a, SObj) and a.cls == "ReactionTypeValue" else None
        tb = b.id if isinstance(b, SObj) and b.cls == "ReactionTypeValue" else None
        import enum
        if ta is None and isinstance(a, enum.Enum):
            ta = z3.IntVal(int(a))
        if tb is None and isinstance(b, enum.Enum):
            tb = z3.IntVal(int(b))
        if ta is not None and tb is not None:
            return wrap_term(ta == tb)
        raise Unsupported("== on these abstract objects")

    def obj_hash(self, interp, obj):
        if obj.cls == "Species":
            return wrap_term(H_SPECIES(obj.id))      # justified by species/hash-consistent-with-eq: a function of the class
        raise Unsupported(f"hash of {obj.cls}")

    def set_rep(self, interp, x):
        if isinstance(x, SObj) and x.cls == "Species":
            return x.id
        raise Unsupported("multiset element")

    def prefer_flist(self, interp, e, env, view):
        return False

    def list_bound(self, interp, lst):
        """requires: at most 3 reactants / 5 products (property quantifier)"""
        if isinstance(lst, FList) and isinstance(lst.template, SObj) and lst.template.cls == "Species":
            d = lst.template.id.decl()
            return MAXR if d.eq(R_RC) else (MAXP if d.eq(R_PC) else None)
        return None


def entry_reaction(it):
    from naunet.reactions.reaction import Reaction
    a, b, c = (SObj("Reaction", z3.Int(n)) for n in ("re_a", "re_b", "re_c"))
    for x in (a, b, c):
        it.assume(z3.And(R_NR(x.id) >= 0, R_NR(x.id) <= MAXR, R_NP(x.id) >= 0, R_NP(x.id) <= MAXP))
    it.cover("requires")

    def run(fn, *args):
        it.spec_mode += 0
        return it.call_function(fn, list(args), {})

    def same(x, y):
        return z3.And(mset(x.id, R_NR, R_RC, MAXR) == mset(y.id, R_NR, R_RC, MAXR), mset(x.id, R_NP, R_PC, MAXP) == mset(y.id, R_NP, R_PC, MAXP))
    rp = truth_term(run(Reaction.rpeq, a, b))
    it.prove(rp == same(a, b), "reaction/rpeq-is-multiset-equality-of-reactants-and-products", P)
    eab = truth_term(run(Reaction.__eq__, a, b))
    eba = truth_term(run(Reaction.__eq__, b, a))
    ebc = truth_term(run(Reaction.__eq__, b, c))
    eac = truth_term(run(Reaction.__eq__, a, c))
    eaa = truth_term(run(Reaction.__eq__, a, a))
    U = it.ctx.UNKNOWN
    ty = lambda x: R_TYPE(x.id)
    spec = lambda x, y: z3.And(same(x, y), R_TMIN(x.id) == R_TMIN(y.id), R_TMAX(x.id) == R_TMAX(y.id),
                               z3.Or(ty(x) == ty(y), ty(x) == U, ty(y) == U))
    it.prove(eab == spec(a, b), "reaction/eq-is-species-multisets-window-and-type", P)
    it.prove(eaa, "reaction/eq-reflexive", P)
    it.prove(eab == eba, "reaction/eq-symmetric", P)
    it.prove(z3.Implies(z3.And(eab, ebc, ty(a) != U, ty(b) != U, ty(c) != U), eac), "reaction/eq-transitive-on-typed-reactions", P)
    ha = run(Reaction.__hash__, a)
    hb = run(Reaction.__hash__, b)
    it.prove(z3.Implies(eab, term_of(ha) == term_of(hb)), "reaction/hash-consistent-with-eq", P)
    it.prove(z3.Implies(same(a, b), term_of(ha) == term_of(hb)), "reaction/hash-depends-only-on-the-species-multisets", P)


def _register():
    from pyvc.units import Unit, register
    from naunet.species import Species
    from naunet.reactions.reaction import Reaction
    register(Unit("species_eq_hash", __name__, lambda props=(): SpeciesCtx(props), entry_species,
                  functions=[Species.__eq__, Species.__hash__], props=("C15", "C04", "C09", "C14", "C01", "C02", "C03")))
    register(Unit("reaction_eq_hash", __name__, lambda props=(): ReactionCtx(props), entry_reaction,
                  functions=[Reaction.rpeq, Reaction.__eq__, Reaction.__hash__], props=("C15", "C14", "C06")))


_register()
