"""C17 / C07: Network.add_reaction_from_file under contract, for files of any length.

  requires  the network's element tables (both empty, or given)
  ensures   (order)   before the file is read: the element tables of the network are installed when it has any; the per-file state
                      of the reaction class (KROME @format/@common/@var directives) is the default, whatever an earlier file or a
                      failed load left behind; the class's initialize() ran
            (loop)    every line of the file is handed to _add_reaction exactly once, in file order, with the requested format
            (end)     finalize() runs after the last line
  assumed   contract of Network._add_reaction (C14 unit): returns two sets and an instance; open()/readlines() return the lines.
Known finding (C17): a network described without element tables installs nothing, so tables of another network stay in force."""
from __future__ import annotations
import z3
from pyvc.context import VerifContext, LoopSpec
from pyvc.sym import SList, SObj, SInt, ObjCodec, IntCodec, Unsupported, Sym
from pyvc.setmodel import SSet
from pyvc.interp import PyRaise

I = z3.IntSort()
P = ("C17", "C07", "C10")
Q = "Network.add_reaction_from_file"
KROME_DEFAULTS = {"reacformat": "idx,r,r,r,p,p,p,p,tmin,tmax,rate", "_user_commons": [], "_user_vars": []}


class FakeFile:
    def __init__(self, lines, log):
        self.lines, self.log = lines, log

    def __enter__(self):
        return self

    def __exit__(self, *a):
        self.log.append(("close",))
        return False

    def readlines(self):
        self.log.append(("readlines",))
        return self.lines


class FileCtx(VerifContext):
    def __init__(self, props=()):
        super().__init__(props)
        self.log = []
        self.lines = None
        cc = self.call_contracts
        # abstract process-wide tables: whatever an earlier network left behind (chosen by the entry), updated by the setters and
        # visible through the getters
        self.tables = {"e": ["?"], "p": ["?"]}
        cc["naunet.species.Species.set_known_elements"] = lambda ip, a, k: (self.tables.__setitem__("e", list(a[-1])), self.log.append(("set_known_elements", a[-1])))[1]
        cc["naunet.species.Species.set_known_pseudoelements"] = lambda ip, a, k: (self.tables.__setitem__("p", list(a[-1])), self.log.append(("set_known_pseudoelements", a[-1])))[1]
        cc["naunet.species.Species.known_elements"] = lambda ip, a, k: list(self.tables["e"])
        cc["naunet.species.Species.known_pseudoelements"] = lambda ip, a, k: list(self.tables["p"])
        cc["naunet.network.Network._add_reaction"] = self.c_add
        self.loop_specs[(Q, "ln, line")] = LoopSpec("loop:lines", "_i", [
            ("length(trace) == _i", P),
            ("forall(lambda j: implies(0 <= j and j < _i, trace[j] == line_id(j)))", P),
        ], modifies=("trace",), ghost_init=self.g_init)
        self.spec_names["line_id"] = lambda j: SInt(z3.Select(self.lines.arrays[0], j.t if isinstance(j, SInt) else z3.IntVal(j)))

    def g_init(self, interp, env):
        env.set("trace", self.to_slist(interp, [], IntCodec()))
        self.trace_env = env

    def open_file(self, interp, args, kwargs):
        self.log.append(("open", args[0], self.snapshot(), (list(self.tables["e"]), list(self.tables["p"]))))
        return FakeFile(self.lines, self.log)

    def snapshot(self):
        cls = self.rclass
        return {k: (list(v) if isinstance(v, list) else v) for k, v in ((k, cls.__dict__.get(k, getattr(cls, k, None))) for k in KROME_DEFAULTS)} \
            if self.fmt == "krome" else {}

    def c_add(self, interp, args, kwargs):
        from pyvc import models
        slf, arg = args[0], args[1]
        if not (isinstance(arg, tuple) and len(arg) == 2 and isinstance(arg[0], SObj) and arg[0].cls == "Line"):
            interp.fail("loop/each-line-is-parsed-as-given", P, f"_add_reaction({arg!r})")
            raise Unsupported("unexpected argument of _add_reaction")
        if arg[1] != self.fmt:
            interp.fail("loop/requested-format-is-used", P, f"format {arg[1]!r}, requested {self.fmt!r}")
        else:
            interp.prove(z3.BoolVal(True), "loop/requested-format-is-used", P)
        models.slist_method(interp, self.trace_env.lookup("trace"), "append", [SInt(arg[0].id)], {})
        k = len([e for e in self.log if e[0] == "_add_reaction"])
        self.log.append(("_add_reaction",))
        return (SSet("Species", interp.fresh(f"new_r{k}", z3.ArraySort(I, z3.BoolSort()))),
                SSet("Species", interp.fresh(f"new_p{k}", z3.ArraySort(I, z3.BoolSort()))), SObj("Reaction", interp.fresh(f"inst{k}", I)))

    def on_assign(self, interp, env, name, v):
        from pyvc import setmodel
        fn = env.func.__qualname__ if env.func else None
        if fn == Q and name in ("new_reactants", "new_products"):
            raw = v.s if isinstance(v, setmodel.CSet) else v
            if isinstance(raw, set) and not raw:
                return setmodel.empty("Species")
        return super().on_assign(interp, env, name, v)

    def set_rep(self, interp, x):
        if isinstance(x, SObj) and x.cls == "Species":
            return x.id
        raise Unsupported("set element")

    def fresh_custom(self, interp, name, v, spec, env):
        if isinstance(v, (SObj, tuple, set)) or v is None:
            return v
        return super().fresh_custom(interp, name, v, spec, env)


def entry(it):
    from naunet.network import Network, supported_reaction_class
    ctx = it.ctx
    fmts = sorted(supported_reaction_class)
    fmt = fmts[it.choose(len(fmts), "format")]
    with_tables = it.choose(2, "tables") == 0
    ctx.fmt, ctx.rclass, ctx.log = fmt, supported_reaction_class[fmt], []
    n = z3.Int("n_lines")
    it.assume(n >= 0)
    ctx.lines = SList(ObjCodec("Line"), (z3.Const("line_ids", z3.ArraySort(I, I)),), n)
    net = Network.__new__(Network)
    E, PE = (["H", "C"], ["CR"]) if with_tables else ([], [])
    net._known_elements, net._known_pseudo_elements = E, PE
    # the tables in force when the call starts: another network's, or partly the same as this network's
    dirty = it.choose(3, "tables-in-force") if with_tables else 0
    ctx.tables = {"e": [["X"], list(E), ["X"]][dirty], "p": [["Y"], ["Y"], list(PE)][dirty]}
    tag = f"{fmt}/{'with' if with_tables else 'without'}-tables"
    cls = ctx.rclass
    saved = {k: cls.__dict__.get(k, None) for k in KROME_DEFAULTS} if fmt == "krome" else {}
    had = {k: k in cls.__dict__ for k in saved}
    if fmt == "krome":
        # state left behind by an earlier (possibly failed) load
        cls.reacformat, cls._user_commons, cls._user_vars = "idx,r,p,rate", ["user_dirty"], ["dirty = 1"]
    try:
        try:
            it.call_function(Network.add_reaction_from_file, [net, "some.file", fmt], {})
        except PyRaise as e:
            it.fail(f"{tag}/no-exception", P, f"{type(e.exc).__name__}: {e.exc}")
            return
        log = ctx.log
        kinds = [e[0] for e in log]

        def ok(name, cond, detail=""):
            if cond:
                it.prove(z3.BoolVal(True), name, P)
            else:
                it.fail(name, P, f"{tag}: {detail}")
        iopen = kinds.index("open") if "open" in kinds else len(kinds)
        if with_tables:
            at_open = log[iopen][3] if iopen < len(log) else None
            ok("order/element-tables-installed-before-the-file-is-read", at_open == (E, PE),
               f"tables in force when the file is read: {at_open!r}, the network's are {(E, PE)!r} (in force at the call: case {dirty}); calls before open: {log[:iopen]!r}")
        if fmt == "krome":
            snap = log[iopen][2] if iopen < len(log) else None
            ok("order/per-file-directive-state-is-default-when-the-file-is-read", snap == KROME_DEFAULTS, f"state at open(): {snap!r}")
        ok("order/file-opened-once-and-closed", kinds.count("open") == 1 and kinds.count("readlines") == 1 and kinds.count("close") == 1, f"{kinds}")
        tr = ctx.trace_env.lookup("trace")
        j = z3.Int("j")
        it.prove(z3.And(tr.length == n, z3.ForAll([j], z3.Implies(z3.And(0 <= j, j < n), z3.Select(tr.arrays[0], j) == z3.Select(ctx.lines.arrays[0], j)))),
                 "end/every-line-parsed-exactly-once-in-order", P)
    finally:
        for k, v in saved.items():
            if had[k]:
                setattr(cls, k, v)
            elif k in cls.__dict__:
                delattr(cls, k)


def _register():
    from pyvc.units import Unit, register
    from naunet.network import Network
    from naunet.reactions.kromereaction import KROMEReaction
    register(Unit("network_file_loop", __name__, lambda props=(): FileCtx(props), entry,
                  functions=[Network.add_reaction_from_file, KROMEReaction.initialize], props=("C17", "C07", "C10")))


_register()


# ---------------------------------------------------------------------------------------------- the other entry points
def entry_points(it):
    """Network.add_reaction / allowed_species / required_species setters / where_species: whenever the network has element tables
    (a list of elements OR a list of pseudo-elements), BOTH of its tables are installed - each with the network's own list, the empty
    one too - before any species name is parsed (an empty list must replace what another network left behind)."""
    from naunet.network import Network, supported_reaction_class
    ctx = it.ctx
    which = it.choose(4, "entry")
    tables = [(["H", "M"], []), ([], ["CR"]), (["H"], ["CR", "M"])][it.choose(3, "tables")]
    E, PE = tables
    ctx.log, ctx.fmt, ctx.rclass = [], "kida", supported_reaction_class["kida"]
    ctx.lines = None
    net = Network.__new__(Network)
    net._known_elements, net._known_pseudo_elements = list(E), list(PE)
    net._species_kwargs = {}
    net.reaction_list, net._skipped_reactions = [], []
    from pyvc import setmodel
    if which == 2:
        # the required-species setter is specified for a network that already holds arbitrary reactions
        SetS_ = z3.ArraySort(z3.IntSort(), z3.BoolSort())
        net._reactants, net._products = setmodel.SSet("Species", z3.Const("held_reactants", SetS_)), setmodel.SSet("Species", z3.Const("held_products", SetS_))
    else:
        net._reactants, net._products = setmodel.empty("Species"), setmodel.empty("Species")
    net._allowed_species, net._required_species = [], []
    name = ["add_reaction", "allowed_species.setter", "required_species.setter", "where_species"][which]
    PP = ("C17", "C04", "C07", "C14")
    parsed, at_parse = [], []
    dirty = it.choose(3, "tables-in-force")
    ctx.tables = {"e": [["X"], list(E), ["X"]][dirty], "p": [["Y"], ["Y"], list(PE)][dirty]}
    snap = lambda: at_parse.append((list(ctx.tables["e"]), list(ctx.tables["p"])))
    ctx.call_contracts["naunet.species.Species"] = lambda ip, a, k: (snap(), parsed.append(len(ctx.log)), SObj("Species", z3.IntVal(len(parsed))))[2]
    ctx.call_contracts["naunet.network.Network._add_reaction"] = lambda ip, a, k: (snap(), parsed.append(len(ctx.log)), (set(), set(), None))[2]
    try:
        if which == 0:
            it.call_function(Network.add_reaction, [net, ("some kida line", "kida")], {})
        elif which == 1:
            it.call_function(Network.allowed_species.fset, [net, ["H"]], {})
        elif which == 2:
            it.call_function(Network.required_species.fset, [net, ["H"]], {})
        else:
            try:
                it.call_function(Network.where_species, [net, "H"], {})
            except Unsupported:
                pass
    except PyRaise as e:
        it.fail(f"entry/{name}/no-exception", PP, f"{type(e.exc).__name__}: {e.exc}")
        return
    if which == 2:
        # ensures: the extra species are exactly the ones named, in order - whatever the network holds at that moment
        got = net._required_species
        ok2 = isinstance(got, list) and len(got) == 1 and isinstance(got[0], SObj) and got[0].cls == "Species"
        if ok2:
            it.prove(z3.BoolVal(True), f"entry/{name}/stores-exactly-the-named-species", PP)
        else:
            it.fail(f"entry/{name}/stores-exactly-the-named-species", PP, f"required_species = ['H'] stored {got!r}")
    first = min(parsed) if parsed else len(ctx.log)
    before = ctx.log[:first]
    ok = bool(at_parse) and all(t == (E, PE) for t in at_parse)
    if ok:
        it.prove(z3.BoolVal(True), f"entry/{name}/both-tables-installed-before-names-are-parsed", PP)
    else:
        it.fail(f"entry/{name}/both-tables-installed-before-names-are-parsed", PP,
                f"network tables elements={E} pseudo={PE}; tables in force when names are parsed: {at_parse[:2]!r} (case {dirty}); calls before: {before!r}")
    if not parsed:
        it.fail(f"entry/{name}/reaches-the-parser", PP, "no species name was parsed (contract harness out of date)")


def _register2():
    from pyvc.units import Unit, register
    from naunet.network import Network
    register(Unit("network_entry_points", __name__, lambda props=(): FileCtx(props), entry_points,
                  functions=[Network.add_reaction, Network.allowed_species.fset, Network.required_species.fset, Network.where_species], props=("C17", "C04", "C07", "C14")))


_register2()


# ---------------------------------------------------------------------------------------------- C07: the reaction factory
class FactoryCtx(VerifContext):
    """lines are structured strings; a 'blank' hole is an arbitrary (possibly empty) run of white space"""

    def __init__(self, props=()):
        super().__init__(props)
        self.made = []
        import naunet.network as nw
        for fmt, cls in list(nw.supported_reaction_class.items()) + [("naunet", __import__("naunet.reactions.reaction", fromlist=["Reaction"]).Reaction)]:
            self.call_contracts[f"{cls.__module__}.{cls.__qualname__}"] = (lambda ip, a, k, c=cls: (self.made.append((c, a, k)), SObj("Reaction", z3.IntVal(len(self.made))))[1])
        self._n = 0

    @staticmethod
    def _blank_only(s):
        from pyvc.sym import SStr, Hole
        return isinstance(s, SStr) and all(isinstance(g, Hole) and g.kind == "blank" for g in s.segs)

    def strip_string(self, interp, s, chars):
        from pyvc.sym import SStr, Hole, Lit
        if self._blank_only(s):
            if chars is None:
                return ""                      # str.strip() removes every white-space character
            # strip(chars) / rstrip(chars) / lstrip(chars) of a run of white space: some (possibly none) of it remains
            self._n += 1
            if interp.branch(z3.Bool(f"blank_remainder_nonempty!{self._n}")):
                return SStr([Hole("blank", val=z3.Int(f"blank_rest!{self._n}"), minlen=1)])
            return ""
        if chars is None and isinstance(s, SStr):
            segs = [g for g in s.segs]
            while segs and isinstance(segs[0], Hole) and segs[0].kind == "blank":
                segs.pop(0)
            while segs and isinstance(segs[-1], Hole) and segs[-1].kind == "blank":
                segs.pop()
            if segs and all(not (isinstance(g, Lit) and (g.text[:1].isspace() or g.text[-1:].isspace())) for g in (segs[0], segs[-1])):
                return SStr(segs)
        raise Unsupported("strip on this structured string")

    def strip_side(self, interp, s, which, chars):
        from pyvc.sym import SStr, Hole, Lit
        if self._blank_only(s):
            return self.strip_string(interp, s, chars) if chars is not None else ""
        segs = list(s.segs)
        pos = -1 if which == "rstrip" else 0
        tail = []
        while segs and isinstance(segs[pos], Hole) and segs[pos].kind == "blank":
            tail.append(segs.pop(pos))
        edge = segs[pos] if segs else None
        if isinstance(edge, Lit) and not (edge.text[pos] in (chars if chars is not None else " \t\r\n\x0b\x0c")):
            if chars is not None and tail:
                self._n += 1
                rest = Hole("blank", val=z3.Int(f"blank_rest!{self._n}"), minlen=0)      # what strip(chars) leaves of the white space
                segs = segs + [rest] if which == "rstrip" else [rest] + segs
            return SStr(segs)
        raise Unsupported(f"str.{which} on this structured string")

    def str_affix(self, interp, s, which, arg):
        from pyvc.sym import SStr, Hole, Lit
        args = arg if isinstance(arg, tuple) else (arg,)
        if isinstance(s, SStr) and all(isinstance(a, str) and a and not a[0].isspace() and not a[-1].isspace() for a in args):
            if self._blank_only(s):
                return False
            segs = list(s.segs) if which == "startswith" else list(reversed(s.segs))
            edge = segs[0]
            if isinstance(edge, Hole) and edge.kind == "blank" and edge.minlen >= 1:
                return False
            # optional white space at the edge: if present the test is false; if absent the next segment decides - the answer is
            # known when the next segment gives false as well
            while len(segs) > 1 and isinstance(segs[0], Hole) and segs[0].kind == "blank":
                segs.pop(0)
            edge = segs[0]
            if isinstance(edge, Lit) and edge is not (s.segs[0] if which == "startswith" else s.segs[-1]):
                t = edge.text
                if which == "startswith" and all(t[:min(len(t), len(a))] != a[:min(len(t), len(a))] for a in args):
                    return False
                if which == "endswith" and all(t[-min(len(t), len(a)):] != a[-min(len(t), len(a)):] for a in args):
                    return False
            if isinstance(edge, Lit):
                t = edge.text
                if all(len(t) >= len(a) for a in args):
                    return t.startswith(args) if which == "startswith" else t.endswith(args)
        return super().str_affix(interp, s, which, arg)


def entry_factory(it):
    """_reaction_factory(line, format): a line of white space only (any mixture of blanks, tabs, carriage returns, line feeds,
    including the empty line) yields no reaction for every format; a line with visible text is handed to the format's class
    exactly once."""
    import naunet.network as nw
    from pyvc.sym import SStr, Hole, Lit
    PP = ("C07",)
    ctx = it.ctx
    fmts = ["kida", "umist", "leeds", "uclchem", "krome", "naunet"]
    which = 0
    for k in range(1, len(fmts)):
        if it.branch(z3.Int("format_no") == k):
            which = k
            break
    fmt = fmts[which]
    visible = it.branch(z3.Bool("line_has_visible_text"))
    if visible:
        line = SStr([Hole("blank", val=z3.Int("lead"), minlen=0), Lit("X"), Hole("blank", val=z3.Int("trail"), minlen=0)])
    else:
        line = SStr([Hole("blank", val=z3.Int("blank_line"), minlen=0)])
    n0 = len(ctx.made)
    try:
        r = it.call_function(nw._reaction_factory, [line, fmt], {})
    except PyRaise as e:
        it.fail(f"factory/{fmt}/no-exception", PP, f"{type(e.exc).__name__}: {e.exc}")
        return
    it.cover("factory")
    if visible:
        if len(ctx.made) == n0 + 1 and isinstance(r, SObj):
            it.prove(z3.BoolVal(True), f"factory/{fmt}/visible-line-gives-one-reaction", PP)
        else:
            it.fail(f"factory/{fmt}/visible-line-gives-one-reaction", PP, f"result {r!r}, {len(ctx.made) - n0} constructor calls")
    else:
        if r is None and len(ctx.made) == n0:
            it.prove(z3.BoolVal(True), f"factory/{fmt}/blank-line-gives-no-reaction", PP)
        else:
            it.fail(f"factory/{fmt}/blank-line-gives-no-reaction", PP, f"a line of white space only reached the constructor of {fmt}: result {r!r}")


def _register3():
    from pyvc.units import Unit, register
    import naunet.network as nw
    register(Unit("reaction_factory", __name__, lambda props=(): FactoryCtx(props), entry_factory, functions=[nw._reaction_factory], props=("C07",)))


_register3()
