"""C19: Naunet::HandleError / Solve (cvode dense, sparse) and the Odeint step budget.

The C++ text is rendered by the real TemplateLoader on every run and the function bodies are extracted from it.
HandleError is executed symbolically by pyvc.cmini with *complete unrolling* (5 levels x 10*level sub-steps, the
unwinding bound is checked) against an assumed contract of the external integrator:

  CVode(mem, tout, y, &t, CV_NORMAL) returns flag and sets t := t' where, with `clock` the integrator time,
      flag >= 0  =>  t' == tout;      flag < 0  =>  clock <= t' and (t' < tout or tout <= clock and t' == clock)
      the state advances along the mock solution y(t) = y0 + t:   y := y + (t' - clock);   clock := t'
  CVodeReInit(mem, t, y) returns a flag and sets clock := t
  CheckFlag(&f, .., 1, ..) == NAUNET_FAIL  <=>  f < 0          (its body is checked separately below)
  log10 / pow(10, .) : pow(10, log10(d)) == d for d > 0, pow(10, x) > 0, pow(10, .) monotone   (IEEE rounding outside the claim)

Every call outcome is a fresh symbolic (flag, t'): all fault sequences at all call positions.
Post: return == NAUNET_SUCCESS  =>  y == y_initial + dt_requested  (the whole interval, nothing skipped or doubled);
      an unrecoverable flag (-5, <= -7) at any level and a failing re-initialisation return NAUNET_FAIL."""
from __future__ import annotations
import re, time
import z3
from pyvc import cmini, smt
from pyvc.cmini import CMiniError

R, I = z3.RealSort(), z3.IntSort()
POW10 = z3.Function("pow10", R, R)
LOG10 = z3.Function("log10", R, R)


def rendered(solver, method, device="cpu"):
    from .native_ode import render, networks
    label, fac = next(x for x in networks("quick", 0) if x[0] == "H2-formation")
    return render(fac(), solver, method, device, jac_pattern=False)


def body_of(text, name):
    from .native_ode import function_body
    b = function_body(text, rf"\b{name}\s*\([^)]*\)\s*\{{")
    if not b:
        raise CMiniError(f"function {name} not found in rendered source")
    return b


def item(name, st, detail="", backend="z3", seconds=0.0):
    return {"name": name, "status": st, "backend": backend, "seconds": seconds, "detail": detail}


def _state_copy_checks(text):
    """the state vector has NEQUATIONS entries (species and, with thermal processes, the temperature): every loop of Solve and
    HandleError that saves, restores or logs it runs over all of them (this is also what justifies executing HandleError on the
    generic element of the arrays)"""
    out = []
    for fname in ("Solve", "HandleError"):
        body = cmini.strip(body_of(text, rf"int\s+Naunet::{fname}"))
        loops = [(m.group(2), m.group(3)) for m in re.finditer(r"for\s*\(\s*int\s+(\w+)\s*=\s*0;\s*\1\s*<\s*(\w+);\s*\1\+\+\s*\)\s*\{([^{}]*)\}", body)
                 if re.search(r"\bab(_init_|_tmp_)?\[", m.group(3))]
        bad = [(b_, blk.strip()[:60]) for b_, blk in loops if b_ != "NEQUATIONS"]
        out.append((f"{fname}/state-copy-loops-cover-all-equations", bool(loops) and not bad, f"{bad}" if bad else f"{len(loops)} loops"))
    return out


def handle_error_items(tier):
    items = []
    for method in ("dense", "sparse"):
        t0w = time.time()
        pre = f"c19/cvode-{method}"
        try:
            files = rendered("cvode", method)
            text = files["src/naunet.cpp"]
            for nm_, ok_, det_ in _state_copy_checks(text):
                items.append(item(f"{pre}/{nm_}", "proved" if ok_ else "refuted", det_, "text-scan"))
            stmts = cmini.parse_body(body_of(text, r"int\s+Naunet::HandleError"))
        except (CMiniError, KeyError) as e:
            items.append(item(f"{pre}/HandleError-in-fragment", "unknown", f"{e}", "cmini"))
            continue
        cvflag0 = z3.Int("cvflag0")
        dt0, t00, y0 = z3.Reals("dt_requested t_reached y_initial")
        pows, logs = [], []
        facts = [cvflag0 < 0, dt0 > 0, t00 >= 0, t00 < dt0]
        outcomes = []

        def c_noop(ex, st, args):
            for a in args:
                if a[0] not in ("num",) and not (a[0] == "id" and a[1] not in st.v and a[1] not in ex.consts):
                    try:
                        ex.ev(a, st)
                    except CMiniError:
                        pass
            return z3.IntVal(0)

        def c_log10(ex, st, args):
            x = ex.ev(args[0], st)
            x = z3.ToReal(x) if z3.is_int(x) else x
            logs.append((x, ex.live(st)))
            return LOG10(x)

        def c_pow(ex, st, args):
            a = z3.simplify(ex.ev(args[0], st))
            if not (z3.is_rational_value(a) or z3.is_int_value(a)) or a.as_fraction() != 10:
                raise CMiniError("pow with base other than 10.0")
            x = ex.ev(args[1], st)
            x = z3.ToReal(x) if z3.is_int(x) else x
            pows.append(x)
            return POW10(x)

        reinits = []

        def c_reinit(ex, st, args):
            f = ex.fresh("reinit_flag", I)
            t = ex.ev(args[1], st)
            t = z3.ToReal(t) if z3.is_int(t) else t
            # assumed contract of CVodeReInit(mem, t0, y0): on success (flag >= 0) the integrator's clock is t0 and it copies y0 into its
            # own history AT THE CALL (what is written to the user's array afterwards is not seen; y0 is cv_y_, which wraps ab); on
            # failure (flag < 0) the integrator is left as it was
            reinits.append((f, ex.live(st)))
            st.v["__clock"] = z3.If(f >= 0, t, st.v["__clock"])
            st.a["__int"] = z3.If(f >= 0, st.a["ab"], st.a["__int"])
            return f

        def c_checkflag(ex, st, args):
            a = args[0]
            if a[0] != "id" or not a[1].startswith("ADDR_"):
                raise CMiniError("CheckFlag argument")
            # CheckFlag(&flag, name, opt, fp): opt == 1 tests the integer for being negative; opt == 0 tests a POINTER for NULL - applied
            # to the address of a flag variable it can never fail (the two branches of the rendered CheckFlag are checked below)
            opt = ex.ev(args[2], st) if len(args) > 2 else z3.IntVal(1)
            return z3.If(opt == 1, z3.If(st.v[a[1][5:]] < 0, ex.consts["NAUNET_FAIL"], ex.consts["NAUNET_SUCCESS"]), ex.consts["NAUNET_SUCCESS"])

        def c_cvode(ex, st, args):
            tout = ex.ev(args[1], st)
            tvar = args[3]
            if tvar[0] != "id" or not tvar[1].startswith("ADDR_"):
                raise CMiniError("CVode time argument")
            f = ex.fresh("cv_flag", I)
            tp = ex.fresh("cv_t", R)
            clock = st.v["__clock"]
            facts.append(z3.If(f >= 0, tp == tout, z3.And(tp >= clock, z3.Or(tp < tout, z3.And(tout <= clock, tp == clock)))))
            outcomes.append((f, tp, tout, clock, ex.live(st)))
            # assumed contract of CVode(mem, tout, yout, &t, CV_NORMAL): the integrator advances ITS OWN state from its clock to the
            # reached time and writes it to yout = cv_y_, which wraps ab (checked on Solve below)
            st.a["__int"] = st.a["__int"] + (tp - clock)
            st.a["ab"] = st.a["__int"]
            st.v[tvar[1][5:]] = tp
            st.v["__clock"] = tp
            return f
        consts = {"NAUNET_SUCCESS": z3.IntVal(0), "NAUNET_FAIL": z3.IntVal(1), "CV_NORMAL": z3.IntVal(1),
                  "NEQUATIONS": z3.Int("NEQUATIONS"), "cv_mem_": z3.IntVal(0), "cv_y_": z3.IntVal(0), "errfp_": z3.IntVal(0)}
        calls = {"fprintf": c_noop, "printf": c_noop, "log10": c_log10, "pow": c_pow, "CVodeReInit": c_reinit,
                 "CheckFlag": c_checkflag, "CVode": c_cvode}
        ex = cmini.Exec(consts, calls, max_unroll=64)

        def step_loop(ex, s, new, old, live):
            """contract of the sub-step loop `for (int step = 1; step < nsubsteps + 1; step++)` (inductive invariant
            instead of unrolling): with S the state at loop entry and e(j) = logdt - level + level*j/nsubsteps,
              not broken, after j >= 1 iterations:  cvflag >= 0, t0 == clock == pow10(e(j)), ab == S.ab + clock - S.clock
              broken (left by `break`):             cvflag <  0, t0 == clock, S.clock <= clock < pow10(logdt), ab == S.ab + clock - S.clock"""
            var, body = s[1], s[4]
            lo = z3.simplify(ex.ev(s[2], new))
            hi = z3.simplify(ex.ev(s[3], new))
            if not (z3.is_int_value(lo) and z3.is_int_value(hi)):
                raise CMiniError("sub-step loop bounds are not constants")
            lo_i, hi_i = lo.as_long(), hi.as_long()
            nsub = hi_i - lo_i
            level, logdt = new.v["level"], new.v["logdt"]
            S_ab, S_clock, S_flag, S_t0 = new.a["ab"], new.v["__clock"], new.v["cvflag"], new.v["t0"]
            tag = f"level{z3.simplify(level)}"

            def e(j):
                return logdt - z3.ToReal(level) + z3.ToReal(level) * z3.ToReal(j) / z3.RealVal(nsub)

            def inv(stt, k):
                cl = stt.v["__clock"]
                notbroken = z3.If(k == lo_i,
                                  z3.And(stt.v["cvflag"] == S_flag, stt.v["t0"] == S_t0, stt.a["ab"] == S_ab, cl == S_clock),
                                  z3.And(stt.v["cvflag"] >= 0, stt.v["t0"] == cl, cl == POW10(e(k - 1 - (lo_i - 1))), stt.a["ab"] == S_ab + cl - S_clock))
                broken = z3.And(stt.v["cvflag"] < 0, stt.v["t0"] == cl, S_clock <= cl, cl < POW10(logdt), stt.a["ab"] == S_ab + cl - S_clock)
                # the integrator's own state is the user's array throughout the loop (at entry: the re-initialisation copied it)
                return z3.And(z3.If(stt.broken, broken, notbroken), stt.a["__int"] == stt.a["ab"])
            base_facts = list(facts)
            # establishment
            ex.obligations.append((f"substep-loop/{tag}/establish", base_facts, z3.Implies(live, inv(new, lo))))
            # preservation for an arbitrary iteration k
            k = ex.fresh("step", I)
            h = new.copy()
            h.v["cvflag"], h.v["t0"], h.v["__clock"] = ex.fresh("h_flag", I), ex.fresh("h_t0", R), ex.fresh("h_clock", R)
            h.a["ab"] = ex.fresh("h_ab", R)
            h.a["__int"] = ex.fresh("h_int", R)
            h.broken = z3.BoolVal(False)
            h.v[var] = k
            nfacts = len(facts)
            pre = [live, k >= lo_i, k < hi_i, inv(h, k), S_clock == 0, POW10(logdt) > 0]
            after = ex.run(body, h.copy())
            mono = []
            ek, ek1 = e(k - lo_i + 1), e(k - lo_i)
            mono += [POW10(ek1) < POW10(ek), POW10(ek) <= POW10(logdt), POW10(ek1) > 0, POW10(ek) > 0]   # pow10 strictly monotone, e(k) <= logdt
            ex.obligations.append((f"substep-loop/{tag}/preserve", base_facts + facts[nfacts:] + pre + mono, inv(after, k + 1)))
            ex.obligations.append((f"substep-loop/{tag}/monotone-instances-sound", [k >= lo_i, k < hi_i], z3.And(ek1 < ek, ek <= logdt)))
            ex.obligations.append((f"substep-loop/{tag}/clock-is-zero-after-reinit", base_facts, z3.Implies(live, S_clock == 0)))
            ex.obligations.append((f"substep-loop/{tag}/never-asked-to-integrate-backwards", base_facts + pre + mono, POW10(ek) > h.v["__clock"]))
            del facts[nfacts:]
            # use: havoc and assume the invariant at exit
            out = new.copy()
            f2, t2, c2, a2, b2 = ex.fresh("x_flag", I), ex.fresh("x_t0", R), ex.fresh("x_clock", R), ex.fresh("x_ab", R), ex.fresh("x_broke", z3.BoolSort())
            out.v["cvflag"], out.v["t0"], out.v["__clock"] = f2, t2, c2
            out.a["ab"] = a2
            out.a["__int"] = ex.fresh("x_int", R)
            tmp = out.copy()
            tmp.broken = b2
            facts.append(z3.Implies(live, z3.And(inv(tmp, z3.IntVal(hi_i)), z3.simplify(e(z3.IntVal(nsub))) == logdt)))
            res = ex._guard(live, out, old)
            res.broken = old.broken      # `break` leaves this loop only
            res.v.pop(var, None)
            return res
        ex.loop_contracts["step"] = step_loop
        st = cmini.State({"cvflag": cvflag0, "dt": dt0, "t0": t00, "__clock": t00},
                         {"ab": y0 + t00, "ab_init_": y0, "ab_tmp_": y0, "__int": y0 + t00})
        # arrays are represented by their generic element: every array access of the body must be an element-wise
        # copy loop (enforced by cmini.array_copy_loop), so one component stands for all
        ex.ev_idx_scalar = True
        try:
            fin = _run_scalar_arrays(ex, stmts, st)
        except CMiniError as e:
            items.append(item(f"{pre}/HandleError-in-fragment", "unknown", f"{e}", "cmini"))
            continue
        items.append(item(f"{pre}/HandleError-in-fragment", "proved", f"{len(stmts)} top-level statements, {len(outcomes)} integrator calls unrolled", "cmini-unroll"))
        # library facts, instantiated for the terms that occur
        for (x, live) in logs:
            facts.append(z3.Implies(x > 0, POW10(LOG10(x)) == x))
        logterms = [LOG10(x) for x, _ in logs]
        for p in pows:
            facts.append(POW10(p) > 0)
            for lt in logterms:
                facts.append(z3.Implies(p <= lt, POW10(p) <= POW10(lt)))
        for a, b in zip(pows, pows[1:]):
            facts.append(z3.Implies(a < b, POW10(a) < POW10(b)))
            facts.append(z3.Implies(b < a, POW10(b) < POW10(a)))
        SUCCESS, FAIL = consts["NAUNET_SUCCESS"], consts["NAUNET_FAIL"]

        def prove(name, claim, timeout=120000):
            t1 = time.time()
            stt, be, dt, mdl = smt.check_valid(facts, claim, timeout_ms=timeout)
            det = ""
            if mdl is not None:
                ev = lambda t: mdl.eval(t, model_completion=True)
                trace = [f"cvflag0={ev(cvflag0)} t_reached={ev(t00)} dt={ev(dt0)} y0={ev(y0)} final_ab={ev(fin.a['ab'])} ret={ev(fin.retval)}"]
                for (f, tp, tout, clock, live) in outcomes:
                    if z3.is_true(ev(live)):
                        trace.append(f"CVode(tout={ev(tout)}) clock={ev(clock)} -> flag={ev(f)} t={ev(tp)}")
                det = "counter-model: " + " ; ".join(trace)[:6000]
            items.append(item(f"{pre}/{name}", stt, det, be, time.time() - t1))
        for nm, assumptions, claim in ex.obligations:
            t1 = time.time()
            stt, be, dt, mdl = smt.check_valid(assumptions, claim, timeout_ms=60000)
            det = ""
            if mdl is not None:
                parts = []
                def walk(f, depth=0):
                    v = mdl.eval(f, model_completion=True)
                    if z3.is_false(v) and depth < 4:
                        if z3.is_and(f):
                            for c in f.children():
                                walk(c, depth + 1)
                        elif z3.is_app(f) and f.decl().kind() == z3.Z3_OP_ITE:
                            cv = mdl.eval(f.arg(0), model_completion=True)
                            walk(f.arg(1) if z3.is_true(cv) else f.arg(2), depth + 1)
                        else:
                            parts.append(str(f)[:200])
                walk(claim)
                det = "false conjuncts: " + " || ".join(parts)[:900]
            items.append(item(f"{pre}/{nm}", stt, det, be, time.time() - t1))
        prove("returns", fin.returned)
        prove("success-means-whole-interval-integrated", z3.Implies(z3.And(fin.returned, fin.retval == SUCCESS), fin.a["ab"] == y0 + dt0))
        prove("returns-success-or-fail", z3.Or(fin.retval == SUCCESS, fin.retval == FAIL))
        # the last integrator outcome that was live decides: negative flag at the end => FAIL
        last_flag = fin.v.get("cvflag")
        prove("negative-final-flag-is-failure", z3.Implies(last_flag < 0, fin.retval == FAIL))
        prove("failing-reinitialisation-is-failure", z3.And(*[z3.Implies(z3.And(lv, f < 0), fin.retval == FAIL) for f, lv in reinits]) if reinits else z3.BoolVal(False))
        prove("unrecoverable-first-flag-is-failure", z3.Implies(z3.Or(cvflag0 == -5, cvflag0 <= -7), fin.retval == FAIL))
        for (x, live) in logs:
            pass
        prove("log10-argument-positive", z3.And(*[z3.Implies(live, x > 0) for x, live in logs]) if logs else z3.BoolVal(True))
        # vacuity: the success exit and the failure exit are both reachable, also through the recovery ladder
        for nm, cond in [("cover/success-after-recovery", z3.And(fin.retval == SUCCESS, cvflag0 == -1)),
                         ("cover/success-after-reset", z3.And(fin.retval == SUCCESS, cvflag0 == -6)),
                         ("cover/failure-after-five-levels", z3.And(fin.retval == FAIL, cvflag0 == -4))]:
            t1 = time.time()
            s, _ = smt.check_sat(facts + [cond], timeout_ms=60000)
            items.append(item(f"{pre}/{nm}", "proved" if s == "sat" else "unknown", f"cover query answered {s}", "z3-cover", time.time() - t1))
        # Solve: structure around the call
        solve = body_of(text, r"int\s+Naunet::Solve")
        s_ = cmini.strip(solve)
        checks = [
            ("Solve/integrator-aliases-ab", re.search(r"N_VSetArrayPointer\(ab,\s*cv_y_\)", s_) is not None),
            ("Solve/initial-state-saved", re.search(r"ab_init_\[i\]\s*=\s*ab\[i\];", s_) is not None),
            ("Solve/first-call-integrates-dt", re.search(r"cvflag\s*=\s*CVode\(cv_mem_,\s*dt,\s*cv_y_,\s*&t0,\s*CV_NORMAL\);\s*int flag\s*=\s*HandleError\(cvflag,\s*ab,\s*dt,\s*t0\);", s_) is not None),
            ("Solve/returns-HandleError-result", re.search(r"CVodeFree\(&cv_mem_\);\s*return flag;", s_) is not None),
            ("Solve/failure-logs-initial-state", re.search(r"if \(flag == NAUNET_FAIL\) \{.*?ab_init_\[i\]\);", s_, flags=re.S) is not None),
        ]
        # the Python binding reports the same failure: PyWrapSolve raises exactly when Solve returned NAUNET_FAIL
        try:
            pw = cmini.strip(body_of(text, r"Naunet::PyWrapSolve"))
            okpw = re.search(r"int\s+flag\s*=\s*Solve\(ab,\s*dt,\s*data\);\s*if\s*\(\s*flag\s*==\s*NAUNET_FAIL\s*\)\s*\{\s*throw\b", pw) is not None
            checks.append(("PyWrapSolve/raises-when-Solve-fails", okpw, pw[:160].replace("\n", " ")))
        except Exception as e:
            checks.append(("PyWrapSolve/raises-when-Solve-fails", False, f"{e}"))
        for chk in checks:
            nm, ok = chk[0], chk[1]
            items.append(item(f"{pre}/{nm}", "proved" if ok else "refuted", chk[2] if len(chk) > 2 else "", "text-scan"))
        cf = cmini.strip(body_of(text, r"int\s+Naunet::CheckFlag"))
        ok = re.search(r"else if \(opt == 1\) \{\s*errflag = \(int \*\)flagvalue;\s*if \(\*errflag < 0\) \{.*?return NAUNET_FAIL;\s*\}\s*\}", cf, flags=re.S) is not None \
            and cf.strip().endswith("return NAUNET_SUCCESS;")
        items.append(item(f"{pre}/CheckFlag-opt1-fails-iff-negative", "proved" if ok else "refuted", "", "text-scan"))
    return items


def _run_scalar_arrays(ex, stmts, st):
    """arrays as generic elements: Select/Store on them are scalar reads/writes"""
    orig_ev, orig_set = ex.ev, ex._set

    def ev(e, s):
        if e[0] == "idx":
            return s.a[e[1]]
        return orig_ev(e, s)

    def _set(new, target, val, live, old, declare=False):
        if target[0] == "idx":
            n = target[1]
            new.a[n] = val if z3.is_true(z3.simplify(live)) else z3.If(live, val, old.a[n])
            return
        return orig_set(new, target, val, live, old, declare)
    ex.ev, ex._set = ev, _set

    def copy_loop(s, new, old, live):
        var, body = s[1], s[4]
        for b in body:
            ok = b[0] == "assign" and b[2] == "=" and b[1][0] == "idx" and b[1][2] == ("id", var) and b[3][0] == "idx" and b[3][2] == ("id", var)
            if not ok:
                raise CMiniError("loop with symbolic bound is not an element-wise array copy")
            val = new.a[b[3][1]]
            new.a[b[1][1]] = val if z3.is_true(z3.simplify(live)) else z3.If(live, val, old.a[b[1][1]])
        return new
    ex.array_copy_loop = copy_loop
    return ex.run(stmts, st)


def odeint_items(tier):
    """step budget: Observer throws beyond mxsteps_, Solve turns the exception into NAUNET_FAIL, Init/Reset store
    the budget on every path"""
    items = []
    pre = "c19/odeint"
    try:
        files = rendered("odeint", "rosenbrock4")
        main, ode = files["src/naunet.cpp"], files["src/naunet_ode.cpp"]
    except Exception as e:
        return [item(f"{pre}/render", "unknown", str(e), "cmini")]
    # Observer::operator(): executed symbolically up to the throw
    ob = cmini.strip(body_of(ode, r"void\s+Observer::operator\(\)"))
    ok = re.fullmatch(r"\s*step_ \+= 1;\s*time_ = t;\s*if \(step_ > mxsteps_\) \{.*?throw std::runtime_error\(err\);\s*\}\s*", ob, flags=re.S) is not None
    items.append(item(f"{pre}/observer-throws-beyond-budget", "proved" if ok else "refuted", ob[:200], "text-scan"))
    ctor = cmini.strip(body_of(ode, r"Observer::Observer"))
    items.append(item(f"{pre}/observer-budget-from-argument", "proved" if re.search(r"mxsteps_\s*=\s*mxsteps;", ctor) and re.search(r"step_\s*=\s*0;", ctor) else "refuted", ctor[:120], "text-scan"))
    sv = cmini.strip(body_of(main, r"int\s+Naunet::Solve"))
    ok = re.search(r"Observer observer\(mxsteps_\);", sv) and re.search(
        r"try \{\s*step_ = integrate_adaptive\(.*?,\s*y,\s*0\.0,\s*dt,\s*dt,\s*observer\);\s*\} catch \(const std::runtime_error &e\) \{.*?flag = NAUNET_FAIL;\s*\}", sv, flags=re.S) \
        and re.search(r"return flag;\s*$", sv.strip()) and re.search(r"int flag = NAUNET_SUCCESS;", sv)
    items.append(item(f"{pre}/solve-reports-exceeded-budget-as-failure", "proved" if ok else "refuted", "", "text-scan"))
    # Init / Reset: symbolic execution: at every successful return mxsteps_ == mxsteps
    for fn in ("Reset", "Init"):
        try:
            body = body_of(main, rf"int\s+Naunet::{fn}")
            stmts = cmini.parse_body(body)
            mx, ns = z3.Int("mxsteps"), z3.Int("nsystem")
            at, rt = z3.Reals("atol rtol")
            old = {k: z3.Int("old_" + k) for k in ("n_system_", "mxsteps_")}
            oldr = {k: z3.Real("old_" + k) for k in ("atol_", "rtol_")}
            consts = {"NAUNET_SUCCESS": z3.IntVal(0), "NAUNET_FAIL": z3.IntVal(1), "NULL": z3.IntVal(0)}

            def noop(ex, st, args):
                return z3.IntVal(0)
            calls = {"printf": noop, "fprintf": noop, "fopen": noop}
            ex = cmini.Exec(consts, calls)
            st = cmini.State({"mxsteps": mx, "nsystem": ns, "atol": at, "rtol": rt, **old, **oldr, "errfp_": z3.IntVal(0)}, {})
            fin = ex.run(stmts, st)
            claim = z3.Implies(z3.And(fin.returned, fin.retval == 0), z3.And(fin.v["mxsteps_"] == mx, fin.v["atol_"] == at, fin.v["rtol_"] == rt))
            stt, be, dt, mdl = smt.check_valid([], claim)
            det = "" if mdl is None else "counter-model: " + ", ".join(f"{d.name()}={mdl[d]}" for d in mdl.decls() if d.arity() == 0)[:300]
            items.append(item(f"{pre}/{fn}-stores-budget-on-every-successful-path", stt, det, be, dt))
        except (CMiniError, KeyError) as e:
            items.append(item(f"{pre}/{fn}-stores-budget-on-every-successful-path", "unknown", f"{e}", "cmini"))
    return items
