"""C04 as a lemma over the contract of _prepare_ode_content (not over the code):

  den(fex[i]) == S(N_REAC, i) == sum_q contrib(q, i)            (postcondition post/fex/mass-action, C01)

For a weight vector c (element count or charge per species slot) and one reaction q define
  W(q, n) = sum_{i<n} c(i) * contrib(q, i).
Induction on n proves  W(q, n) == T_q * ( sum_{products m with slot < n} c(slot) - sum_{reactants ...} c(slot) ),
hence W(q, n_spec) == 0 for every reaction that is balanced for c, for every value of k and y.
Bridge L2 (stated, standard): sum_i c_i * sum_q contrib(q,i) == sum_q W(q, n_spec)  (exchange of two finite sums)."""
from __future__ import annotations
import time
import z3
from pyvc import smt
from . import ode as O

I, R = z3.IntSort(), z3.RealSort()


def items(tier):
    out = []
    c = z3.Function("weight", I, R)
    W = z3.Function("W", I, I, R)
    q, n, i = z3.Ints("q n i")
    T = O.Kk(q) * O.M(q)

    def prods_below(n_):
        return z3.Sum([z3.If(z3.And(O.np_(q) > m, O.aP(q, m) >= 0, O.aP(q, m) < n_), c(O.aP(q, m)), z3.RealVal(0)) for m in range(O.MAXP)])

    def reacts_below(n_):
        return z3.Sum([z3.If(z3.And(O.nr(q) > m, O.aR(q, m) >= 0, O.aR(q, m) < n_), c(O.aR(q, m)), z3.RealVal(0)) for m in range(O.MAXR)])

    def wcontrib(i_):
        # c(i) * contrib(q, i) with the weight moved inside the case split
        return z3.Sum([z3.If(z3.And(O.np_(q) > m, O.aP(q, m) == i_), c(i_) * T, z3.RealVal(0)) for m in range(O.MAXP)]) - \
            z3.Sum([z3.If(z3.And(O.nr(q) > m, O.aR(q, m) == i_), c(i_) * T, z3.RealVal(0)) for m in range(O.MAXR)])

    def run(name, assumptions, claim):
        t0 = time.time()
        st, be, dt, mdl = smt.check_valid(assumptions, claim, timeout_ms=30000)
        out.append({"name": name, "status": st, "backend": be, "seconds": time.time() - t0, "detail": str(claim)[:240]})

    # 0. the weighted term is c(i) times the contract's contrib(q, i)
    run("lemma/conservation/weighted-term-is-c-times-contrib", [], wcontrib(i) == c(i) * O.contrib(q, i))
    # 1. induction on n
    defW0 = W(q, 0) == 0
    step_def = W(q, n + 1) == W(q, n) + wcontrib(n)
    P = lambda n_: W(q, n_) == T * (prods_below(n_) - reacts_below(n_))
    run("lemma/conservation/induction-base", [defW0], P(z3.IntVal(0)))
    run("lemma/conservation/induction-step", [n >= 0, step_def, P(n)], P(n + 1))
    # 2. balanced reaction with all slots inside [0, n_spec): W(q, n_spec) == 0
    ns = O.n_spec
    inrange = z3.And(*[z3.And(O.aP(q, m) >= 0, O.aP(q, m) < ns) for m in range(O.MAXP)] +
                      [z3.And(O.aR(q, m) >= 0, O.aR(q, m) < ns) for m in range(O.MAXR)])
    balanced = z3.Sum([z3.If(O.np_(q) > m, c(O.aP(q, m)), z3.RealVal(0)) for m in range(O.MAXP)]) == \
        z3.Sum([z3.If(O.nr(q) > m, c(O.aR(q, m)), z3.RealVal(0)) for m in range(O.MAXR)])
    run("lemma/conservation/balanced-reaction-contributes-zero", [inrange, balanced, P(ns)], W(q, ns) == 0)
    # 3. the thermal slot and modifiers are outside the claim (statement: reactions only); species that take
    #    part in no reaction have den == S == 0: contrib is 0 for a slot that is nobody's reactant or product
    nobody = z3.And(*[z3.Or(O.np_(q) <= m, O.aP(q, m) != i) for m in range(O.MAXP)] + [z3.Or(O.nr(q) <= m, O.aR(q, m) != i) for m in range(O.MAXR)])
    run("lemma/conservation/uninvolved-species-get-zero", [nobody], O.contrib(q, i) == 0)
    return out
