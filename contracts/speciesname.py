"""C08 / C04 / C09 (deductive part): the name-derived properties of a parsed species - charge, basename, gasname.

A species name is modelled as the structured string
        [ surface prefix + group digits ]  core  [ run of k '+'  |  run of k '-' ]        k >= 1 symbolic
where `core` is an abstract non-empty word about which only this is assumed (requires, checked on generated names by the bounded
oracle of C08): it does not contain the surface prefix and does not END in '+' or '-' (it may contain a hyphen: c-C3H2, l-C3H).
The real property bodies of naunet.species.Species are executed on such names.
  ensures  charge   == +k / -k / 0                      (only the trailing run counts; a hyphen inside the core is no charge)
           basename == core                              (prefix, group and charge signs removed, nothing else)
           gasname  == core + run                        (prefix and group removed, the charge kept); == name for a gas-phase species
The electron (names e-, E, E-) is excluded by the precondition `not is_electron`; its charge is fixed by a constant in the code.
Models used (stated here because they are part of the trusted base):
  re.findall(r"\\+*$" | r"-*$", s)   the trailing run of that character, then the empty match at the end: [run, ""] if the run is
                                   non-empty else [""]  (CPython semantics of findall with a pattern that can match empty)
  re.sub(r"\\+*$" | r"-*$", "", s)   s without its trailing run of that character
  str.count(c) on a name           count in the literal part + COUNT_c(core) (uninterpreted, >= 0) + (k if the run is made of c)"""
from __future__ import annotations
import z3
from pyvc.context import VerifContext
from pyvc.sym import SStr, SInt, Lit, Hole, Unsupported
from pyvc.interp import PyRaise
from pyvc.ops import term_of
from pyvc.cfrag import StrId

P = ("C08", "C04", "C09")
I = z3.IntSort()
CORE = z3.Const("core_text", StrId)
CNT = {"+": z3.Function("count_plus_in", StrId, I), "-": z3.Function("count_minus_in", StrId, I)}
PATS = {r"\+*$": "+", r"-*$": "-"}


def is_run(seg):
    return isinstance(seg, Hole) and isinstance(seg.extra, dict) and seg.extra.get("run")


class NameCtx(VerifContext):
    def __init__(self, props=()):
        super().__init__(props)
        self.call_contracts["re.findall"] = self.c_findall
        self.call_contracts["re.sub"] = self.c_sub
        self.call_contracts["naunet.species.Species.is_electron"] = lambda ip, a, k: False      # requires: not the electron

    # ---- regular expressions of the fragment
    def _tail(self, interp, s, ch):
        """-> (segments without the trailing run of `ch`, the run segment or None), forking on an empty run"""
        if isinstance(s, str):
            t = s.rstrip(ch)
            return ([Lit(t)] if t else []), (s[len(t):] or None)
        segs = list(s.segs)
        if segs and is_run(segs[-1]):
            run = segs[-1]
            if interp.branch(run.extra["n"] > 0):
                return (segs[:-1], run) if run.extra["ch"] == ch else (segs, None)
            segs = segs[:-1]
        last = segs[-1] if segs else None
        if isinstance(last, Lit):
            t = last.text.rstrip(ch)
            if t != last.text:
                if t:
                    raise Unsupported("trailing sign after other literal text")
                # a literal run of the sign: the segment before it is the core, which does not end in a sign
                return segs[:-1], last.text
            if t and t[-1] not in "+-":
                return segs, None
            if last.text and last.text[-1] in "+-":
                return segs, None          # a run of the other sign
            return segs, None
        if isinstance(last, Hole) and last.kind == "word" and isinstance(last.extra, dict) and last.extra.get("no_trailing_sign"):
            return segs, None          # requires: the core does not end in '+' or '-'
        if last is None:
            return segs, None
        raise Unsupported(f"trailing run of {ch!r} in {s!r}")

    def c_findall(self, interp, args, kwargs):
        pat, s = args[0], args[1]
        if pat not in PATS or kwargs or len(args) != 2:
            raise Unsupported(f"re.findall({pat!r}, ...) is outside the modelled patterns")
        rest, run = self._tail(interp, s, PATS[pat])
        if run is None:
            return [""]
        return [run if isinstance(run, str) else SStr([run]), ""]

    def c_sub(self, interp, args, kwargs):
        pat, repl, s = args[0], args[1], args[2]
        if pat not in PATS or repl != "" or kwargs or len(args) != 3:
            raise Unsupported(f"re.sub({pat!r}, {repl!r}, ...) is outside the modelled patterns")
        rest, run = self._tail(interp, s, PATS[pat])
        if isinstance(s, str):
            return "".join(x.text for x in rest)
        return SStr(rest) if rest else ""

    # ---- str methods on names
    def str_count(self, interp, s, sub):
        if isinstance(s, SStr) and sub in CNT:
            tot = z3.IntVal(0)
            for seg in s.segs:
                if isinstance(seg, Lit):
                    tot = tot + seg.text.count(sub)
                elif is_run(seg):
                    tot = tot + (seg.extra["n"] if seg.extra["ch"] == sub else 0)
                elif isinstance(seg, Hole) and seg.kind == "word":
                    interp.assume(CNT[sub](seg.val) >= 0)
                    tot = tot + CNT[sub](seg.val)
                else:
                    raise Unsupported("count on this structured string")
            return SInt(z3.simplify(tot))
        return super().str_count(interp, s, sub)


def make_ctx(props=()):
    return NameCtx(props)


def entry(it):
    from naunet.species import Species
    phase = ["gas", "ice", "ice-group"][it.choose(3, "phase")]
    sign = ["neutral", "cation", "anion"][it.choose(3, "sign")]
    prefix = it.choose(2, "prefix") if phase != "gas" else 0
    sym = ["#", "G"][prefix]
    grp = 2 if phase == "ice-group" else None
    n = z3.Int("k_signs")
    it.assume(n >= 1)
    core = Hole("word", val=CORE, minlen=1, extra={"lacks": (sym, f"{sym}{grp or ''}"), "no_trailing_sign": True})
    run = None if sign == "neutral" else Hole("word", val=z3.Const("sign_run", StrId), minlen=1,
                                              extra={"run": True, "ch": "+" if sign == "cation" else "-", "n": n, "chars": "+" if sign == "cation" else "-"})
    segs = ([Lit(f"{sym}{grp or ''}")] if phase != "gas" else []) + [core] + ([run] if run is not None else [])
    sp = Species.__new__(Species)
    sp.name = SStr(segs)
    sp._is_surface, sp._surface_prefix, sp._surface_group = phase != "gas", sym, grp
    sp._is_grain, sp._grain_symbol, sp._grain_group = False, "GRAIN", None
    tag = f"{phase}{'/' + sym if phase != 'gas' else ''}/{sign}"
    it.cover("requires")

    def same(res, want_segs):
        if isinstance(res, str):
            res = SStr([Lit(res)]) if res else SStr([])
        return isinstance(res, SStr) and len(res.segs) == len(want_segs) and all(a is b for a, b in zip(res.segs, want_segs))
    # ---- charge
    try:
        ch = it.call_function(Species.charge.fget, [sp], {})
    except PyRaise as e:
        it.fail(f"name/{tag}/charge-no-exception", P, f"{type(e.exc).__name__}: {e.exc}")
        return
    want = z3.IntVal(0) if sign == "neutral" else (n if sign == "cation" else -n)
    it.prove(term_of(ch) == want, f"name/{tag}/charge-is-the-trailing-run", P, detail=f"charge = {ch!r}")
    # ---- basename
    try:
        bn = it.call_function(Species.basename.fget, [sp], {})
    except PyRaise as e:
        it.fail(f"name/{tag}/basename-no-exception", P, f"{type(e.exc).__name__}: {e.exc}")
        return
    if same(bn, [core]):
        it.prove(z3.BoolVal(True), f"name/{tag}/basename-is-the-core", P)
    else:
        it.fail(f"name/{tag}/basename-is-the-core", P, f"basename of {sp.name!r} is {bn!r}")
    # ---- gasname
    try:
        gn = it.call_function(Species.gasname.fget, [sp], {})
    except PyRaise as e:
        it.fail(f"name/{tag}/gasname-no-exception", P, f"{type(e.exc).__name__}: {e.exc}")
        return
    if same(gn, [core] + ([run] if run is not None else [])):
        it.prove(z3.BoolVal(True), f"name/{tag}/gasname-drops-the-prefix-only", P)
    else:
        it.fail(f"name/{tag}/gasname-drops-the-prefix-only", P, f"gasname of {sp.name!r} is {gn!r}")


def _register():
    from pyvc.units import Unit, register
    from naunet.species import Species
    register(Unit("species_name_properties", __name__, make_ctx, entry,
                  functions=[Species.charge.fget, Species.basename.fget, Species.gasname.fget], props=P))


_register()


# ---------------------------------------------------------------------------------------------- alias
REPL = z3.Function("replace_in_word", StrId, StrId, StrId, StrId)      # text after str.replace(old, new) inside an abstract word
LITID = z3.Function("literal_text", z3.StringSort(), StrId)


class AliasCtx(NameCtx):
    """str.replace(key, value) applied to a string that consists of the abstract core only is an uninterpreted function of the core
    (the element-case normalisation of the alias is data driven: one replace per upper-case symbol of the element tables); applied to
    anything else the generic exact-or-fail-closed model is used, so a replacement that could touch the phase letter or the charge
    suffix is not accepted silently."""

    def str_replace(self, interp, s, old, new):
        if isinstance(s, SStr) and len(s.segs) == 1 and isinstance(s.segs[0], Hole) and s.segs[0].kind == "word" and not is_run(s.segs[0]):
            h = s.segs[0]
            return SStr([Hole("word", val=REPL(h.val, LITID(z3.StringVal(old)), LITID(z3.StringVal(new))), minlen=0,
                              extra=dict(h.extra or {}, normalised_core=True))])
        return None


def entry_alias(it):
    from naunet.species import Species
    Species.reset()
    Species.set_known_elements(["H", "HE", "C", "N", "O", "S", "SI", "NI", "E"])       # an upper-case list: several symbols get normalised
    Species.set_known_pseudoelements(["CRP"])
    phase = ["gas", "ice"][it.choose(2, "phase")]
    charge = [0, 1, 2, -1, -2][it.choose(5, "charge")]
    sym = "#"
    core = Hole("word", val=CORE, minlen=1, extra={"lacks": (sym,), "no_trailing_sign": True})
    sign = "+" * charge if charge > 0 else "-" * (-charge)
    sp = Species.__new__(Species)
    sp.name = SStr(([Lit(sym)] if phase == "ice" else []) + [core] + ([Lit(sign)] if sign else []))
    sp._alias = None
    sp._is_surface, sp._surface_prefix, sp._surface_group = phase == "ice", sym, None
    sp._is_grain, sp._grain_symbol, sp._grain_group = False, "GRAIN", None
    tag = f"{phase}/charge{charge:+d}"
    it.cover("requires")
    try:
        al = it.call_function(Species.alias.fget, [sp], {})
    except PyRaise as e:
        it.fail(f"alias/{tag}/no-exception", P, f"{type(e.exc).__name__}: {e.exc}")
        return
    suffix = "I" * (charge + 1) if charge >= 0 else "M" * (-charge)
    segs = list(al.segs) if isinstance(al, SStr) else []
    ok = bool(segs)
    if ok and phase == "ice":
        ok = isinstance(segs[0], Lit) and segs[0].text == "G"
        segs = segs[1:]
    ok = ok and len(segs) == 2 and isinstance(segs[0], Hole) and isinstance(segs[0].extra, dict) and \
        (segs[0].extra.get("normalised_core") or segs[0] is core) and isinstance(segs[1], Lit) and segs[1].text == suffix
    if ok:
        it.prove(z3.BoolVal(True), f"alias/{tag}/phase-letter-normalised-core-charge-suffix", P)
    else:
        it.fail(f"alias/{tag}/phase-letter-normalised-core-charge-suffix", P, f"alias of {sp.name!r} is {al!r}, expected {'G' if phase == 'ice' else ''}<normalised core>{suffix}")


def _register_alias():
    from pyvc.units import Unit, register
    from naunet.species import Species
    register(Unit("species_alias_shape", __name__, lambda props=(): AliasCtx(props), entry_alias, functions=[Species.alias.fget], props=("C09", "C04")))


_register_alias()
