"""Concrete evaluator for the emitted C fragment (exact rational arithmetic with forward-mode derivatives).
Independent of pyvc.cfrag's symbolic denotation: used by the bounded native checks and by replay."""
from __future__ import annotations
import re, math
from fractions import Fraction

_tok = re.compile(r"\s*(?:(\d+\.\d*(?:[eE][+-]?\d+)?|\.\d+(?:[eE][+-]?\d+)?|\d+(?:[eE][+-]?\d+)?)|([A-Za-z_][A-Za-z0-9_]*)|(<=|>=|==|!=|&&|\|\||\+\+|--|[-+*/%<>!?:()\[\],;={}]))")


class CSyntaxError(Exception):
    pass


def tokenize(s):
    out, i = [], 0
    s = s.strip()
    while i < len(s):
        m = _tok.match(s, i)
        if not m or m.end() == i:
            raise CSyntaxError(f"bad character at {s[i:i+10]!r}")
        if m.group(1):
            out.append(("num", m.group(1)))
        elif m.group(2):
            out.append(("id", m.group(2)))
        else:
            out.append(("op", m.group(3)))
        i = m.end()
        while i < len(s) and s[i].isspace():
            i += 1
    return out


class P:
    def __init__(self, toks):
        self.t, self.i = toks, 0

    def peek(self):
        return self.t[self.i] if self.i < len(self.t) else (None, None)

    def op(self, *ops):
        k, v = self.peek()
        return k == "op" and v in ops

    def eat(self, o):
        if not self.op(o):
            raise CSyntaxError(f"expected {o} got {self.peek()}")
        self.i += 1

    def expr(self):
        c = self.binary(0)
        if self.op("?"):
            self.i += 1
            a = self.expr()
            self.eat(":")
            b = self.expr()
            return ("?", c, a, b)
        return c

    LV = [("||",), ("&&",), ("==", "!="), ("<", ">", "<=", ">="), ("+", "-"), ("*", "/", "%")]

    def binary(self, k):
        if k == len(self.LV):
            return self.unary()
        l = self.binary(k + 1)
        while self.op(*self.LV[k]):
            o = self.peek()[1]
            self.i += 1
            r = self.binary(k + 1)
            l = (o, l, r)
        return l

    def unary(self):
        if self.op("-", "+", "!"):
            o = self.peek()[1]
            self.i += 1
            return ("u" + o, self.unary())
        if self.op("++", "--"):
            raise CSyntaxError("++/-- in expression")
        return self.postfix()

    def postfix(self):
        k, v = self.peek()
        if k == "num":
            self.i += 1
            return ("num", v)
        if k == "op" and v == "(":
            self.i += 1
            e = self.expr()
            self.eat(")")
            return e
        if k == "id":
            self.i += 1
            if self.op("("):
                self.i += 1
                args = []
                if not self.op(")"):
                    args.append(self.expr())
                    while self.op(","):
                        self.i += 1
                        args.append(self.expr())
                self.eat(")")
                return ("call", v, args)
            if self.op("["):
                self.i += 1
                e = self.expr()
                self.eat("]")
                return ("idx", v, e)
            return ("id", v)
        raise CSyntaxError(f"unexpected {self.peek()}")


def parse_expr(s):
    p = P(tokenize(s))
    e = p.expr()
    if p.i != len(p.t):
        raise CSyntaxError(f"trailing tokens {p.t[p.i:p.i+3]}")
    return e


def parse_assign(s):
    """`lhs = expr;` -> (lhs ast, rhs ast)"""
    s = s.strip()
    if not s.endswith(";"):
        raise CSyntaxError("statement does not end with ;")
    depth = 0
    for i, ch in enumerate(s):
        if ch in "([":
            depth += 1
        elif ch in ")]":
            depth -= 1
        elif ch == "=" and depth == 0 and s[i + 1] != "=" and s[i - 1] not in "<>!=":
            return parse_expr(s[:i]), parse_expr(s[i + 1:-1])
    raise CSyntaxError("no assignment")


class Dual:
    """value with derivative (exact rationals)"""
    __slots__ = ("v", "d")

    def __init__(self, v, d=0):
        self.v, self.d = Fraction(v), Fraction(d)


def _num(text):
    return Fraction(text)


class Env:
    """arrays: name -> callable(index:int) -> Dual|Fraction ; idents: name -> value ; ints: name -> int ;
    funcs: name -> callable(*Fraction) -> Fraction (derivative unsupported through opaque functions unless arg const)"""

    def __init__(self, arrays=None, idents=None, ints=None, funcs=None):
        self.arrays, self.idents, self.ints, self.funcs = arrays or {}, idents or {}, ints or {}, funcs or {}


def ev(e, env: Env):
    """-> ('int', int) | ('real', Dual)"""
    k = e[0]
    if k == "num":
        t = e[1]
        if re.fullmatch(r"\d+", t):
            return ("int", int(t))
        return ("real", Dual(_num(t)))
    if k == "id":
        n = e[1]
        if n in env.ints:
            return ("int", env.ints[n])
        if n in env.idents:
            v = env.idents[n]
            return ("real", v if isinstance(v, Dual) else Dual(v))
        raise KeyError(f"undeclared identifier {n}")
    if k == "idx":
        ti, i = ev(e[2], env)
        if ti != "int":
            raise CSyntaxError("non-integer subscript")
        if e[1] not in env.arrays:
            raise KeyError(f"undeclared array {e[1]}")
        v = env.arrays[e[1]](i)
        return ("real", v if isinstance(v, Dual) else Dual(v))
    if k == "call":
        args = [ev(a, env) for a in e[2]]
        if e[1] not in env.funcs:
            raise KeyError(f"undeclared function {e[1]}")
        vals = [Fraction(a[1]) if a[0] == "int" else a[1].v for a in args]
        if any(a[0] == "real" and a[1].d != 0 for a in args):
            raise CSyntaxError("derivative through opaque function")
        return ("real", Dual(env.funcs[e[1]](*vals)))
    if k in ("u-", "u+"):
        t, v = ev(e[1], env)
        if t == "int":
            return ("int", -v if k == "u-" else v)
        return ("real", Dual(-v.v, -v.d) if k == "u-" else v)
    if k == "u!":
        t, v = ev(e[1], env)
        return ("int", int(not (v if t == "int" else v.v)))
    if k == "?":
        t, c = ev(e[1], env)
        return ev(e[2], env) if (c if t == "int" else c.v) else ev(e[3], env)
    ta, a = ev(e[1], env)
    tb, b = ev(e[2], env)
    if k in ("&&", "||"):
        x, y = (a if ta == "int" else a.v), (b if tb == "int" else b.v)
        return ("int", int(bool(x) and bool(y)) if k == "&&" else int(bool(x) or bool(y)))
    if ta == "int" and tb == "int":
        if k == "+": return ("int", a + b)
        if k == "-": return ("int", a - b)
        if k == "*": return ("int", a * b)
        if k == "/":
            q = abs(a) // abs(b)
            return ("int", q if (a >= 0) == (b >= 0) else -q)
        if k == "%": return ("int", int(math.fmod(a, b)))
        return ("int", int({"<": a < b, ">": a > b, "<=": a <= b, ">=": a >= b, "==": a == b, "!=": a != b}[k]))
    x = a if ta == "real" else Dual(a)
    y = b if tb == "real" else Dual(b)
    if k == "+": return ("real", Dual(x.v + y.v, x.d + y.d))
    if k == "-": return ("real", Dual(x.v - y.v, x.d - y.d))
    if k == "*": return ("real", Dual(x.v * y.v, x.d * y.v + x.v * y.d))
    if k == "/": return ("real", Dual(x.v / y.v, (x.d * y.v - x.v * y.d) / (y.v * y.v)))
    return ("int", int({"<": x.v < y.v, ">": x.v > y.v, "<=": x.v <= y.v, ">=": x.v >= y.v, "==": x.v == y.v, "!=": x.v != y.v}[k]))


def value(e, env):
    t, v = ev(e, env)
    return Fraction(v) if t == "int" else v.v


def value_and_deriv(e, env):
    t, v = ev(e, env)
    return (Fraction(v), Fraction(0)) if t == "int" else (v.v, v.d)
