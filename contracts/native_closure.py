"""C10: symbol closure of the generated translation units, decided per rendered combination by a complete
name-resolution analysis of the emitted text (every identifier of EvalRates*/Fex/Jac/InitRenorm/RenormAbundance
bodies must be a local declared earlier in the same function exactly once, a NaunetData member behind
`u_data->`, an extern constant of naunet_constants.h, a macro of naunet_macros.h, a helper of naunet_physics.h,
a parameter or a <math.h> function).  The set of combinations is bounded (format x grain model x back end)."""
from __future__ import annotations
import re
from .native_ode import render, function_body, strip_comments, fresh_species_state
from .native_net import AR, ENC, gen_reactions
import random, tempfile, os, shutil

MATH = {"exp", "pow", "sqrt", "log", "log10", "fmax", "fmin", "fabs", "min", "max", "abs"}
KEYWORDS = {"if", "else", "return", "for", "int", "double", "realtype", "const", "void", "sizeof", "NULL", "printf", "fprintf"}
CFUNCS = {"N_VGetArrayPointer", "SUNMatZero", "SM_ELEMENT_D", "IJth", "SUNSparseMatrix_IndexPointers", "SUNSparseMatrix_IndexValues",
          "SUNSparseMatrix_Data", "NaunetData", "N_Vector", "SUNMatrix", "sunindextype", "realtype", "vector_type", "matrix_type",
          "EvalRates", "EvalHeatingRates", "EvalCoolingRates", "dfdt", "abund", "j", "x", "t", "u", "udot", "fu", "jmatrix",
          "user_data", "tmp1", "tmp2", "tmp3", "NAUNET_DEBUG", "i", "boost", "numeric", "ublas", "zero_matrix", "matrix"}


def combos(tier):
    leeds = ["1    H         H                   H2                                                1.00E-17     0.50       0.0   10  800  1",
             "2    CO        CRP                 C         O                                       5.00E+00     0.00       0.0   1041000  2",
             "3    CO                            GCO                                               1.00E+00     0.00       0.0   1041000  7",
             "4    GCO                           CO                                                1.00E+00     0.00       0.0   1041000  8",
             "5    GCO       CRP                 CO                                                1.00E+00     0.00       0.0   1041000  9",
             "6    GCO       PHOTON              CO                                                1.00E+00     0.00       0.0   1041000 10",
             "7    GH        GCO                 GHCO                                              1.00E+03     0.00       0.0   1041000 13",
             "8    GH        GH                  H2                                                0.00E+00     0.00       0.0   1041000 14",
             "9    C+        GRAIN-              C         GRAIN0                                  1.00E+00     0.00       0.0   1041000  6",
             "10   e-        GRAIN0              GRAIN-                                            1.00E+00     0.00       0.0   1041000 20",
             "11   H                             GH                                                1.00E+00     0.00       0.0   1041000  7"]
    ucl = ["H,H,NAN,H2,NAN,NAN,NAN,1.00e-17,0.50,0.0,10,41000", "H2,CRP,NAN,H,H,NAN,NAN,5.00e+00,0.00,0.0,10,41000",
           "CO,PHOTON,NAN,C,O,NAN,NAN,1.70e-09,0.00,2.0,10,41000", "CO,CRPHOT,NAN,C,O,NAN,NAN,1.70e-09,1.00,2.0,10,41000",
           "CO,FREEZE,NAN,#CO,NAN,NAN,NAN,1.00e+00,0.00,0.0,10,41000", "#CO,DESCR,NAN,CO,NAN,NAN,NAN,1.00e+00,0.00,0.0,10,41000",
           "#CO,DEUVCR,NAN,CO,NAN,NAN,NAN,1.00e+00,0.00,0.0,10,41000", "#CO,DESOH2,NAN,CO,NAN,NAN,NAN,1.00e+00,0.00,0.0,10,41000",
           "#CO,THERM,NAN,CO,NAN,NAN,NAN,1.00e+00,0.00,0.0,10,41000", "E-,FREEZE,NAN,NAN,NAN,NAN,NAN,1.00e+00,0.00,0.0,10,41000"]
    kida = ["C          CH                     H          C2                                            2.400e-10  0.000e+00  0.000e+00 2.00e+00 1.00e+02 logn  4     10    300  3  4894 1  1",
            "H          CR                     H+         e-                                            4.600e-01  0.000e+00  0.000e+00 2.00e+00 0.00e+00 logn  1     10    300  1  1 1  1",
            "CH         Photon                 C          H                                             9.200e-10  0.000e+00  1.720e+00 2.00e+00 0.00e+00 logn  2     10    300  2  2 1  1"]
    umist = ["1:NN:C:CH:C2:H:::1:6.59e-11:0.00:0.0:10:300:L:C:\"r\"::", "2:CP:H:CRP:H+:e-:::1:5.98e-18:0.00:0.0:10:41000:L:C:\"r\"::",
             "3:PH:CH:PHOTON:C:H:::1:9.2e-10:0.00:1.7:10:41000:L:C:\"r\"::", "4:CR:CO:CRPHOT:C:O:::1:5.0e+00:0.00:105.0:10:41000:L:C:\"r\"::"]
    krome = ["@format:idx,R,R,P,P,Tmin,Tmax,rate", "@common:user_crate,user_Av", "@var:Hnuclei = n(idx_H)", "@var:kk = 1.0d-3*Tgas**(0.5)",
             "1,H,H,H,H,NONE,NONE,kk*user_crate", "2,H,E,H,E,10,1d4,2.0d-9*exp(user_Av)*T32*invT*sqrTgas*lnTe*invTe*Te"]
    naunet = ["1    ,           H,           H,            ,          H2,            ,            ,            ,            , 1.000e-17, 5.000e-01, 0.000e+00,    10.00,   800.00, 100,    kida",
              "2    ,           H,            ,            ,          H+,          e-,            ,            ,            , 4.600e-01, 0.000e+00, 0.000e+00,    -1.00,    -1.00, 101,    kida"]
    out = []
    backs = [("cvode", "dense", "cpu"), ("cvode", "sparse", "cpu"), ("odeint", "rosenbrock4", "cpu")]
    for b in backs:
        out.append(("kida", {"net.kida": kida}, ["kida"], "", {}, b))
        out.append(("umist", {"net.umist": umist}, ["umist"], "", {}, b))
        out.append(("naunet", {"net.naunet": naunet}, ["naunet"], "", {}, b))
        out.append(("krome", {"net.krome": krome}, ["krome"], "", {}, b))
        krome_late = ["@format:idx,R,R,P,P,Tmin,Tmax,rate", "1,H,H,H,H,NONE,NONE,1.0d-10", "@common:user_crate", "@var:Tsq = Tgas*Tgas",
                      "2,H,E,H,E,10,1d4,2.0d-9*user_crate*Tsq"]
        out.append(("krome-late-directives", {"net.krome": krome_late}, ["krome"], "", {}, b))
        # a user variable that re-defines a symbol the KROME reader also registers itself (Te), and a second one that depends on it
        krome_shadow = ["@format:idx,R,R,P,P,Tmin,Tmax,rate", "@var:Te = Tgas*8.617343d-5", "@var:kion = 5.85d-11*sqrt(Te)",
                        "1,H,E,H,E,NONE,NONE,kion*exp(-157809.1d0/Tgas)", "2,H,H,H,H,NONE,NONE,kion*1.0d-3"]
        out.append(("krome-shadowed-builtin", {"net.krome": krome_shadow}, ["krome"], "", {}, b))
        if b[1] == "dense":
            # a user variable written in terms of one of KROME's standard shortcuts (invTe), which the reader registers itself
            krome_uses = ["@format:idx,R,R,P,P,Tmin,Tmax,rate", "@var:kk2 = 1.0d-3*invTe", "1,H,H,H,H,NONE,NONE,kk2*1.0d-3"]
            out.append(("krome-var-uses-builtin", {"net.krome": krome_uses}, ["krome"], "", {}, b))
        out.append(("leeds-then-uclchem", {"a.leeds": leeds[:2], "b.ucl": ucl[:4]}, ["leeds", "uclchem"], "", {}, b))
        out.append(("uclchem-then-leeds", {"a.ucl": ucl[:4], "b.leeds": leeds[:2]}, ["uclchem", "leeds"], "", {}, b))
        longx = "*".join(["(1.59e16*Av/(Tgas+1.0e2)/zeta)"] * 4)
        out.append(("kida+long-modifiers", {"net.kida": kida}, ["kida"], "", {"rate_modifier": {4894: longx}, "ode_modifier": {"C": {"factors": [longx + "*1.3e-17"], "reactants": [["H", "CH"]]}}}, b))
        out.append(("kida+umist", {"net.kida": kida, "net.umist": umist}, ["kida", "umist"], "", {}, b))
        # elements that occur only bound in molecules (no atomic C or O in the network): every element macro the renormalisation
        # code refers to must still be one that naunet_macros.h defines
        bound = [kida[0].replace("C          CH                     H          C2         ", "OH         CO                     CO2        H          "),
                 kida[0].replace("C          CH                     H          C2         ", "CO2        H                      OH         CO         ").replace("4894", "4895")]
        assert bound[0] != kida[0] and len(bound[0]) == len(kida[0])
        out.append(("kida-bound-elements", {"net.kida": bound}, ["kida"], "", {}, b))
        for gm in ("hh93", "hh93i"):
            out.append((f"leeds/{gm}", {"net.leeds": leeds}, ["leeds"], gm, {}, b))
        for gm in ("rr07", "rr07x"):
            lines = [l for l in ucl if not (gm == "rr07" and "THERM" in l)]
            out.append((f"uclchem/{gm}", {"net.ucl": lines}, ["uclchem"], gm, {}, b))
            # the same with explicit grain species in the network (the grain density is then a derived quantity of their abundances)
            if b[1] == "dense" or b[0] == "odeint":
                out.append((f"uclchem/{gm}+grain-species", {"net.ucl": lines + ["H+,GRAIN-,NAN,H,GRAIN0,NAN,NAN,1.00e-10,0.00,0.0,10,41000", "E-,GRAIN0,NAN,GRAIN-,NAN,NAN,NAN,1.00e-10,0.00,0.0,10,41000"]},
                            ["uclchem"], gm, {}, b))
        # a user ODE term written with a derived quantity that is itself defined through other derived quantities (the bundled cloud
        # example's H2 dissociation term): the whole chain has to be declared in the equation bodies
        out.append(("uclchem/rr07x+derived-in-ode-modifier", {"net.ucl": ucl}, ["uclchem"], "rr07x",
                    {"ode_modifier": {"H2": {"factors": ["-H2dissociation"], "reactants": [["H2"]]}, "H": {"factors": ["2.0*H2dissociation", "-H2formation"], "reactants": [["H2"], ["H"]]}}}, b))
        out.append(("kida+cooling", {"net.kida": kida + ["H          e-                     H+         e-         e-                                 1.000e-10  0.000e+00  0.000e+00 2.00e+00 0.00e+00 logn  4     10    300  3  9 1  1"]},
                    ["kida"], "", {"cooling": ["CIC_HI"]}, b))
    if tier == "quick":
        out = [c for c in out if c[5][1] != "sparse"] + [c for c in out if c[5][1] == "sparse" and c[0] in ("leeds/hh93i", "krome")]
    return out


def build(files, formats, gm, extra):
    from naunet.network import Network
    d = tempfile.mkdtemp(prefix="vf_clo_")
    try:
        paths = []
        for name, lines in files.items():
            p = os.path.join(d, name)
            open(p, "w").write("\n".join(lines) + "\n")
            paths.append(p)
        fresh_species_state()
        return Network(filelist=paths, fileformats=formats, grain_model=gm, **extra)
    finally:
        shutil.rmtree(d, ignore_errors=True)


def idents(expr):
    expr = re.sub(r"\d+\.?\d*[eE][+-]?\d+", " ", expr)
    return re.findall(r"(?<![\w.>])[A-Za-z_]\w*", expr)


def analyse(label, files_out, backend):
    """-> list of problems"""
    probs = []
    ext = "cpp"
    macros = set(re.findall(r"^#define (\w+)", files_out["include/naunet_macros.h"], flags=re.M))
    consts = set(re.findall(r"extern\s+(?:const|__constant__|__device__)\s+double\s+(\w+)", files_out["include/naunet_constants.h"]))
    defined_consts = set(re.findall(r"^(?:const|__constant__|__device__)?\s*double\s+(\w+)(?:\[[^\]]*\])*\s*=", files_out["src/naunet_constants.cpp"], flags=re.M))
    for c in sorted(consts - defined_consts):
        probs.append(f"constant-declared-not-defined: {c}")
    helpers = set(re.findall(r"^\s*(?:double|int)\s+(\w+)\s*\(", files_out["include/naunet_physics.h"], flags=re.M))
    data = set(re.findall(r"^\s*double\s+(\w+)", function_body(files_out["include/naunet_data.h"] + "}", r"struct\s+NaunetData\s*\{"), flags=re.M))
    dup = [m for m in re.findall(r"^\s*double\s+(\w+)", function_body(files_out["include/naunet_data.h"] + "}", r"struct\s+NaunetData\s*\{"), flags=re.M)]
    for x in {y for y in dup if dup.count(y) > 1}:
        probs.append(f"NaunetData-member-declared-twice: {x}")
    if backend[0] == "cvode":
        units = [("src/naunet_rates.cpp", [r"int\s+EvalRates\s*\(", r"int\s+EvalHeatingRates\s*\(", r"int\s+EvalCoolingRates\s*\("]),
                 ("src/naunet_fex.cpp", [r"int\s+Fex\s*\("]), ("src/naunet_jac.cpp", [r"int\s+Jac\s*\("]),
                 ("src/naunet_renorm.cpp", [r"int\s+InitRenorm\s*\(", r"int\s+RenormAbundance\s*\("])]
    else:
        units = [("src/naunet_ode.cpp", [r"int\s+EvalRates\s*\(", r"int\s+EvalHeatingRates\s*\(", r"int\s+EvalCoolingRates\s*\(",
                                         r"void\s+Fex::operator\(\)\s*\(", r"void\s+Jac::operator\(\)\s*\("]),
                 ("src/naunet_renorm.cpp", [r"int\s+InitRenorm\s*\(", r"int\s+RenormAbundance\s*\("])]
    for fname, heads in units:
        text = files_out.get(fname)
        if text is None:
            probs.append(f"file-missing: {fname}")
            continue
        for h in heads:
            m = re.search(h + r"([^)]*)\)\s*\{", text)
            if not m:
                continue
            params = set(re.findall(r"(\w+)\s*(?:,|$)", m.group(1).replace("*", " ").replace("&", " ")))
            body = strip_comments(function_body(text, h + r"[^)]*\)\s*\{"))
            # active preprocessor branches only: evaluate #if NHEATPROCS etc. crudely by dropping inactive blocks
            body = _drop_inactive(body, files_out["include/naunet_macros.h"])
            declared = {}
            fn = re.sub(r"\\s.*", "", h)
            stmts = [s.strip() for s in re.split(r";", body)]
            for st in stmts:
                st = re.sub(r"^\s*(?:\}|\{|else)\s*", "", st).strip()
                if not st or st.startswith("#"):
                    continue
                md = re.match(r"(?:realtype|double|int|sunindextype|NaunetData)\s*\*?\s*(\w+)(\[[^\]]*\])?\s*(?:=\s*(.*))?$", st, flags=re.S)
                rhs = st
                if md:
                    name, size, rhs = md.group(1), md.group(2) or "", md.group(3) or ""
                    if name in declared:
                        probs.append(f"redeclared: {name} in {fname}:{fn}")
                    uses = idents(rhs) + idents(size)
                else:
                    name = None
                    uses = idents(st)
                for u in uses:
                    if u in declared or u in params or u in macros or u in consts or u in helpers or u in MATH or u in KEYWORDS or u in CFUNCS:
                        continue
                    if re.search(r"(?:u_data|udata|user_data)\s*->\s*" + re.escape(u) + r"\b", st):
                        if u not in data:
                            probs.append(f"not-a-NaunetData-member: {u} in {fname}:{fn}")
                        continue
                    if u in ("u_data", "udata", "y", "ydot", "k", "kh", "kc", "ab", "rptr", "A", "data", "rowptrs", "colvals", "Hnuclei"):
                        if u in ("k", "kh", "kc", "Hnuclei") and u not in declared and u not in params:
                            probs.append(f"undeclared: {u} in {fname}:{fn}: `{st[:60]}`")
                        continue
                    probs.append(f"undeclared: {u} in {fname}:{fn}: `{st[:70]}`")
                if name:
                    declared[name] = True
    return sorted(set(probs))


def _drop_inactive(body, macros_text):
    from .native_ode import parse_macros
    mac = parse_macros(macros_text)
    out, active = [], [True]
    for ln in body.splitlines():
        s = ln.strip()
        if s.startswith("#if "):
            cond = s[4:]
            try:
                e = re.sub(r"[A-Za-z_]\w*", lambda m: str(mac.get(m.group(), 0)), cond).replace("||", " or ").replace("&&", " and ")
                val = bool(eval(e, {"__builtins__": {}}, {}))
            except Exception:
                val = True
            active.append(active[-1] and val)
        elif s.startswith("#ifdef"):
            active.append(active[-1] and s.split()[1] in mac)
        elif s.startswith("#else"):
            p = active.pop()
            active.append(active[-1] and not p)
        elif s.startswith("#endif"):
            if len(active) > 1:
                active.pop()
        elif s.startswith("#"):
            continue
        elif active[-1]:
            out.append(ln)
    return "\n".join(out)


def oracle(tier, seed):
    viol, cases, samples = [], 0, []
    for label, files, formats, gm, extra, backend in combos(tier):
        bname = "/".join(backend[:2])
        try:
            net = build(files, formats, gm, extra)
            out = render(net, *backend, jac_pattern=False)
        except Exception as e:
            viol.append({"property": "C10", "combo": label, "backend": bname, "what": f"render-raises: {type(e).__name__}: {e}",
                         "signature": f"C10:{label}:render-raises"})
            continue
        cases += 1
        for p in analyse(label, out, backend):
            viol.append({"property": "C10", "combo": label, "backend": bname, "what": p,
                         "signature": f"C10:{label}:{p.split(' in ')[0].replace(' ', '')}"})
        if len(samples) < 4:
            samples.append({"combo": label, "backend": bname})
    fresh_species_state()
    return {"cases": cases, "distinct": cases, "violations": viol, "samples": samples,
            "bound": "formats {kida, umist, naunet, krome(+@var/@common), kida+umist, leeds x {hh93,hh93i}, uclchem x {rr07,rr07x}, kida+cooling} x back ends {dense, rosenbrock4[, sparse]}",
            "rule": "one case per (input combination, back end); the name-resolution analysis of each rendered unit is complete for that rendering"}
