"""C14 (deductive part): the representation invariant of Network under additions.

Abstract view of a Network:  L (held reactions, in order), Sk (skipped reactions), Al (allowed classes; empty = all),
and the cached sets  _reactants / _products.   wf:  _reactants == RSET(L, |L|),  _products == PSET(L, |L|)  where
RSET(L, n+1) = RSET(L, n) U classes(reactants of L[n])  (recursive spec functions over the list).
Contract of Network._add_reaction(r) for a Reaction instance r, stated over the whole view:
   requires wf(old)
   ensures  allowed(r) (Al empty or every species of r in Al):  L' == L ++ [r], Sk' == Sk, wf(new), and the returned sets are
            exactly the classes that were new;   otherwise  L' == L, Sk' == Sk ++ [r], caches unchanged, returns (empty, empty, None)
find_source_sink returns (_reactants \\ _products, _products \\ _reactants).
Species are abstract objects with a class id (Species.__eq__/__hash__ assumed to be an equivalence with consistent hash
- bounded check in C04/C09); a reaction has <= 3 reactants and <= 5 products (property quantifier)."""
from __future__ import annotations
import z3
from pyvc.context import VerifContext, LoopSpec
from pyvc.sym import SList, FList, SObj, SInt, SBool, ObjCodec, IntCodec, Unsupported, Sym
from pyvc.dictmodel import GhostMap
from pyvc.setmodel import SSet
from pyvc.ops import wrap_term
from pyvc import smt

I, B = z3.IntSort(), z3.BoolSort()
SetS = z3.ArraySort(I, B)
ArrI = z3.ArraySort(I, I)
nr, np_ = z3.Function("nr", I, I), z3.Function("np", I, I)
rcls = z3.Function("reactant_class", I, I, I)      # class of reactant m of reaction q
pcls = z3.Function("product_class", I, I, I)
RSET = z3.Function("RSET", ArrI, I, SetS)
PSET = z3.Function("PSET", ArrI, I, SetS)
EMPTY = z3.K(I, z3.BoolVal(False))
MAXR, MAXP = 3, 5


def classes(q, n, f, mx):
    """{ f(q, m) | m < n(q) } as an array"""
    a = EMPTY
    for m in range(mx):
        a = z3.Store(a, f(q, m), z3.Or(n(q) > m, z3.Select(a, f(q, m))))
    return a


def union(a, b):
    return z3.Map(z3.Or(z3.Bool("x"), z3.Bool("y")).decl(), a, b)


class AllowedList(Sym):
    """self._allowed_species: a list of Species used only through truthiness and `in`"""

    def __init__(self, length, member):
        self.length, self.member = length, member


REQ = z3.Function("reaction_eq", z3.IntSort(), z3.IntSort(), z3.BoolSort())


class FoldedSpecies(Sym):
    """all reactant / product species of the reactions of a list of any length (see NetCtx.comprehension_rule); only set() is defined"""

    def __init__(self, which, arr, length):
        self.which, self.arr, self.length = which, arr, length

    def vf_as_set(self, interp):
        F = RSET if self.which == "reactants" else PSET
        return SSet("Species", F(self.arr, self.length))


class NetCtx(VerifContext):
    def __init__(self, props=()):
        super().__init__(props)
        self.defs = smt.Defs()
        self.defs.define(RSET, lambda L, n: z3.If(n <= 0, EMPTY, union(RSET(L, n - 1), classes(z3.Select(L, n - 1), nr, rcls, MAXR))), True)
        self.defs.define(PSET, lambda L, n: z3.If(n <= 0, EMPTY, union(PSET(L, n - 1), classes(z3.Select(L, n - 1), np_, pcls, MAXP))), True)
        self.axioms = self.defs.axioms()
        self.spec_defined = {"RSET", "PSET"}

    # ---- filter comprehensions of remove_reaction as loops under contract (ghost: gq = source position of every kept element)
    QR = "Network.remove_reaction"

    def install_filter_loop(self, target, keep):
        """keep(j): spec predicate 'position j of the old list survives the filter' (a z3 term builder over an Int term)"""
        PR = ("C14",)
        self.keep = keep
        self.spec_names.update(keep=lambda j: wrap_term(keep(j.t if isinstance(j, SInt) else z3.IntVal(j))), GhostMap=GhostMap)
        inv = [
            ("length(_comp) == length(gq) and length(_comp) <= _i", PR),
            ("forall(lambda k: implies(0 <= k and k < length(_comp), 0 <= gq[k] and gq[k] < _i and keep(gq[k]) and _comp[k] == L0g[gq[k]]))", PR),
            ("forall(lambda k: implies(0 <= k and k + 1 < length(gq), gq[k] < gq[k + 1]))", PR),
            ("forall(lambda j: implies(0 <= j and j < _i and keep(j), 0 <= grpos[j] and grpos[j] < length(_comp) and gq[grpos[j]] == j))", PR),
        ]
        self.loop_specs[(self.QR, target)] = LoopSpec("loop:filter", "_i", inv, modifies=("gq", "grpos"), types={"_comp": "list[obj:Reaction]"}, ghost_init=self.g_init)
        self.stmt_hooks[(self.QR, "_comp.append(*")] = self.h_append
        self.stmt_hooks[(self.QR, "self._reactants = *")] = self.h_stash
        self.final_ghost = None

    def g_init(self, interp, env):
        fenv = env.parent if env.parent is not None else env
        fenv.set("gq", self.to_slist(interp, [], IntCodec()))
        fenv.set("grpos", GhostMap())
        fenv.set("L0g", SList(ObjCodec("Reaction"), (self.L0,), self.n0))

    def h_append(self, interp, env):
        from pyvc import models
        i = env.lookup("_i")
        models.slist_method(interp, env.lookup("gq"), "append", [i], {})
        env.lookup("grpos").put(i, env.lookup("_comp").length - 1)

    def h_stash(self, interp, env):
        try:
            self.final_ghost = (env.lookup("gq"), env.lookup("grpos"))
        except Exception:
            self.final_ghost = None

    def fresh_custom(self, interp, name, v, spec, env):
        if isinstance(v, GhostMap):
            return GhostMap.fresh(interp, name)
        if isinstance(v, (SObj, tuple)) or v is None:
            return v
        return super().fresh_custom(interp, name, v, spec, env)

    def obj_equals(self, interp, a, b):
        """Reaction.__eq__ between abstract reactions: an abstract reflexive relation (its properties are the subject of identity.py)"""
        if isinstance(a, SObj) and isinstance(b, SObj) and a.cls == b.cls == "Reaction":
            if interp.spec_mode:
                return wrap_term(a.id == b.id)          # in a contract clause == on reactions is identity of the abstract objects
            interp.assume(REQ(a.id, a.id))
            interp.assume(REQ(b.id, b.id))
            return wrap_term(REQ(a.id, b.id))
        raise Unsupported("== on these abstract objects")

    def obj_isinstance(self, interp, v, tp):
        from naunet.reactions.reaction import Reaction
        return v.cls == "Reaction" and tp is Reaction

    def obj_getattr(self, interp, obj, name):
        if obj.cls == "Reaction" and name in ("reactants", "products"):
            n, f, mx = (nr, rcls, MAXR) if name == "reactants" else (np_, pcls, MAXP)
            interp.assume(z3.And(n(obj.id) >= 0, n(obj.id) <= mx))
            m = z3.Int("rm")
            return FList(n(obj.id), m, SObj("Species", f(obj.id, m)))
        raise Unsupported(f"{obj.cls}.{name}")

    def set_rep(self, interp, x):
        if isinstance(x, SObj) and x.cls == "Species":
            return x.id
        raise Unsupported("set element")

    def slist_contains(self, interp, lst, x):
        """`r in list_of_reactions`: some element compares equal to r; Reaction.__eq__ is an abstract reflexive relation here (its
        properties are the subject of contracts/identity.py)"""
        from pyvc.sym import SBool
        if isinstance(x, (SInt, int)) and not isinstance(x, bool) and isinstance(lst.codec, IntCodec) and len(lst.arrays) == 1:
            # `idx in list_of_ints`: some element equals idx
            j = z3.Int("j_in")
            xt = x.t if isinstance(x, SInt) else z3.IntVal(x)
            return SBool(z3.Exists([j], z3.And(j >= 0, j < lst.length, z3.Select(lst.arrays[0], j) == xt)))
        if isinstance(x, (SInt, int)) and not isinstance(x, bool) and not interp.feas.feasible(lst.length > 0):
            return SBool(z3.BoolVal(False))           # membership in a list that is empty on this path
        if isinstance(x, SObj) and x.cls == "Reaction" and len(lst.arrays) == 1:
            j = z3.Int("j_in")
            interp.assume(REQ(x.id, x.id))
            return SBool(z3.Exists([j], z3.And(j >= 0, j < lst.length, REQ(z3.Select(lst.arrays[0], j), x.id))))
        return super().slist_contains(interp, lst, x)

    def set_of_list(self, interp, lst):
        from pyvc.loops import concrete_items
        from pyvc import setmodel
        items = concrete_items(interp, lst)
        s = setmodel.empty("Species")
        for x in items:
            s.arr = z3.Store(s.arr, x.id, z3.BoolVal(True))
        return s

    def list_concat(self, interp, a, b):
        from pyvc.loops import concrete_items
        return concrete_items(interp, a) + concrete_items(interp, b)

    def length_bound(self, interp, n):
        return None

    def comprehension_rule(self, interp, e, env, kind):
        """`sp for r in <list of reactions of any length> for sp in r.reactants` (or .products): the collection of all reactant
        (product) species of the listed reactions.  Turned into a set it is RSET(L, |L|) / PSET(L, |L|) - this IS the recursive
        definition of the spec functions (union over the list of the classes of each member), so the rule adds no assumption
        beyond set(a ++ b) == set(a) U set(b).  Any other shape (a filter, another attribute, another element expression)
        falls through to the generic comprehension code."""
        import ast
        gens = e.generators
        if len(gens) != 2 or gens[0].ifs or gens[1].ifs or isinstance(e, ast.DictComp):
            return None
        g0, g1 = gens
        if not (isinstance(g0.target, ast.Name) and isinstance(g1.target, ast.Name) and isinstance(e.elt, ast.Name) and e.elt.id == g1.target.id):
            return None
        if not (isinstance(g1.iter, ast.Attribute) and isinstance(g1.iter.value, ast.Name) and g1.iter.value.id == g0.target.id
                and g1.iter.attr in ("reactants", "products")):
            return None
        outer = interp.eval(g0.iter, env)
        if not (isinstance(outer, SList) and isinstance(outer.codec, ObjCodec) and outer.codec.cls == "Reaction" and len(outer.arrays) == 1):
            return None
        return FoldedSpecies(g1.iter.attr, outer.arrays[0], outer.length)

    def prefer_flist(self, interp, e, env, view):
        from pyvc.loops import MAX_FORK_LEN
        return interp.feas.feasible(view.length > MAX_FORK_LEN)


def make_ctx(props=()):
    return NetCtx(props)


def _contains_allowed(interp, container, x):
    return wrap_term(z3.Select(container.member, x.id))


def entry_add(it):
    from naunet.network import Network
    from pyvc import models
    # `in` on the allowed list and its truthiness
    orig_contains = models.contains
    L0 = z3.Const("L0", ArrI)
    nL, nSk, nAl = z3.Ints("len_L len_Sk len_Al")
    Sk0 = z3.Const("Sk0", ArrI)
    Al = z3.Const("allowed", SetS)
    R0, P0 = z3.Const("R0", SetS), z3.Const("P0", SetS)
    for f in (nL >= 0, nSk >= 0, nAl >= 0):
        it.assume(f)
    # requires wf(old)
    it.assume(R0 == RSET(L0, nL))
    it.assume(P0 == PSET(L0, nL))
    net = Network.__new__(Network)
    net.reaction_list = SList(ObjCodec("Reaction"), (L0,), nL)
    net._skipped_reactions = SList(ObjCodec("Reaction"), (Sk0,), nSk)
    net._reactants, net._products = SSet("Species", R0), SSet("Species", P0)
    net._allowed_species = AllowedList(nAl, Al)
    r = SObj("Reaction", z3.Int("r"))
    q = r.id
    models_contains_patch(it)
    res = it.call_function(Network._add_reaction, [net, r], {})
    P = ("C14",)
    allowed = z3.Or(nAl == 0, z3.And(*[z3.Implies(nr(q) > m, z3.Select(Al, rcls(q, m))) for m in range(MAXR)] +
                                      [z3.Implies(np_(q) > m, z3.Select(Al, pcls(q, m))) for m in range(MAXP)]))
    Lf, Skf = net.reaction_list, net._skipped_reactions
    Rf, Pf = net._reactants.arr, net._products.arr
    it.prove(z3.If(allowed, z3.And(Lf.length == nL + 1, Lf.arrays[0] == z3.Store(L0, nL, q)), z3.And(Lf.length == nL, Lf.arrays[0] == L0)),
             "add/held-list", P)
    it.prove(z3.If(allowed, z3.And(Skf.length == nSk, Skf.arrays[0] == Sk0), z3.And(Skf.length == nSk + 1, Skf.arrays[0] == z3.Store(Sk0, nSk, q))),
             "add/skipped-list", P)
    # frame lemma (proved by induction in lemma_items): storing at position k does not change the sets of the first k reactions
    frame = [RSET(z3.Store(L0, nL, q), nL) == RSET(L0, nL), PSET(z3.Store(L0, nL, q), nL) == PSET(L0, nL)]
    it.prove(z3.And(Rf == RSET(Lf.arrays[0], Lf.length), Pf == PSET(Lf.arrays[0], Lf.length)), "add/wf-preserved", P, hints=frame)
    it.prove(z3.Implies(z3.Not(allowed), z3.And(Rf == R0, Pf == P0)), "add/rejected-changes-nothing", P)
    if isinstance(res, tuple) and len(res) == 3:
        newr, newp, inst = res
        if isinstance(newr, SSet) and isinstance(newp, SSet):
            c = z3.Int("c")
            it.prove(z3.ForAll([c], z3.Select(newr.arr, c) == z3.And(allowed, z3.Select(classes(q, nr, rcls, MAXR), c), z3.Not(z3.Select(R0, c)))), "add/returns-new-reactants", P)
            it.prove(z3.ForAll([c], z3.Select(newp.arr, c) == z3.And(allowed, z3.Select(classes(q, np_, pcls, MAXP), c), z3.Not(z3.Select(P0, c)))), "add/returns-new-products", P)
        else:
            it.prove(z3.Not(allowed), "add/empty-result-only-when-rejected", P, detail=f"{res!r}")
    else:
        it.fail("add/result-shape", P, f"{res!r}")


def models_contains_patch(it):
    """membership and truthiness of the abstract allowed list"""
    from pyvc import models, ops
    if getattr(models, "_vf_allowed_patch", False):
        return
    orig_contains, orig_truth = models.contains, ops.truth_term

    def contains(interp, container, x):
        if isinstance(container, AllowedList):
            return wrap_term(z3.Select(container.member, x.id))
        return orig_contains(interp, container, x)

    def truth_term(v):
        if isinstance(v, AllowedList):
            return v.length > 0
        return orig_truth(v)
    models.contains = contains
    ops.truth_term = truth_term
    import pyvc.interp as I_
    I_.truth_term = truth_term
    models._vf_allowed_patch = True


def entry_source_sink(it):
    from naunet.network import Network
    R0, P0 = z3.Const("R0", SetS), z3.Const("P0", SetS)
    net = Network.__new__(Network)
    net._reactants, net._products = SSet("Species", R0), SSet("Species", P0)
    res = it.call_function(Network.find_source_sink, [net], {})
    P = ("C14",)
    c = z3.Int("c")
    ok = isinstance(res, tuple) and len(res) == 2 and all(isinstance(x, SSet) for x in res)
    if not ok:
        it.fail("source-sink/result-shape", P, f"{res!r}")
        return
    it.prove(z3.ForAll([c], z3.Select(res[0].arr, c) == z3.And(z3.Select(R0, c), z3.Not(z3.Select(P0, c)))), "source-sink/sources-are-reactants-never-produced", P)
    it.prove(z3.ForAll([c], z3.Select(res[1].arr, c) == z3.And(z3.Select(P0, c), z3.Not(z3.Select(R0, c)))), "source-sink/sinks-are-products-never-consumed", P)
    it.prove(z3.And(net._reactants.arr == R0, net._products.arr == P0), "source-sink/frame-caches-unchanged", P)


def term_of_ghost(gm, j):
    return z3.Select(gm.arr, j)


def entry_remove(it):
    """Network.remove_reaction.  Paths: (0) an integer position k of any sign into a list of any length; (1) an argument of
    another type.  ensures (0): out of range raises IndexError and changes nothing; otherwise the held list is the old one without
    position k (order kept), the skipped list is untouched, and wf(new): both caches are the unions over the list that is LEFT.
    (1): TypeError, nothing changed.  The list-valued and instance-valued arguments (filter comprehensions) are bounded only."""
    from naunet.network import Network
    from pyvc.interp import PyRaise
    P = ("C14",)
    L0 = z3.Const("L0", ArrI)
    nL, nSk = z3.Ints("len_L len_Sk")
    Sk0 = z3.Const("Sk0", ArrI)
    R0, P0 = z3.Const("R0", SetS), z3.Const("P0", SetS)
    it.assume(nL >= 0)
    it.assume(nSk >= 0)
    it.assume(R0 == RSET(L0, nL))
    it.assume(P0 == PSET(L0, nL))
    net = Network.__new__(Network)
    net.reaction_list = SList(ObjCodec("Reaction"), (L0,), nL)
    net._skipped_reactions = SList(ObjCodec("Reaction"), (Sk0,), nSk)
    net._reactants, net._products = SSet("Species", R0), SSet("Species", P0)
    which = it.choose(5, "argument")
    k0 = z3.Int("k")
    arg = SInt(k0) if which == 0 else (1.5 if which == 1 else SObj("Reaction", z3.Int("r_arg")))
    if which == 3:
        # a list of integer positions of any length (repeats and any order allowed; as written, a negative entry names nothing)
        K0, nK = z3.Const("K0", ArrI), z3.Int("len_K")
        it.assume(nK >= 0)
        arg = SList(IntCodec(), (K0,), nK)
        it.ctx.L0, it.ctx.n0 = L0, nL
        jq = z3.Int("j_k")
        it.ctx.install_filter_loop("idx, r", lambda j: z3.Not(z3.Exists([jq], z3.And(jq >= 0, jq < nK, z3.Select(K0, jq) == j))))
    if which == 2:
        it.ctx.L0, it.ctx.n0 = L0, nL
        rid = arg.id
        it.ctx.install_filter_loop("r", lambda j: z3.Not(REQ(z3.Select(L0, j), rid)))
    if which == 4:
        # a list of Reaction instances of any length: a held reaction goes when some listed one compares equal to it
        K0, nK = z3.Const("KR0", ArrI), z3.Int("len_KR")
        it.assume(nK >= 0)
        arg = SList(ObjCodec("Reaction"), (K0,), nK)
        it.ctx.L0, it.ctx.n0 = L0, nL
        jq = z3.Int("j_k")
        it.ctx.install_filter_loop("r", lambda j: z3.Not(z3.Exists([jq], z3.And(jq >= 0, jq < nK, REQ(z3.Select(K0, jq), z3.Select(L0, j))))))
        # (an empty list satisfies `all(isinstance(r, int) ...)` too and takes the index-list branch: nothing is named, nothing goes)
        it.ctx.loop_specs[(it.ctx.QR, "idx, r")] = it.ctx.loop_specs[(it.ctx.QR, "r")]
    raised = None
    try:
        it.call_function(Network.remove_reaction, [net, arg], {})
    except PyRaise as e:
        raised = e.exc
    Lf, Skf = net.reaction_list, net._skipped_reactions
    unchanged = z3.And(Lf.length == nL, Lf.arrays[0] == L0, net._reactants.arr == R0, net._products.arr == P0)
    it.prove(z3.And(Skf.length == nSk, Skf.arrays[0] == Sk0), "remove/skipped-list-untouched", P)
    if which in (2, 3, 4):
        # a Reaction instance: every held reaction that compares equal to it goes, the others stay in order
        # a list of positions: exactly the reactions at the listed positions go
        if raised is not None:
            it.fail("remove/filtered/no-exception", P, f"{raised!r}")
            return
        g = it.ctx.final_ghost
        if g is None or not isinstance(Lf, SList):
            it.fail("remove/filtered/filtered-list-under-contract", P, f"{Lf!r}")
            return
        gq, grpos = g
        A, GQ = Lf.arrays[0], gq.arrays[0]
        keep = it.ctx.keep
        kk, jj = z3.Ints("kk jj")
        it.prove(z3.And(Lf.length == gq.length, Lf.length <= nL), "remove/filtered/ghost-source-positions", P)
        it.prove(z3.ForAll([kk], z3.Implies(z3.And(0 <= kk, kk < Lf.length), z3.And(0 <= z3.Select(GQ, kk), z3.Select(GQ, kk) < nL, keep(z3.Select(GQ, kk)),
                                                                                  z3.Select(A, kk) == z3.Select(L0, z3.Select(GQ, kk))))),
                 "remove/filtered/every-remaining-reaction-was-held-and-is-not-named-by-the-argument", P)
        it.prove(z3.ForAll([kk], z3.Implies(z3.And(0 <= kk, kk + 1 < Lf.length), z3.Select(GQ, kk) < z3.Select(GQ, kk + 1))), "remove/filtered/order-kept-no-repeats", P)
        gp = lambda j: term_of_ghost(grpos, j)
        it.prove(z3.ForAll([jj], z3.Implies(z3.And(0 <= jj, jj < nL, keep(jj)), z3.And(0 <= gp(jj), gp(jj) < Lf.length, z3.Select(GQ, gp(jj)) == jj))),
                 "remove/filtered/every-reaction-not-named-by-the-argument-remains", P)
        it.prove(net._reactants.arr == RSET(A, Lf.length), "remove/wf-reactant-cache-follows-the-remaining-reactions", P)
        it.prove(net._products.arr == PSET(A, Lf.length), "remove/wf-product-cache-follows-the-remaining-reactions", P)
        return
    if which == 1:
        it.prove(z3.BoolVal(isinstance(raised, TypeError)), "remove/other-argument-types-are-refused", P, detail=f"{raised!r}")
        it.prove(unchanged, "remove/refusal-changes-nothing", P)
        return
    k = z3.If(k0 < 0, k0 + nL, k0)
    inrange = z3.And(k >= 0, k < nL)
    if raised is not None:
        it.prove(z3.And(z3.BoolVal(isinstance(raised, IndexError)), z3.Not(inrange)), "remove/raises-only-out-of-range", P, detail=f"{raised!r}")
        it.prove(unchanged, "remove/refusal-changes-nothing", P)
        return
    j = z3.Int("j")
    A = Lf.arrays[0]
    it.prove(inrange, "remove/out-of-range-position-is-refused", P)
    it.prove(Lf.length == nL - 1, "remove/one-reaction-fewer", P)
    it.prove(z3.ForAll([j], z3.Implies(z3.And(0 <= j, j < nL - 1), z3.Select(A, j) == z3.If(j < k, z3.Select(L0, j), z3.Select(L0, j + 1)))),
             "remove/held-list-is-the-old-one-without-position-k", P)
    it.prove(net._reactants.arr == RSET(A, Lf.length), "remove/wf-reactant-cache-follows-the-remaining-reactions", P)
    it.prove(net._products.arr == PSET(A, Lf.length), "remove/wf-product-cache-follows-the-remaining-reactions", P)


def lemma_items(tier):
    """frame lemma by induction on n:  n <= k  =>  RSET(Store(L, k, x), n) == RSET(L, n)   (same for PSET)"""
    import time
    items = []
    L = z3.Const("L", ArrI)
    k, x, n = z3.Ints("k x n")
    for nm, F, cnt, cl, mx in (("RSET", RSET, nr, rcls, MAXR), ("PSET", PSET, np_, pcls, MAXP)):
        S = z3.Store(L, k, x)

        def unfold(A, m):
            return F(A, m) == z3.If(m <= 0, EMPTY, union(F(A, m - 1), classes(z3.Select(A, m - 1), cnt, cl, mx)))
        t0 = time.time()
        st, be, dt, _ = smt.check_valid([unfold(S, z3.IntVal(0)), unfold(L, z3.IntVal(0))], F(S, 0) == F(L, 0))
        items.append({"name": f"lemma/{nm}-frame/base", "status": st, "backend": be, "seconds": time.time() - t0, "detail": ""})
        t0 = time.time()
        st, be, dt, _ = smt.check_valid([n >= 0, n + 1 <= k, F(S, n) == F(L, n), unfold(S, n + 1), unfold(L, n + 1)], F(S, n + 1) == F(L, n + 1))
        items.append({"name": f"lemma/{nm}-frame/step", "status": st, "backend": be, "seconds": time.time() - t0, "detail": ""})
    return items


def _register():
    from pyvc.units import Unit, register
    from naunet.network import Network
    register(Unit("network_add_reaction", __name__, make_ctx, entry_add, functions=[Network._add_reaction], props=("C14",)))
    register(Unit("network_remove_reaction", __name__, make_ctx, entry_remove, functions=[Network.remove_reaction], props=("C14",)))
    register(Unit("network_find_source_sink", __name__, make_ctx, entry_source_sink, functions=[Network.find_source_sink], props=("C14",)))


_register()
