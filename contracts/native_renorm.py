"""C16 bounded native check: the emitted InitRenorm / RenormAbundance / GetElementAbund text of both back ends is
evaluated exactly (rationals), the linear system is solved exactly, and the elemental ratios after
renormalisation are compared with the reference ratios (composition from an independent formula parser)."""
from __future__ import annotations
import re, random
from fractions import Fraction
from . import ceval
from .native_ode import render, parse_macros, function_body, statements, strip_comments, fresh_species_state, mk_reaction

ELEMS = ["He", "Si", "Mg", "Fe", "Na", "Cl", "H", "D", "C", "N", "O", "S"]


def composition(name):
    """independent decomposition of a plain formula (no labels): {element: count}, charge"""
    s = name.lstrip("#")
    charge = 0
    while s.endswith("+") or s.endswith("-"):
        charge += 1 if s[-1] == "+" else -1
        s = s[:-1]
    if s in ("e", "E"):
        return {}, -1
    out = {}
    i = 0
    while i < len(s):
        for el in ELEMS:
            if s.startswith(el, i):
                i += len(el)
                m = re.match(r"\d+", s[i:])
                n = int(m.group()) if m else 1
                i += len(m.group()) if m else 0
                out[el] = out.get(el, 0) + n
                break
        else:
            raise ValueError(f"cannot decompose {name}")
    return out, charge


def solve(M, b):
    n = len(b)
    A = [row[:] + [b[i]] for i, row in enumerate(M)]
    for c in range(n):
        p = next((r for r in range(c, n) if A[r][c] != 0), None)
        if p is None:
            raise ZeroDivisionError("singular element matrix")
        A[c], A[p] = A[p], A[c]
        for r in range(n):
            if r != c and A[r][c] != 0:
                f = A[r][c] / A[c][c]
                A[r] = [x - f * y for x, y in zip(A[r], A[c])]
    return [A[i][n] / A[i][i] for i in range(n)]


def nets(tier, seed):
    from naunet.network import Network

    def N(label, reacs, **kw):
        def f():
            fresh_species_state()
            return Network([mk_reaction(*r) for r in reacs], **kw)
        return label, f
    yield N("H-C-O", [(["H", "H"], ["H2"]), (["C", "O"], ["CO"]), (["CO", "H"], ["HCO"]), (["H", "O"], ["OH"]), (["OH", "H"], ["H2O"]),
                      (["C", "H"], ["CH"]), (["C+", "e-"], ["C"]), (["H+", "e-"], ["H"])])
    yield N("isotopologues", [(["H", "D"], ["HD"]), (["H2", "D"], ["HD", "H"]), (["H", "H"], ["H2"]), (["HD", "H+"], ["H2D+"]),
                              (["H2D+", "e-"], ["H", "H", "D"]), (["D", "D"], ["D2"]), (["D2", "H+"], ["HD2+"]), (["HD2+", "e-"], ["D2", "H"])])
    yield N("ice", [(["CO"], ["#CO"]), (["C", "O"], ["CO"]), (["H", "H"], ["H2"]), (["#CO"], ["CO"]), (["H"], ["#H"]), (["#H", "#H"], ["#H2"]), (["#H2"], ["H2"])])
    yield N("repeated-element-formula", [(["CH3OH"], ["CH3", "OH"]), (["C", "H"], ["CH"]), (["O", "H"], ["OH"]), (["CH3", "H"], ["CH4"]), (["H", "H"], ["H2"])])
    yield N("large-molecules", [(["C", "C10H2"], ["C11", "H2"]), (["C11", "H"], ["HC11"]), (["C6H12", "O"], ["C6H11", "OH"]), (["H", "H"], ["H2"]), (["HC11", "O"], ["C10H", "CO"])])

    def upper():
        fresh_species_state()
        from naunet.species import Species
        Species.set_known_elements(["H", "HE", "C", "O", "SI", "E"])
        Species.set_known_pseudoelements([])
        Species._replacement = {"HE": "He", "SI": "Si", "E": "e"}
        rs = [(["SI", "SI"], ["SI2"]), (["SI2", "C"], ["SI2C"]), (["SI", "O"], ["SIO"]), (["H", "H"], ["H2"]), (["HE+", "H"], ["HE", "H+"]), (["SI2C", "H"], ["SI2", "CH"]), (["C", "O"], ["CO"])]
        return Network([mk_reaction(a, b) for a, b in rs], elements=["H", "HE", "C", "O", "SI", "E"], pseudo_elements=[])
    yield "upper-case-replacement", upper
    yield N("missing-atomic-O", [(["CO", "H"], ["HCO"]), (["C", "H"], ["CH"]), (["H", "H"], ["H2"]), (["O2", "C"], ["CO", "CO"])])
    yield N("grains", [(["H", "H"], ["H2"]), (["GRAIN0", "e-"], ["GRAIN-"]), (["GRAIN-", "H+"], ["GRAIN0", "H"]), (["H+", "e-"], ["H"])])


def check(tier, seed):
    viol, cases = [], 0
    rnd = random.Random(16 + seed)
    for label, fac in nets(tier, seed):
        for backend in [("cvode", "dense", "cpu"), ("odeint", "rosenbrock4", "cpu")]:
            bname = "/".join(backend[:2])

            def V(what):
                viol.append({"property": "C16", "network": label, "backend": bname, "what": what,
                             "signature": f"C16:{label}:{what.split(':')[0]}"})
            try:
                net = fac()
                files = render(net, *backend, jac_pattern=False)
            except Exception as e:
                V(f"render-raises: {type(e).__name__}: {e}")
                continue
            cases += 1
            mac = parse_macros(files["include/naunet_macros.h"])
            species = list(net.species)
            elems = list(net.elements)
            ne = len(elems)
            if ne == 0 or "IDX_ELEM_H" not in mac:
                continue
            ren = strip_comments(files["src/naunet_renorm.cpp"])
            phys = strip_comments(files["src/naunet_physics.cpp"])
            ints = {k: v for k, v in mac.items() if isinstance(v, int)}
            y = [Fraction(rnd.randint(1, 20), rnd.randint(1, 9)) for _ in species]

            def elem_abund(vals, idx):
                body = function_body(phys, r"double\s+GetElementAbund\s*\([^)]*\)\s*\{")
                for m in re.finditer(r"if\s*\(elemidx == (IDX_ELEM_\w+)\)\s*\{\s*return\s+([^;]*);", body, flags=re.S):
                    if ints[m.group(1)] == idx:
                        return ceval.value(ceval.parse_expr(m.group(2)), ceval.Env(arrays={"y": lambda i: vals[i]}, ints=ints))
                raise KeyError(idx)
            try:
                comp = [composition(s.name) for s in species]
            except ValueError:
                comp = None
            names = [next(iter(e.element_count)) for e in elems]
            if comp is not None:
                # the element totals the renormalisation starts from are the count-weighted sums of the abundances
                for n_ in names:
                    try:
                        got_t, want_t = elem_abund(y, ints[f"IDX_ELEM_{n_}"]), sum(Fraction(c[0].get(n_, 0)) * v for c, v in zip(comp, y))
                    except Exception:
                        continue
                    if got_t != want_t:
                        V(f"element-total: GetElementAbund({n_}) = {float(got_t):.6g}, count-weighted sum of the abundances = {float(want_t):.6g}")
            # reference ratios: perturb the current ones
            H = elem_abund(y, ints["IDX_ELEM_H"])
            # the value the generated sources normalise by: the rendered GetHNuclei (preprocessed with the rendered macros)
            try:
                import z3 as _z3
                from pyvc import cmini as _cm
                from .renorm import _preprocess
                hb = _preprocess(function_body(phys, r"double\s+GetHNuclei\s*\(\s*double\s*\*\s*y\s*\)\s*\{"), set(mac))
                ex_ = _cm.Exec({k: _z3.IntVal(v) for k, v in ints.items()},
                               {"GetElementAbund": lambda e_, st_, args: _z3.RealVal(str(elem_abund(y, _z3.simplify(e_.ev(args[1], st_)).as_long())))}, max_unroll=0)
                st_ = ex_.run(_cm.parse_body(_cm.strip(hb)), _cm.State({}, {"y": _z3.K(_z3.IntSort(), _z3.RealVal(0))}))
                rv = _z3.simplify(st_.retval)
                Hgen = Fraction(rv.numerator_as_long(), rv.denominator_as_long())
            except Exception:
                Hgen = H
            if Hgen != H:
                V(f"hydrogen-nuclei: the generated GetHNuclei gives {float(Hgen):.6g}, the total of element H is {float(H):.6g} (the reference ratios are taken relative to element H)")
            for trial in ("perturbed", "identity"):
                cur = [elem_abund(y, ints[f"IDX_ELEM_{n}"]) / H for n in names]
                ref = cur[:] if trial == "identity" else [c * Fraction(rnd.randint(2, 9), rnd.randint(2, 9)) if n != "H" else c for c, n in zip(cur, names)]
                env = ceval.Env(arrays={"ab": lambda i: y[i]}, ints=ints, idents={"Hnuclei": Hgen})
                M = [[Fraction(0)] * ne for _ in range(ne)]
                ok = True
                pat = r"IJth\(A,\s*(\w+),\s*(\w+)\)" if backend[0] == "cvode" else r"\bA\((\w+),\s*(\w+)\)"
                body = function_body(ren, r"int\s+InitRenorm\s*\([^)]*\)\s*\{")
                try:
                    for a, b, rhs in statements(body, pat):
                        M[ints[a]][ints[b]] = ceval.value(ceval.parse_expr(rhs), env)
                except ZeroDivisionError:
                    V("division-by-zero-in-matrix: a species has mass number 0.0")
                    ok = False
                except Exception as e:
                    V(f"matrix-invalid: {type(e).__name__}: {e}")
                    ok = False
                if not ok:
                    break
                try:
                    r = solve(M, ref)
                except ZeroDivisionError as e:
                    V(f"singular: {e}")
                    break
                body = function_body(ren, r"int\s+RenormAbundance\s*\([^)]*\)\s*\{")
                newy = y[:]
                env2 = ceval.Env(arrays={"ab": lambda i: y[i], "rptr": lambda i: r[i]}, ints=ints)
                bad = False
                for idx_t, rhs in statements(body, r"ab\[(\w+)\]"):
                    try:
                        newy[ints[idx_t]] = ceval.value(ceval.parse_expr(rhs), env2)
                    except ZeroDivisionError:
                        V("division-by-zero-in-factor: a species has mass number 0.0")
                        bad = True
                        break
                    except Exception as e:
                        V(f"factor-invalid: ab[{idx_t}] = {rhs[:60]!r}: {type(e).__name__}: {e}")
                        bad = True
                        break
                if bad:
                    break
                for i, s in enumerate(species):
                    if s.is_electron and newy[i] != y[i]:
                        V("electrons-changed")
                if trial == "identity" and newy != y:
                    k_ = next(i for i in range(len(y)) if newy[i] != y[i])
                    V(f"not-identity: the ratios already match but {species[k_].name} is rescaled by {float(newy[k_] / y[k_]):.9g}")
                if comp is None:
                    continue
                # totals with the independent composition
                def tot(vals, el):
                    return sum(Fraction(c[0].get(el, 0)) * v for c, v in zip(comp, vals))
                Hn = tot(newy, "H")
                if Hn == 0:
                    V("hydrogen-total-zero")
                    continue
                for n, rf in zip(names, ref):
                    got = tot(newy, n) / Hn
                    if got != rf:
                        V(f"{'not-identity' if trial == 'identity' else 'ratio-not-restored'}: element {n}: {float(got):.6g} after renormalisation, reference {float(rf):.6g}")
                        break
    fresh_species_state()
    return cases, viol


def oracle(tier, seed):
    cases, viol = check(tier, seed)
    return {"cases": cases, "distinct": cases, "violations": viol, "samples": [{"networks": [l for l, _ in nets(tier, seed)]}],
            "bound": "6 small networks (multi-element molecules, isotopologues, ions, ice, repeated-element formulae, missing atomic species, grains) x {cvode dense, odeint}, random positive rational abundances, perturbed and matching reference ratios",
            "rule": "each (network, back end) is one case"}
