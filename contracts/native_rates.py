"""Bounded native check for C05 (never counted as proved): from a line of a reaction file to the value of the rate.

Lines of every format are encoded from abstract reactions (one per documented type keyword / formula number), decoded by the
real code (Network(filelist=...)), the real rateexpr() text is evaluated with contracts/ceval.py at sampled physical
conditions, and the value is compared with the published law selected by the *keyword written in the file* (laws_gas.py,
evaluated numerically by a small z3-term evaluator).  This closes the gap between the deductive unit (which starts from a
Reaction object whose type is given) and the property statement (which starts from the network file)."""
from __future__ import annotations
import math, random, logging
from fractions import Fraction
import z3

logging.disable(logging.CRITICAL)

CONDITIONS = [
    dict(Tgas=77.5, Av=2.5, zeta=3.9e-17, omega=0.5, zeta_cr=2.6e-17, zeta_xr=1.3e-18, zism=1.3e-17, G0=1.7,
         h2col=3.0e20, cocol=2.0e15, n2col=1.0e14, lambdabar=1000.0, nH=2.0e4, crdeseff=1.0e5, crdesprob=3.16e-19, Tdust=12.0),
    dict(Tgas=12.0, Av=0.25, zeta=1.3e-17, omega=0.25, zeta_cr=1.3e-17, zeta_xr=0.0, zism=1.3e-17, G0=10.0,
         h2col=1.0e18, cocol=1.0e12, n2col=1.0e11, lambdabar=1500.0, nH=1.0e3, crdeseff=1.0e5, crdesprob=3.16e-19, Tdust=20.0),
    dict(Tgas=3500.0, Av=11.0, zeta=1.0e-15, omega=0.75, zeta_cr=1.0e-16, zeta_xr=1.0e-17, zism=1.3e-17, G0=1.0,
         h2col=1.0e22, cocol=1.0e18, n2col=1.0e16, lambdabar=900.0, nH=1.0e7, crdeseff=1.0e5, crdesprob=3.16e-19, Tdust=50.0),
]


def _shield(*a):
    # a deterministic stand-in for the table look-ups of the generated library (the same function on both sides)
    return 0.5 + 0.25 * math.sin(sum((k + 1) * math.log10(abs(x) + 1.0) for k, x in enumerate(a)))


FUNCS = {"exp": math.exp, "pow": math.pow, "sqrt": math.sqrt, "log": math.log, "log10": math.log10, "fabs": abs,
         "GetShieldingFactor": _shield, "GetGrainScattering": _shield, "GetH2shielding": _shield, "GetCharactWavelength": _shield}


class _Ints(dict):
    """IDX_<alias> macros: any distinct integers"""

    def __init__(self):
        super().__init__(_nonempty=0)

    def __contains__(self, k):
        return isinstance(k, str) and k.startswith("IDX_")

    def __getitem__(self, k):
        return sum(ord(c) * (i + 3) for i, c in enumerate(k)) % 997


def eval_c(text, cond):
    from . import ceval
    env = ceval.Env(arrays={"y": lambda i: Fraction(1)},
                    idents={k: Fraction(v) for k, v in cond.items()}, ints=_Ints(),
                    funcs={k: (lambda *a, f=f: Fraction(f(*[float(x) for x in a]))) for k, f in FUNCS.items()})
    return float(ceval.value(ceval.parse_expr(text), env))


def eval_term(t, cond):
    """numeric value of a laws_gas term"""
    if z3.is_rational_value(t):
        return float(Fraction(t.numerator_as_long(), t.denominator_as_long()))
    if z3.is_int_value(t):
        return float(t.as_long())
    if z3.is_algebraic_value(t):
        return float(t.approx(20).as_fraction())
    k = t.decl().kind()
    ch = [eval_term(c, cond) for c in t.children()]
    if k == z3.Z3_OP_ADD:
        return sum(ch)
    if k == z3.Z3_OP_MUL:
        out = 1.0
        for c in ch:
            out *= c
        return out
    if k == z3.Z3_OP_SUB:
        return ch[0] - sum(ch[1:])
    if k == z3.Z3_OP_UMINUS:
        return -ch[0]
    if k == z3.Z3_OP_DIV:
        return ch[0] / ch[1]
    if k == z3.Z3_OP_TO_REAL:
        return ch[0]
    name = t.decl().name()
    if k == z3.Z3_OP_UNINTERPRETED:
        if not ch:
            if name.startswith("c:"):
                return float(cond[name[2:]])
            if name.startswith("m:"):
                return float(_Ints()[name[2:]])
        if name.startswith("fn:"):
            return float(FUNCS[name[3:].split("/")[0]](*ch))
    raise ValueError(f"cannot evaluate law term {t}")


def expected_law(fmt, r):
    from . import laws_gas as L
    sp = r.reactants[0] if r.reactants else None
    if fmt == "kida":
        return L.KIDA[r.code]
    if fmt == "umist":
        return L.UMIST[r.code]
    if fmt == "leeds":
        return L.leeds(r.code, sp)
    if fmt == "uclchem":
        return L.uclchem(r.code, sp)
    if fmt == "naunet":
        from naunet.reactiontype import ReactionType as RT
        return L.NATIVE[RT(r.code).name]
    raise KeyError(fmt)


def check_rates(tier, seed):
    from . import native_net as N
    viol, cases, samples, seen_codes = [], 0, [], set()
    rnd = random.Random(55 + seed)
    n = 40 if tier == "quick" else 400

    def V(fmt, code, what, line):
        viol.append({"property": "C05", "format": fmt, "code": str(code), "what": what, "line": line,
                     "signature": f"C05:{fmt}:{code}:{what.split(':')[0]}"})
    for fmt in ["kida", "umist", "leeds", "uclchem", "naunet"]:
        N.fresh()
        ars = [r for r in N.gen_reactions(fmt, rnd, n) if not (fmt == "leeds" and r.code in (11, 12)) and not (fmt == "uclchem" and r.code not in ("MA", "CRP", "PHOTON", "CRPHOT"))]
        # the same reaction listed again with other coefficients (two sources, or a re-fit): every entry keeps its own law
        for r0 in list(ars[:6]):
            ars.append(N.AR(list(reversed(r0.reactants)), list(r0.products), r0.a * 3.0, r0.b + 0.5, r0.c + 2.0, r0.tmin, r0.tmax, r0.idx + 10000, r0.code, r0.markers))
        # coefficients whose shortest decimal form is in exponent notation (no decimal point), negative ones included: the sign clean-up
        # and the pasted literals must not depend on how the number happens to print
        for r0, (a1, b1, c1) in zip(list(ars[:12]), [(1.0e-10, 0.0, -1e-05), (2e-07, -1e-05, -2e-07), (-1e-05, 0.5, 4e-05), (1e-10, 2e-05, 7e-06)] * 3):
            ars.append(N.AR(list(r0.reactants), list(r0.products), a1, b1, c1, r0.tmin, r0.tmax, r0.idx + 20000, r0.code, r0.markers))
        lines = [(r, N.ENC[fmt](r)) for r in ars]
        try:
            net = N.load([l for _, l in lines], fmt)
        except Exception as e:
            V(fmt, "*", f"load-raises: {type(e).__name__}: {e}", "")
            continue
        got = net.reaction_list
        if len(got) != len(lines):
            V(fmt, "*", f"reaction-count: {len(got)} from {len(lines)} lines", "")
            continue
        # the statements the generated library evaluates (not only the expression of each reaction object)
        emitted = {}
        try:
            from .native_ode import render, statements, strip_comments
            files = render(net, "cvode", "dense", "cpu", jac_pattern=False)
            emitted = {int(i): " ".join(rhs.split()) for i, rhs in statements(strip_comments(files["src/naunet_rates.cpp"]), r"\bk\[(\d+)\]")}
            # the other back ends evaluate the same statements: nothing is lost or altered on the way through their templates
            for backend, fname in [(("cvode", "cusparse", "gpu"), "src/naunet_rates.cu"), (("odeint", "rosenbrock4", "cpu"), "src/naunet_ode.cpp")]:
                txt = strip_comments(render(net, *backend, jac_pattern=False)[fname])
                other = {int(i): " ".join(rhs.split()) for i, rhs in statements(txt, r"\bk\[(\d+)\]")}
                bn = "/".join(backend[:2])
                for i_ in sorted(set(emitted) | set(other)):
                    if other.get(i_) != emitted.get(i_):
                        V(fmt, "*", f"backend-statement: {bn}: k[{i_}] = {str(other.get(i_))[:80]!r}, the cvode/dense source has {str(emitted.get(i_))[:80]!r}", "")
                        break
                if txt.count("{") != txt.count("}") or txt.count("(") != txt.count(")"):
                    V(fmt, "*", f"backend-source-unbalanced: {bn}: {fname} has {txt.count('{')} '{{' and {txt.count('}')} '}}' outside comments", "")
            miss = sorted(set(range(len(got))) - set(emitted))
            if miss:
                V(fmt, "*", f"emitted-statement-missing: no assignment to k{miss[:5]} in naunet_rates.cpp", "")
        except Exception as e:
            V(fmt, "*", f"render-raises: {type(e).__name__}: {e}", "")
        for pos_, ((r, line), g) in enumerate(zip(lines, got)):
            try:
                law = expected_law(fmt, r)
            except KeyError:
                continue
            if pos_ in emitted:
                try:
                    a_, b_, c_ = N.printed(fmt, r)
                    w_ = eval_term(law(z3.RealVal(repr(a_)), z3.RealVal(repr(b_)), z3.RealVal(repr(c_))), CONDITIONS[0])
                    h_ = eval_c(emitted[pos_], CONDITIONS[0])
                    if not (abs(h_ - w_) <= 1e-9 * max(abs(h_), abs(w_)) or h_ == w_):
                        V(fmt, r.code, f"emitted-statement: k[{pos_}] = {emitted[pos_][:100]!r} = {h_!r} in naunet_rates.cpp, the law of this entry gives {w_!r}", line)
                except (ZeroDivisionError, OverflowError, ValueError):
                    pass
                except Exception as e:
                    V(fmt, r.code, f"emitted-statement-invalid: k[{pos_}] = {emitted[pos_][:100]!r}: {type(e).__name__}: {e}", line)
            a, b, c = N.printed(fmt, r)
            try:
                text = g.rateexpr()
            except Exception as e:
                V(fmt, r.code, f"rateexpr-raises: {type(e).__name__}: {e}", line)
                continue
            for cond in CONDITIONS:
                cases += 1
                try:
                    want = eval_term(law(z3.RealVal(repr(a)), z3.RealVal(repr(b)), z3.RealVal(repr(c))), cond)
                except (ZeroDivisionError, OverflowError, ValueError):
                    continue
                try:
                    have = eval_c(text, cond)
                except ZeroDivisionError:
                    V(fmt, r.code, f"value: rate text {text!r} divides by zero, published law for '{r.code}' = {want!r} at T={cond['Tgas']}", line)
                    break
                except OverflowError:
                    continue
                except Exception as e:
                    V(fmt, r.code, f"not-valid-C: {type(e).__name__}: {e} in {text!r}", line)
                    break
                if not (abs(have - want) <= 1e-9 * max(abs(have), abs(want)) or (have == want)):
                    V(fmt, r.code, f"value: rate text {text!r} = {have!r}, published law for '{r.code}' = {want!r} at T={cond['Tgas']}", line)
                    break
            seen_codes.add((fmt, str(r.code)))
            if len(samples) < 6 and (fmt, r.code) not in [(s["format"], s["code"]) for s in samples]:
                samples.append({"format": fmt, "code": r.code, "line": line, "rate": text})
    N.fresh()
    return {"cases": cases, "distinct": len(seen_codes), "violations": viol, "samples": samples,
            "bound": f"{n} generated lines per format x {len(CONDITIONS)} physical conditions",
            "rule": "one abstract reaction per (format, type keyword / formula number) cycling through all documented gas-phase codes, "
                    "random species / coefficients incl. zero and negative ones; distinct = (format, code) pairs evaluated"}


def oracle(tier, seed):
    return check_rates(tier, seed)


if __name__ == "__main__":
    import json, sys
    res = oracle(sys.argv[1] if len(sys.argv) > 1 else "quick", 0)
    print(json.dumps({k: v for k, v in res.items() if k != "violations"}, indent=1, default=str)[:1500])
    for v in res["violations"][:10]:
        print(v)
    print(len(res["violations"]), "violations")
