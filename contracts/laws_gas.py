"""Published gas-phase rate laws as real-valued spec functions (the oracle for C05), written from the
database documentation, not from the code:

KIDA (Wakelam et al. 2012, kida.uva / user guide, 'formula'):
  1  k = alpha * zeta                                  cosmic-ray ionisation
  2  k = alpha * exp(-gamma * Av)                      photo-process
  3  k = alpha * (T/300)^beta * exp(-gamma/T)          modified Arrhenius (Kooij)
  4  k = alpha*beta*(0.62 + 0.4767*gamma*sqrt(300/T))  ionpol1
  5  k = alpha*beta*(1 + 0.0967*gamma*sqrt(300/T) + gamma^2/10.526 * 300/T)   ionpol2
UMIST RATE12 (McElroy et al. 2013):
  two-body   k = alpha (T/300)^beta exp(-gamma/T);  CP  k = alpha;  CR  k = alpha (T/300)^beta gamma/(1-omega);
  PH  k = alpha exp(-gamma Av)
Walsh et al. (2015) ('leeds') and UCLCHEM (Holdship et al. 2017) use the same forms with their documented scalings
(cosmic-ray rates relative to zism = 1.3e-17, radiation field G0, Habing->Draine 1/1.7, self-shielding factors).

C library functions are uninterpreted (names as pyvc.cfrag denotes them); the only facts used are
pow(x, 0) == 1 and exp(0) == 1."""
from __future__ import annotations
import z3
from pyvc.cfrag import ufun, cconst

R = z3.RealSort()
EXP = ufun("fn:exp/1", R, R)
POW = ufun("fn:pow/2", R, R, R)
SQRT = ufun("fn:sqrt/1", R, R)
T, Av, zeta, omega = cconst("Tgas"), cconst("Av"), cconst("zeta"), cconst("omega")
zeta_cr, zeta_xr, zism, G0 = cconst("zeta_cr"), cconst("zeta_xr"), cconst("zism"), cconst("G0")
h2col, cocol, n2col, lambdabar = cconst("h2col"), cconst("cocol"), cconst("n2col"), cconst("lambdabar")


def math_axioms():
    x = z3.Real("x")
    return [z3.ForAll([x], POW(x, 0) == 1, patterns=[POW(x, 0)]), EXP(z3.RealVal(0)) == 1]


def arrhenius(a, b, c):
    return a * POW(T / 300, b) * EXP(-c / T)


def cosmic_ray(a, b, c):
    return a * zeta


def photo(a, b, c):
    return a * EXP(-c * Av)


def ionpol1(a, b, c):
    return a * b * (z3.RealVal("0.62") + z3.RealVal("0.4767") * c * SQRT(300 / T))


def ionpol2(a, b, c):
    return a * b * (1 + z3.RealVal("0.0967") * c * SQRT(300 / T) + c * c * (300 / T) / z3.RealVal("10.526"))


def crphot(a, b, c):
    return a * POW(T / 300, b) * c / (1 - omega)


KIDA = {1: cosmic_ray, 2: photo, 3: arrhenius, 4: ionpol1, 5: ionpol2}

UMIST = {
    "AD": arrhenius, "CD": arrhenius, "CE": arrhenius, "DR": arrhenius, "IN": arrhenius, "MN": arrhenius,
    "NN": arrhenius, "RA": arrhenius, "REA": arrhenius, "RR": arrhenius,
    "CP": lambda a, b, c: a,
    "CR": crphot,
    "PH": photo,
}


def shield(idx_name, col):
    f = ufun("fn:GetShieldingFactor/5", R, R, R, R, R, R)
    return lambda flag: f(z3.ToReal(z3.Int("m:" + idx_name)), h2col, col, T, z3.ToReal(z3.IntVal(flag)))


def leeds(rtype, species_name=None):
    """Walsh et al. 2015 gas-phase types"""
    zr = (zeta_cr + zeta_xr) / zism
    if rtype == 1:
        return arrhenius
    if rtype == 2:
        return lambda a, b, c: a * zr
    if rtype in (3, 11):
        return lambda a, b, c: a * zr * POW(T / 300, b) * c / (1 - omega)
    if rtype in (4, 12):
        def f(a, b, c):
            base = G0 * a * EXP(-c * Av)
            gas = species_name[1:] if rtype == 12 and species_name else species_name
            if gas in ("H2", "CO", "N2"):
                col = {"H2": h2col, "CO": cocol, "N2": n2col}[gas]
                return base * shield(f"IDX_{gas}I", col)(0)
            return base
        return f
    if rtype == 5 or rtype in range(15, 20):
        return lambda a, b, c: z3.RealVal(0)
    raise KeyError(rtype)


def uclchem(code, species_name=None):
    z = zeta / zism
    if code == "MA":
        return arrhenius
    if code == "CRP":
        return lambda a, b, c: a * z
    if code == "CRPHOT":
        return lambda a, b, c: a * z * POW(T / 300, b) * c / (1 - omega)
    if code == "PHOTON":
        def f(a, b, c):
            if species_name == "CO":
                sc = ufun("fn:GetGrainScattering/2", R, R, R)
                return z3.RealVal("2.0e-10") * G0 * shield("IDX_COI", cocol)(1) * sc(Av, lambdabar) / z3.RealVal("1.7")
            return G0 * a * EXP(-c * Av) / z3.RealVal("1.7")
        return f
    raise KeyError(code)


# native naunet types (naunet/reactiontype.py): same formalism shares the value
NATIVE = {
    "GAS_TWOBODY": arrhenius, "GAS_COSMICRAY": cosmic_ray, "GAS_PHOTON": photo, "GAS_KIDA_IP1": ionpol1,
    "GAS_KIDA_IP2": ionpol2, "GAS_UMIST_CRPHOT": crphot, "DUMMY": lambda a, b, c: z3.RealVal(0),
}

# format code -> basic type name: the tables of the code are compared with these, entry by entry
KIDA_TYPES = {1: "GAS_COSMICRAY", 2: "GAS_PHOTON", 3: "GAS_TWOBODY", 4: "GAS_KIDA_IP1", 5: "GAS_KIDA_IP2", 6: "GAS_THREEBODY"}
UMIST_TYPES = {"AD": "GAS_TWOBODY", "CD": "GAS_TWOBODY", "CE": "GAS_TWOBODY", "CP": "GAS_COSMICRAY", "CR": "GAS_UMIST_CRPHOT",
               "DR": "GAS_TWOBODY", "IN": "GAS_TWOBODY", "MN": "GAS_TWOBODY", "NN": "GAS_TWOBODY", "PH": "GAS_PHOTON",
               "RA": "GAS_TWOBODY", "REA": "GAS_TWOBODY", "RR": "GAS_TWOBODY"}
LEEDS_TYPES = {1: "GAS_TWOBODY", 2: "GAS_COSMICRAY", 3: "GAS_UMIST_CRPHOT", 4: "GAS_PHOTON", 5: "GAS_XRAY", 6: "GRAIN_RECOMINE",
               7: "GRAIN_FREEZE", 8: "GRAIN_DESORB_THERMAL", 9: "GRAIN_DESORB_COSMICRAY", 10: "GRAIN_DESORB_PHOTON",
               11: "SURFACE_COSMICRAY", 12: "SURFACE_PHOTON", 13: "SURFACE_TWOBODY", 14: "GRAIN_DESORB_REACTIVE", 20: "GRAIN_ECAPTURE"}
UCLCHEM_TYPES = {"CRP": "GAS_COSMICRAY", "PHOTON": "GAS_PHOTON", "CRPHOT": "GAS_UMIST_CRPHOT", "FREEZE": "GRAIN_FREEZE",
                 "DESOH2": "GRAIN_DESORB_H2", "DESCR": "GRAIN_DESORB_COSMICRAY", "DEUVCR": "GRAIN_DESORB_PHOTON",
                 "THERM": "GRAIN_DESORB_THERMAL", "DIFF": "SURFACE_DIFFUSION", "CHEMDES": "GRAIN_DESORB_REACTIVE"}
