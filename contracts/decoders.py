"""C07 / C18: record decoders under contract.

For each format a *spec encoder* (written from the format description: column widths / separators) turns an
abstract reaction r = (names, alpha, beta, gamma, Tmin, Tmax, index, code) into a structured string whose
fields are symbolic (names: abstract non-blank words of symbolic length up to the documented maximum; numbers:
numerals of symbolic value).  The real `_parse_string` is executed on it and must return exactly r.
A slice boundary that can fall inside a name, a split that can fuse two fields, or a numeral read from the
wrong column makes an obligation fail.  Every reactant/product occupancy pattern is a separate path.

Round trip (C18): the real `Reaction.__format__('naunet')` is executed on symbolic fields and its output is
fed to the real `Reaction._parse_string`: names, window, type code, index and the printed values come back."""
from __future__ import annotations
import z3
from pyvc.context import VerifContext
from pyvc.strmodel import StrMixin, Cell, StrModelError, mkstr_cells
from pyvc.sym import SStr, SInt, SReal, SObj, Lit, Hole, Unsupported
from pyvc.cfrag import StrId
from pyvc.interp import PyRaise

I, R = z3.IntSort(), z3.RealSort()
name_id = z3.Function("name", I, StrId)          # abstract species name k
name_len = z3.Function("name_len", I, I)
RND = {"10.3e": z3.Function("rnd_10.3e", R, R), "9.2f": z3.Function("rnd_9.2f", R, R)}

MARKERS = ("CR", "CRP", "PHOTON", "CRPHOT", "Photon", "XRAY", "X", "M", "p", "o", "m", "c-", "l-", r"\*", "g",
           "FREEZE", "DESOH2", "DESCR", "DEUVCR", "THERM", "DIFF", "CHEMDES", "NAN", "")


def word(k, maxlen):
    return Hole("word", val=name_id(k), extra={"len": name_len(k), "notin": MARKERS, "nosep": True, "k": k, "lacks": ("YC",)}, minlen=1)


def num(term, ty, lenname):
    return Hole("num", val=term, extra={"len": z3.Int(lenname), "ty": ty, "nosep": True}, minlen=1)


class DecCtx(StrMixin, VerifContext):
    def __init__(self, props=()):
        super().__init__(props)
        self.call_contracts["naunet.species.Species"] = self.c_species

    def c_species(self, interp, args, kwargs):
        nm = args[0]
        if isinstance(nm, SStr) and len(nm.segs) == 1 and isinstance(nm.segs[0], Hole) and nm.segs[0].kind == "word":
            return SObj("Species", nm.segs[0].extra["k"], {"kwargs": dict(kwargs)})
        if isinstance(nm, str):
            from naunet.species import Species
            return interp.native(Species, args, kwargs)
        raise StrModelError(f"Species() constructed from {nm!r}: not exactly one name field")

    def obj_getattr(self, interp, obj, name):
        if obj.cls == "Species" and name == "name":
            k = obj.id
            return SStr([word(k, 0)])
        raise Unsupported(f"{obj.cls}.{name}")

    def obj_isinstance(self, interp, v, tp):
        from naunet.species import Species
        return v.cls == "Species" and tp is Species

    def obj_equals(self, interp, a, b):
        if isinstance(a, SObj) and isinstance(b, SObj):
            return a.id == b.id
        return False

    def format_numeric(self, interp, v, spec):
        if isinstance(v, SReal) and spec in RND:
            # the width of a format spec is a minimum: a numeral that needs more characters (|exponent| >= 100 with a sign,
            # a temperature bound >= 1e6) is printed in full - both cases are paths of the contract
            self._nnum = getattr(self, "_nnum", 0) + 1
            h = num(RND[spec](v.t), "float", f"l!{self._nnum}")
            width = int(spec.split(".")[0])
            if interp.branch(h.extra["len"] <= width):
                return SStr([Cell(width, h, ">")])
            return SStr([h])
        if isinstance(v, SInt):
            import re
            m = re.fullmatch(r"([<>]?)(\d+)d?", spec)
            if m:
                return SStr([Cell(int(m.group(2)), num(v.t, "int", "li"), m.group(1) or ">")])
        raise Unsupported(f"format spec {spec!r}")

    def sorted_model(self, interp, x, kwargs):
        if getattr(self, "sorted_is_identity", False) and isinstance(x, list) and all(isinstance(e, (SObj, SStr, str)) for e in x):
            return list(x)       # contract stated for name-sorted lists of species (the writer's sort is a permutation)
        if isinstance(x, list) and len(x) == 2 and all(isinstance(e, (SReal, SInt, int, float)) for e in x) and not kwargs:
            from pyvc.ops import term_of
            return list(x) if interp.branch(term_of(x[0]) <= term_of(x[1])) else [x[1], x[0]]      # sorted() of two numbers
        return super().sorted_model(interp, x, kwargs)

    def pad_string(self, interp, v, align, width):
        if len(v.segs) == 1 and isinstance(v.segs[0], Hole):
            interp.prove(v.segs[0].extra["len"] <= width, "wf/name-fits-its-column")
            return SStr([Cell(width, v.segs[0], align)])
        raise Unsupported("padding of composite string")


def make_ctx(props=()):
    return DecCtx(props)


def occupancy(maxr, maxp, minr=1):
    return [(a, b) for a in range(minr, maxr + 1) for b in range(0, maxp + 1)]


def check_reaction(it, obj, tag, P, rnames, pnames, a, b, c, tmin, tmax, idx, rtype=None):
    def ids(lst):
        return [s.id if isinstance(s, SObj) else None for s in lst]
    it.prove(z3.BoolVal(len(obj.reactants) == len(rnames)), f"{tag}/reactant-count", P, detail=f"{obj.reactants!r}")
    it.prove(z3.BoolVal(len(obj.products) == len(pnames)), f"{tag}/product-count", P, detail=f"{obj.products!r}")
    if len(obj.reactants) == len(rnames) and len(obj.products) == len(pnames):
        it.prove(z3.And(*[x == y for x, y in zip(ids(obj.reactants), rnames)]) if rnames else z3.BoolVal(True), f"{tag}/reactants-in-order", P)
        it.prove(z3.And(*[x == y for x, y in zip(ids(obj.products), pnames)]) if pnames else z3.BoolVal(True), f"{tag}/products-in-order", P)

    def tt(v):
        from pyvc.ops import term_of
        t = term_of(v)
        return z3.ToReal(t) if z3.is_int(t) else t
    for nm, got, want in [("alpha", obj.alpha, a), ("beta", obj.beta, b), ("gamma", obj.gamma, c), ("temp_min", obj.temp_min, tmin), ("temp_max", obj.temp_max, tmax)]:
        it.prove(tt(got) == want, f"{tag}/{nm}", P)
    from pyvc.ops import term_of
    it.prove(term_of(obj.idxfromfile) == idx, f"{tag}/index", P)


def entry_kida(it):
    from naunet.reactions.kidareaction import KIDAReaction
    from naunet.species import Species
    Species.reset()
    occ = occupancy(3, 5)
    nr, np_ = occ[it.choose(len(occ), "occupancy")]
    form = 1 + it.choose(6, "formula")
    a, b, c = z3.Reals("alpha beta gamma")
    tmin, tmax, idx = z3.Ints("tmin tmax idx")
    names = list(range(nr + np_))
    for k in names:
        it.assume(z3.And(name_len(k) >= 1, name_len(k) <= 10))     # wf_kida: names of <= 10 characters in 11-character fields
    cells = [Cell(11, word(k, 10), "<") for k in names[:nr]] + [Cell(11, None, "<")] * (3 - nr) + [Lit(" ")]
    cells += [Cell(11, word(k, 10), "<") for k in names[nr:]] + [Cell(11, None, "<")] * (5 - np_) + [Lit(" ")]
    rest = [num(a, "float", "la"), Lit(" "), num(b, "float", "lb"), Lit(" "), num(c, "float", "lc"), Lit(" 2.00e+00 0.00e+00 logn  4 "),
            num(tmin, "int", "l1"), Lit(" "), num(tmax, "int", "l2"), Lit(f"  {form} "), num(idx, "int", "l3"), Lit(" 1  1\n")]
    line = SStr(cells + rest)
    obj = KIDAReaction.__new__(KIDAReaction)
    from naunet.component import Component
    Component.__init__(obj)
    obj.reactants, obj.products = [], []
    obj.formula = obj.itype = -1
    P = ("C07",)
    tag = f"kida/{nr}r{np_}p"
    try:
        it.call_function(KIDAReaction._parse_string, [obj, line], {})
    except PyRaise as e:
        it.fail(f"{tag}/no-exception", P, f"{type(e.exc).__name__}: {e.exc}")
        return
    check_reaction(it, obj, tag, P, names[:nr], names[nr:], a, b, c, z3.ToReal(tmin), z3.ToReal(tmax), idx)
    from . import laws_gas as L
    from naunet.reactiontype import ReactionType as RT
    it.prove(z3.BoolVal(obj.formula == form and int(obj.reaction_type) == int(RT[L.KIDA_TYPES[form]])), f"kida/formula{form}-type", P)


def entry_umist(it):
    from naunet.reactions.umistreaction import UMISTReaction
    from naunet.species import Species
    from . import laws_gas as L
    Species.reset()
    occ = occupancy(2, 4)
    nr, np_ = occ[it.choose(len(occ), "occupancy")]
    codes = list(L.UMIST_TYPES)
    code = codes[it.choose(len(codes), "code")]
    a, b, c, tmin, tmax = z3.Reals("alpha beta gamma tmin tmax")
    idx = z3.Int("idx")
    names = list(range(nr + np_))
    for k in names:
        it.assume(name_len(k) >= 1)
    segs = [num(idx, "int", "l0"), Lit(f":{code}:")]
    for k in range(2):
        segs += ([word(names[k], 0)] if k < nr else []) + [Lit(":")]
    for k in range(4):
        segs += ([word(names[nr + k], 0)] if k < np_ else []) + [Lit(":")]
    segs += [Lit("1:"), num(a, "float", "la"), Lit(":"), num(b, "float", "lb"), Lit(":"), num(c, "float", "lc"), Lit(":"),
             num(tmin, "float", "l1"), Lit(":"), num(tmax, "float", "l2"), Lit(':L:C:"ref":"notes":\n')]
    obj = UMISTReaction.__new__(UMISTReaction)
    from naunet.component import Component
    Component.__init__(obj)
    obj.reactants, obj.products, obj.code = [], [], None
    P = ("C07",)
    tag = f"umist/{nr}r{np_}p"
    try:
        it.call_function(UMISTReaction._parse_string, [obj, SStr(segs)], {})
    except PyRaise as e:
        it.fail(f"{tag}/no-exception", P, f"{type(e.exc).__name__}: {e.exc}")
        return
    check_reaction(it, obj, tag, P, names[:nr], names[nr:], a, b, c, tmin, tmax, idx)
    from naunet.reactiontype import ReactionType as RT
    it.prove(z3.BoolVal(obj.code == code and int(obj.reaction_type) == int(RT[L.UMIST_TYPES[code]])), f"umist/code-{code}-type", P)


def entry_leeds(it):
    from naunet.reactions.leedsreaction import LEEDSReaction
    from naunet.species import Species
    from . import laws_gas as L
    Species.reset()
    occ = occupancy(3, 5)
    nr, np_ = occ[it.choose(len(occ), "occupancy")]
    codes = list(L.LEEDS_TYPES)
    code = codes[it.choose(len(codes), "code")]
    a, b, c = z3.Reals("alpha beta gamma")
    tmin, tmax, idx = z3.Ints("tmin tmax idx")
    names = list(range(nr + np_))
    for k in names:
        it.assume(z3.And(name_len(k) >= 1, name_len(k) <= 9))     # wf_leeds: names of <= 9 characters in 10-character fields
    segs = [Cell(5, num(idx, "int", "l0"), "<")]
    segs += [Cell(10, word(k, 9), "<") for k in names[:nr]] + [Cell(10, None, "<")] * (3 - nr)
    segs += [Cell(10, word(k, 9), "<") for k in names[nr:]] + [Cell(10, None, "<")] * (5 - np_)
    segs += [Cell(8, num(a, "float", "la"), ">"), Cell(9, num(b, "float", "lb"), ">"), Cell(10, num(c, "float", "lc"), ">"),
             Cell(5, num(tmin, "int", "l1"), ">"), Cell(5, num(tmax, "int", "l2"), ">"), Lit(f"{code:3d}"), Lit("\n")]
    for nm_, w in (("l0", 5), ("la", 8), ("lb", 9), ("lc", 10), ("l1", 5), ("l2", 5)):
        it.assume(z3.And(z3.Int(nm_) >= 1, z3.Int(nm_) <= w))       # numerals fit their columns and may fill them
    obj = LEEDSReaction.__new__(LEEDSReaction)
    from naunet.component import Component
    Component.__init__(obj)
    obj.reactants, obj.products, obj.rtype = [], [], None
    P = ("C07",)
    tag = f"leeds/{nr}r{np_}p"
    try:
        it.call_function(LEEDSReaction._parse_string, [obj, SStr(segs)], {})
    except PyRaise as e:
        it.fail(f"{tag}/no-exception", P, f"{type(e.exc).__name__}: {e.exc}")
        return
    check_reaction(it, obj, tag, P, names[:nr], names[nr:], a, b, c, z3.ToReal(tmin), z3.ToReal(tmax), idx)
    from naunet.reactiontype import ReactionType as RT
    it.prove(z3.BoolVal(obj.rtype == code and int(obj.reaction_type) == int(RT[L.LEEDS_TYPES[code]])), f"leeds/type-{code}", P)


def entry_roundtrip(it):
    """C18: parse(format(r, 'naunet')) == r up to the printed precision, and C07 for the native reader"""
    from naunet.reactions.reaction import Reaction
    from naunet.reactiontype import ReactionType as RT
    from naunet.species import Species
    Species.reset()
    occ = occupancy(3, 5, minr=0)
    nr, np_ = occ[it.choose(len(occ), "occupancy")]
    types = [RT.GAS_TWOBODY, RT.GAS_COSMICRAY, RT.GAS_UMIST_CRPHOT, RT.GRAIN_FREEZE, RT.UNKNOWN]
    rt = types[it.choose(len(types), "type")]
    a, b, c, tmin, tmax = z3.Reals("alpha beta gamma tmin tmax")
    idx = z3.Int("idx")
    names = list(range(nr + np_))
    for k in names:
        it.assume(z3.And(name_len(k) >= 1, name_len(k) <= 12))
    src = Reaction.__new__(Reaction)
    from naunet.component import Component
    Component.__init__(src)
    src.reactants = [SObj("Species", k) for k in names[:nr]]
    src.products = [SObj("Species", k) for k in names[nr:]]
    src.alpha, src.beta, src.gamma, src.temp_min, src.temp_max = SReal(a), SReal(b), SReal(c), SReal(tmin), SReal(tmax)
    src.idxfromfile, src.reaction_type, src.source = SInt(idx), rt, "kida"
    P = ("C18", "C07", "C06")
    tag = f"naunet/{nr}r{np_}p"
    # Reaction.__format__ sorts the species by name: the contract is stated for name-sorted lists (sorted() is the identity)
    it.ctx.sorted_is_identity = True
    try:
        text = it.call_function(Reaction.__format__, [src, "naunet"], {})
    except PyRaise as e:
        it.fail(f"{tag}/format-no-exception", P, f"{type(e.exc).__name__}: {e.exc}")
        return
    dst = Reaction.__new__(Reaction)
    Component.__init__(dst)
    dst.reactants, dst.products = [], []
    try:
        it.call_function(Reaction._parse_string, [dst, text], {})
    except PyRaise as e:
        it.fail(f"{tag}/parse-no-exception", P, f"{type(e.exc).__name__}: {e.exc}")
        return
    check_reaction(it, dst, tag, P, names[:nr], names[nr:], RND["10.3e"](a), RND["10.3e"](b), RND["10.3e"](c),
                   RND["9.2f"](tmin), RND["9.2f"](tmax), idx)
    it.prove(z3.BoolVal(int(dst.reaction_type) == int(rt) and dst.source == "kida"), f"naunet/type-and-source-tag", P,
             detail=f"type {dst.reaction_type!r} source {dst.source!r}")


def _register():
    from pyvc.units import Unit, register
    from naunet.reactions.kidareaction import KIDAReaction
    from naunet.reactions.umistreaction import UMISTReaction
    from naunet.reactions.leedsreaction import LEEDSReaction
    from naunet.reactions.reaction import Reaction
    from naunet.component import Component
    register(Unit("decode_kida", __name__, make_ctx, entry_kida, functions=[KIDAReaction._parse_string, Component._create_species], props=("C07",)))
    register(Unit("decode_umist", __name__, make_ctx, entry_umist, functions=[UMISTReaction._parse_string, Component._create_species], props=("C07",)))
    register(Unit("decode_leeds", __name__, make_ctx, entry_leeds, functions=[LEEDSReaction._parse_string, Component._create_species], props=("C07",)))
    register(Unit("naunet_roundtrip", __name__, make_ctx, entry_roundtrip,
                  functions=[Reaction.__format__, Reaction._parse_string, Component._create_species], props=("C18", "C07", "C06")))


_register()


def entry_uclchem(it):
    """UCLCHEM line  r1,r2,r3,p1,p2,p3,p4,alpha,beta,gamma,Tmin,Tmax  (absent slots NAN; the second slot is a species, NAN or the
    keyword that names the process).  A freeze-out line is read with the window (0, 30) whatever it says (documented behaviour)."""
    from naunet.reactions.uclchemreaction import UCLCHEMReaction
    from naunet.species import Species
    from . import laws_gas as L
    from naunet.reactiontype import ReactionType as RT
    Species.reset()
    codes = ["MA"] + list(L.UCLCHEM_TYPES)
    code = codes[it.choose(len(codes), "code")]
    if code == "MA":
        nr = 1 + it.choose(3, "reactants")          # 1, 2 or 3 species
    else:
        nr = 1 + it.choose(2, "third-body")          # the species, optionally one more in the third slot
    np_ = 1 + it.choose(4, "products")
    a, b, c, tmin, tmax = z3.Reals("alpha beta gamma tmin tmax")
    names = list(range(nr + np_))
    for k in names:
        it.assume(name_len(k) >= 1)
    NAN = Lit("NAN")
    if code == "MA":
        slots = [word(names[k], 0) if k < nr else NAN for k in range(3)]
    else:
        slots = [word(names[0], 0), Lit(code), word(names[1], 0) if nr == 2 else NAN]
    slots += [word(names[nr + k], 0) if k < np_ else NAN for k in range(4)]
    segs = []
    for s_ in slots:
        segs += [s_, Lit(",")]
    segs += [num(a, "float", "la"), Lit(","), num(b, "float", "lb"), Lit(","), num(c, "float", "lc"), Lit(","), num(tmin, "float", "l1"), Lit(","),
             num(tmax, "float", "l2"), Lit("\n")]
    obj = UCLCHEMReaction.__new__(UCLCHEMReaction)
    from naunet.component import Component
    Component.__init__(obj)
    obj.reactants, obj.products = [], []
    P = ("C07",)
    tag = f"uclchem/{code}/{nr}r{np_}p"
    try:
        it.call_function(UCLCHEMReaction._parse_string, [obj, SStr(segs)], {})
    except PyRaise as e:
        it.fail(f"{tag}/no-exception", P, f"{type(e.exc).__name__}: {e.exc}")
        return
    wmin, wmax = (z3.RealVal(0), z3.RealVal(30)) if code == "FREEZE" else (tmin, tmax)
    obj.idxfromfile = getattr(obj, "idxfromfile", -1)
    check_reaction(it, obj, tag, P, names[:nr], names[nr:], a, b, c, wmin, wmax, z3.IntVal(int(obj.idxfromfile)) if isinstance(obj.idxfromfile, int) else z3.IntVal(-1))
    want = int(RT.GAS_TWOBODY) if code == "MA" else int(RT[L.UCLCHEM_TYPES[code]])
    it.prove(z3.BoolVal(int(obj.reaction_type) == want), f"uclchem/keyword-{code}-type", P, detail=f"{obj.reaction_type!r}")


def _register_ucl():
    from pyvc.units import Unit, register
    from naunet.reactions.uclchemreaction import UCLCHEMReaction
    from naunet.component import Component
    register(Unit("decode_uclchem", __name__, make_ctx, entry_uclchem, functions=[UCLCHEMReaction._parse_string, Component._create_species], props=("C07",)))


_register_ucl()


class KromeCtx(DecCtx):
    """KROME lines: the first character of a line that starts with its index is a digit or a sign (never the comment mark)"""

    def str_index(self, interp, s, idx):
        if isinstance(idx, int) and idx == 0 and isinstance(s, SStr) and s.segs:
            f = s.segs[0]
            if isinstance(f, Lit) and f.text:
                return f.text[0]
            if isinstance(f, Hole) and f.kind == "num":
                return SStr([Hole("word", val=z3.Const("first_char_of_index", StrId), minlen=1, extra={"len": z3.IntVal(1), "notin": ("#", "@", "/"), "nosep": True})])
        return super().str_index(interp, s, idx)


KROME_WINDOWS = [("NONE", None), ("N", None), ("10", 10.0), ("1.d1", 10.0), (".LE.1d2", 100.0), (">1.5d2", 150.0), (".GE..5d3", 500.0), ("<3d3", 3000.0),
                 (".LT.4.1d4", 41000.0), (".GT.2.5e1", 25.0), (".25d2", 25.0), ("1e4", 10000.0), (".5d3", 500.0), ("1000.", 1000.0)]


def entry_krome(it):
    """KROME line in the default column layout idx,R,R,R,P,P,P,P,Tmin,Tmax,rate: symbolic index and species names (absent slots empty),
    the temperature cells in every spelling of a stated list (concrete text: operators, d-exponents, NONE), the rate text opaque-free
    (a fixed expression).  The index, the reactants and products in order, the window (0 / default when the cell says no limit) and
    the rate text come back."""
    from naunet.reactions.kromereaction import KROMEReaction
    from naunet.species import Species
    Species.reset()
    occ = [(a, b) for a in range(1, 4) for b in range(0, 5)]
    nr, np_ = occ[it.choose(len(occ), "occupancy")]
    wl = KROME_WINDOWS[it.choose(len(KROME_WINDOWS), "tmin-spelling")]
    wu = KROME_WINDOWS[(KROME_WINDOWS.index(wl) * 5 + 3) % len(KROME_WINDOWS)]
    idx = z3.Int("idx")
    it.assume(idx >= 0)
    names = list(range(nr + np_))
    for k in names:
        it.assume(name_len(k) >= 1)
    segs = [num(idx, "int", "l0"), Lit(",")]
    for k in range(3):
        segs += ([word(names[k], 0)] if k < nr else []) + [Lit(",")]
    for k in range(4):
        segs += ([word(names[nr + k], 0)] if k < np_ else []) + [Lit(",")]
    rate = "1.0d-10*(Tgas/3d2)**(0.5)*dexp(-1.5d2/Tgas)"
    segs += [Lit(f"{wl[0]},{wu[0]},{rate}")]
    obj = KROMEReaction.__new__(KROMEReaction)
    from naunet.component import Component
    Component.__init__(obj)
    obj.reactants, obj.products = [], []
    obj.temp_min, obj.temp_max, obj.idxfromfile, obj.rate_string = -1.0, -1.0, -1, ""
    obj.kromeformat = "idx,r,r,r,p,p,p,p,tmin,tmax,rate"
    P = ("C07", "C06")
    tag = f"krome/{nr}r{np_}p/{wl[0]}/{wu[0]}"
    try:
        it.call_function(KROMEReaction._parse_string, [obj, SStr(segs)], {})
    except PyRaise as e:
        it.fail(f"krome/{nr}r{np_}p/no-exception", P, f"{tag}: {type(e.exc).__name__}: {e.exc}")
        return

    def ids(lst):
        return [s.id if isinstance(s, SObj) else None for s in lst]
    t2 = f"krome/{nr}r{np_}p"
    it.prove(z3.BoolVal(len(obj.reactants) == nr and len(obj.products) == np_), f"{t2}/species-counts", P, detail=f"{obj.reactants!r} -> {obj.products!r}")
    if len(obj.reactants) == nr and len(obj.products) == np_:
        it.prove(z3.And(*[x == y for x, y in zip(ids(obj.reactants) + ids(obj.products), names)]), f"{t2}/species-in-order", P)
    from pyvc.ops import term_of
    it.prove(term_of(obj.idxfromfile) == idx, f"{t2}/index", P)
    for nm_, got, (txt, val) in (("temp_min", obj.temp_min, wl), ("temp_max", obj.temp_max, wu)):
        want = -1.0 if val is None else val
        ok = isinstance(got, (int, float)) and float(got) == want
        if ok:
            it.prove(z3.BoolVal(True), f"krome/window/{nm_}-spelled-{txt}", P)
        else:
            it.fail(f"krome/window/{nm_}-spelled-{txt}", P, f"cell {txt!r} decoded as {got!r}, it means {want}")
    it.prove(z3.BoolVal(obj.rate_string == rate.replace("dexp", "exp")), f"{t2}/rate-text", P, detail=f"{obj.rate_string!r}")


def _register_krome():
    from pyvc.units import Unit, register
    from naunet.reactions.kromereaction import KROMEReaction
    from naunet.component import Component
    register(Unit("decode_krome", __name__, lambda props=(): KromeCtx(props), entry_krome, functions=[KROMEReaction._parse_string, Component._create_species], props=("C07", "C06")))


_register_krome()
