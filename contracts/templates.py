"""Emission-site contracts on the real Jinja templates.

The template source is parsed on every run with jinja2's own parser through the environment that
TemplateLoader builds (same loader, filters, trim settings).  Each obligation is either
  * a structural fact about an emission site (which list is iterated, which guard, which expressions are
    written where), decided on the template AST, or
  * an arithmetic VC about an index expression of the template (row/column decoding of the flat Jacobian index,
    element-matrix decoding in renorm), discharged by z3 with the stride abstraction of pyvc.smt, or
  * a frame scan of the rendered C text (rate arrays zero-initialised in the block that evaluates the rates).
What is dropped: Jinja's runtime (escaping is off, no async); `stmwrap` is covered separately (wrap contract)."""
from __future__ import annotations
import re, time
import z3
from jinja2 import nodes
from pyvc import smt

_env_cache = {}


def env_for(solver="cvode"):
    from naunet.templateloader import TemplateLoader
    if solver not in _env_cache:
        _env_cache[solver] = TemplateLoader(solver, "dense" if solver == "cvode" else "rosenbrock4", "cpu")._env
    return _env_cache[solver]


def parse(name):
    env = env_for("cvode")
    src = env.loader.get_source(env, name)[0]
    return env.parse(src), src


def etext(n) -> str:
    """canonical text of a Jinja expression node"""
    if isinstance(n, nodes.Name):
        return n.name
    if isinstance(n, nodes.Const):
        return repr(n.value)
    if isinstance(n, nodes.Getattr):
        return f"{etext(n.node)}.{n.attr}"
    if isinstance(n, nodes.Getitem):
        return f"{etext(n.node)}[{etext(n.arg)}]"
    if isinstance(n, nodes.Filter):
        a = ", ".join([etext(x) for x in n.args] + [f"{k.key}={etext(k.value)}" for k in n.kwargs])
        return f"{etext(n.node)}|{n.name}({a})" if a else f"{etext(n.node)}|{n.name}"
    if isinstance(n, nodes.Call):
        return f"{etext(n.node)}({', '.join(etext(x) for x in n.args)})"
    if isinstance(n, nodes.BinExpr):
        return f"({etext(n.left)} {n.operator} {etext(n.right)})"
    if isinstance(n, nodes.Compare):
        return etext(n.expr) + "".join(f" {o.op} {etext(o.expr)}" for o in n.ops)
    if isinstance(n, (nodes.Tuple, nodes.List)):
        return "[" + ", ".join(etext(x) for x in n.items) + "]"
    if isinstance(n, nodes.Not):
        return f"not {etext(n.node)}"
    if isinstance(n, nodes.And):
        return f"({etext(n.left)} and {etext(n.right)})"
    if isinstance(n, nodes.Or):
        return f"({etext(n.left)} or {etext(n.right)})"
    if isinstance(n, nodes.Concat):
        return " ~ ".join(etext(x) for x in n.nodes)
    if isinstance(n, nodes.TemplateData):
        return repr(n.data)
    return type(n).__name__


class Site:
    def __init__(self, parts, loops, guards, sets, lineno):
        self.parts, self.loops, self.guards, self.sets, self.lineno = parts, loops, guards, sets, lineno

    @property
    def literal(self):
        return "".join(p for p in self.parts if isinstance(p, str))

    @property
    def exprs(self):
        return [p for p in self.parts if not isinstance(p, str)]

    def loop_iters(self):
        return [etext(it) for _, it in self.loops]

    def __repr__(self):
        return f"Site(line {self.lineno}: {''.join(p if isinstance(p, str) else '{{' + etext(p) + '}}' for p in self.parts)!r})"


def sites(ast):
    out = []

    def walk(body, loops, guards, sets):
        sets = dict(sets)
        for n in body:
            if isinstance(n, nodes.Output):
                parts = []
                for x in n.nodes:
                    if isinstance(x, nodes.TemplateData):
                        parts.append(x.data)
                    else:
                        parts.append(x)
                # split an Output into one site per emitted line group keeps patterns simple
                out.append(Site(parts, list(loops), list(guards), dict(sets), n.lineno))
            elif isinstance(n, nodes.For):
                walk(n.body, loops + [(n.target, n.iter)], guards, sets)
                walk(n.else_, loops, guards, sets)
            elif isinstance(n, nodes.If):
                walk(n.body, loops, guards + [etext(n.test)], sets)
                neg = [f"not ({etext(n.test)})"]
                for e in n.elif_:
                    walk(e.body, loops, guards + neg + [etext(e.test)], sets)
                    neg = neg + [f"not ({etext(e.test)})"]
                walk(n.else_, loops, guards + neg, sets)
            elif isinstance(n, nodes.Assign):
                if isinstance(n.target, nodes.Name):
                    sets[n.target.name] = n.node
                elif isinstance(n.target, nodes.Tuple) and isinstance(n.node, nodes.Tuple):
                    for t, v in zip(n.target.items, n.node.items):
                        sets[t.name] = v
            elif isinstance(n, (nodes.Macro, nodes.CallBlock, nodes.FilterBlock, nodes.With, nodes.Block)):
                walk(n.body, loops, guards, sets)
    walk(ast.body, [], [], {})
    return out


# ------------------------------------------------------------------ arithmetic semantics of index expressions
class Arith:
    """symbolic evaluation of the integer index expressions used in templates.  `(a / b) | int` and `a % b`
    are characterised exactly for a >= 0, b > 0 (true division then int(): exact below 2^53, assumption)."""

    def __init__(self, binds, names):
        self.binds, self.names = binds, names
        self.constraints, self.requires = [], []
        self.n = 0

    def fresh(self, p):
        self.n += 1
        return z3.Int(f"{p}{self.n}")

    def ev(self, n):
        if isinstance(n, nodes.Const) and isinstance(n.value, int):
            return z3.IntVal(n.value)
        if isinstance(n, nodes.Name):
            if n.name in self.binds:
                return self.ev(self.binds[n.name])
            if n.name in self.names:
                return self.names[n.name]
            raise KeyError(f"unbound template variable {n.name}")
        if isinstance(n, (nodes.Getattr, nodes.Filter, nodes.List)):
            t = etext(n)
            if t in self.names:
                return self.names[t]
        if isinstance(n, nodes.Filter) and n.name == "int" and isinstance(n.node, nodes.Div):
            return self.floordiv(self.ev(n.node.left), self.ev(n.node.right))
        if isinstance(n, nodes.Filter) and n.name == "int":
            return self.ev(n.node)
        if isinstance(n, nodes.Filter) and n.name in ("max", "min") and isinstance(n.node, nodes.List):
            vals = [self.ev(x) for x in n.node.items]
            acc = vals[0]
            for v in vals[1:]:
                acc = z3.If(v > acc, v, acc) if n.name == "max" else z3.If(v < acc, v, acc)
            return acc
        if isinstance(n, nodes.FloorDiv):
            return self.floordiv(self.ev(n.left), self.ev(n.right))
        if isinstance(n, nodes.Mod):
            a, b = self.ev(n.left), self.ev(n.right)
            q, r = self.fresh("q"), self.fresh("r")
            self.requires.append(b > 0)
            self.constraints += [a == q * b + r, r >= 0, r < b]
            return r
        if isinstance(n, nodes.Add):
            return self.ev(n.left) + self.ev(n.right)
        if isinstance(n, nodes.Sub):
            return self.ev(n.left) - self.ev(n.right)
        if isinstance(n, nodes.Mul):
            return self.ev(n.left) * self.ev(n.right)
        raise KeyError(f"index expression not in the modelled fragment: {etext(n)}")

    def floordiv(self, a, b):
        q = self.fresh("q")
        self.requires += [b > 0, a >= 0]
        self.constraints += [q * b <= a, a < (q + 1) * b]
        return q


def item(name, ok, detail="", backend="template-ast", status=None, seconds=0.0):
    return {"name": name, "status": status or ("proved" if ok else "refuted"), "backend": backend, "seconds": seconds,
            "detail": detail}


def decode_vc(name, site, row_e, col_e, stride_expected: str, names, props_note=""):
    """prove: for t = row*N + col (0<=col<N, 0<=row<N, N = value of the template's stride binding) the emitted
    (row, col) expressions evaluate to (row, col), where N must equal `stride_expected`"""
    n_eqns = names["__stride__"]
    t = names["loop.index0"]
    row, col = z3.Ints("row col")
    A = Arith(site.sets, names)
    t0 = time.time()
    try:
        er, ec = A.ev(row_e), A.ev(col_e)
    except KeyError as e:
        return item(name, False, f"{site!r}: {e}", status="unknown")
    pre = [n_eqns >= 1, row >= 0, row < n_eqns, col >= 0, col < n_eqns, t == row * n_eqns + col] + names.get("__facts__", [])
    claim = z3.And(*(A.requires + [z3.Implies(z3.And(*A.constraints) if A.constraints else z3.BoolVal(True), z3.And(er == row, ec == col))]))
    strides = [n_eqns] + [s for s in names.get("__strides__", [])]
    st, be, dt, mdl = smt.check_valid_inst([], pre, claim, strides=strides)
    if st != "proved":
        # nonlinear fallback without abstraction
        st2, be2, dt2, mdl2 = smt.check_valid(pre, claim, timeout_ms=10000)
        if st2 == "proved":
            st, be = st2, be2
        elif st2 == "refuted":
            st, mdl = "refuted", mdl2
    det = f"{site!r} row={etext(row_e)} col={etext(col_e)} stride bound to {etext(site.sets.get('neqns', site.sets.get('nelem'))) if (site.sets.get('neqns') or site.sets.get('nelem')) else '?'}"
    if mdl is not None and st != "proved":
        det += " | counter-model: " + ", ".join(f"{d.name()}={mdl[d]}" for d in mdl.decls() if d.arity() == 0)[:300]
    return item(name, st == "proved", det, backend=be, status=st, seconds=time.time() - t0)


def _find(ss, literal_re, loop_iter=None, guard=None):
    out = []
    for s in ss:
        if re.search(literal_re, s.literal) and (loop_iter is None or loop_iter in s.loop_iters()) and \
                (guard is None or any(guard in g for g in s.guards)):
            out.append(s)
    return out


def jacobian_template_items(tier):
    """C02/C03: every back end writes entry (row, col) <- jacrhs[row*n_eqns+col] for exactly the non-"0.0" entries"""
    items = []
    n_spec, th = z3.Int("n_spec"), z3.Int("thermal")
    n_eqns = z3.Int("n_eqns")
    facts = [n_spec >= 0, z3.Or(th == 0, th == 1), n_eqns == z3.If(n_spec + th > 1, n_spec + th, 1)]
    names = {"loop.index0": z3.Int("t"), "ode.jac.nrow": n_eqns, "network.species|length": n_spec,
             "__stride__": n_eqns, "__facts__": facts}
    for tname, lit, label in [("cvode/src/naunet_jac.cpp.j2", r"IJth\(jmatrix,", "cvode-dense"),
                              ("odeint/src/naunet_ode.cpp.j2", r"\bj\(", "odeint")]:
        ast, src = parse(tname)
        ss = sites(ast)
        cand = _find(ss, lit)
        items.append(item(f"tmpl/{label}/one-jacobian-emission-site", len(cand) == 1, f"{len(cand)} sites write the matrix: {cand}"))
        if len(cand) != 1:
            continue
        s = cand[0]
        items.append(item(f"tmpl/{label}/iterates-jac.rhs", s.loop_iters()[-1:] == ["ode.jac.rhs"], f"loops {s.loop_iters()}"))
        lv = s.loops[-1][0].name if s.loops and isinstance(s.loops[-1][0], nodes.Name) else "?"
        items.append(item(f"tmpl/{label}/guard-skips-only-literal-zero", any(g == f"{lv} ne '0.0'" for g in s.guards),
                          f"guards {s.guards}"))
        ex = s.exprs
        if len(ex) != 3:
            items.append(item(f"tmpl/{label}/site-shape", False, f"{s!r}"))
            continue
        items.append(decode_vc(f"tmpl/{label}/row-col-decode-flat-index", s, ex[0], ex[1], "ode.jac.nrow", names))
        vt = etext(ex[2])
        items.append(item(f"tmpl/{label}/value-is-entry-text", re.fullmatch(rf"{lv}\|stmwrap\(\d+, \d+\)", vt) is not None, vt))
        if label == "cvode-dense":
            items.append(item(f"tmpl/{label}/under-dense-branch", any("general.method eq 'dense'" in g for g in s.guards), str(s.guards)))
    # sparse: three element-wise loops
    ast, src = parse("cvode/src/naunet_jac.cpp.j2")
    ss = sites(ast)
    for arr, it, lit in [("rowptrs", "ode.jac.rows", r"rowptrs\["), ("colvals", "ode.jac.cols", r"colvals\["),
                         ("data", "ode.jac.vals", r"\bdata\[(?!jistart)")]:
        cand = [s for s in _find(ss, lit) if s.loops]
        ok = len(cand) == 1
        items.append(item(f"tmpl/cvode-sparse/{arr}/one-site", ok, f"{cand}"))
        if not ok:
            continue
        s = cand[0]
        lv = s.loops[-1][0].name
        ex = [etext(e) for e in s.exprs]
        items.append(item(f"tmpl/cvode-sparse/{arr}/iterates-{it}", s.loop_iters()[-1:] == [it], f"{s.loop_iters()}"))
        want_val = lv if arr != "data" else None
        good = len(ex) == 2 and ex[0] == "loop.index0" and (ex[1] == want_val if want_val else re.fullmatch(rf"{lv}\|stmwrap\(\d+, \d+\)", ex[1]) is not None)
        items.append(item(f"tmpl/cvode-sparse/{arr}/element-p-gets-list-element-p", good, f"{s!r}"))
        items.append(item(f"tmpl/cvode-sparse/{arr}/under-sparse-branch", any("general.method eq 'sparse'" in g for g in s.guards), str(s.guards)))
    # cusparse: InitJac arrays and kernel data
    for arr, it in [("rowptrs", "ode.jac.rows"), ("colvals", "ode.jac.cols")]:
        cand = [s for s in ss if re.search(rf"int {arr}\[", s.literal)]
        ok = len(cand) == 1 and any(etext(e).startswith(f"{it}|map('string')|join(', ')") for e in cand[0].exprs)
        items.append(item(f"tmpl/cvode-cusparse/{arr}-initialiser-lists-{it}", ok, f"{cand}"))
    cand = _find(ss, r"data\[jistart \+ ")
    ok = len(cand) == 1 and cand[0].loop_iters()[-1:] == ["ode.jac.vals"]
    items.append(item("tmpl/cvode-cusparse/kernel-data-site", ok, f"{cand}"))
    # batched kernel: cell `cur` owns the block [cur*NNZ, (cur+1)*NNZ) of the value array and the block [cur*NEQUATIONS, ...) of the state
    plain = re.sub(r"/\*.*?\*/|//[^\n]*", " ", src, flags=re.S)
    jdef = re.findall(r"\bint\s+jistart\s*=\s*([^;]+);", plain)
    ydef = re.findall(r"\bint\s+yistart\s*=\s*([^;]+);", plain)
    items.append(item("tmpl/cvode-cusparse/kernel-value-block-offset-is-cur-times-NNZ", bool(jdef) and all(re.sub(r"\s+", "", d) == "cur*NNZ" for d in jdef), f"jistart = {jdef}"))
    items.append(item("tmpl/cvode-cusparse/kernel-state-block-offset-is-cur-times-NEQUATIONS", bool(ydef) and all(re.sub(r"\s+", "", d) == "cur*NEQUATIONS" for d in ydef), f"yistart = {ydef}"))
    if ok:
        s = cand[0]
        lv = s.loops[-1][0].name
        ex = [etext(e) for e in s.exprs]
        good = len(ex) == 2 and ex[0] == "loop.index0" and re.fullmatch(rf"{lv}\|replace\('y\[IDX', 'y_cur\[IDX'\)\|stmwrap\(\d+, \d+\)", ex[1]) is not None
        items.append(item("tmpl/cvode-cusparse/kernel-data-element-p", good, f"{s!r}"))
    decl = {m.group(1): m.group(2) for m in re.finditer(r"int (rowptrs|colvals)\[([^\]]+)\]", src)}
    items.append(item("tmpl/cvode-cusparse/array-sizes", decl.get("rowptrs") == "NEQUATIONS + 1" and decl.get("colvals") == "NNZ", str(decl)))
    return items


def fex_template_items(tier):
    """C01: each element of ode.fex is emitted exactly once, in order, through stmwrap only (kernel: renamed arrays)"""
    items = []
    for tname, label, branches in [("cvode/src/naunet_fex.cpp.j2", "cvode", True), ("odeint/src/naunet_ode.cpp.j2", "odeint", False)]:
        ast, src = parse(tname)
        ss = sites(ast)
        cand = [s for s in ss if "ode.fex" in s.loop_iters()]
        plain = [s for s in cand if [etext(e) for e in s.exprs] and re.fullmatch(r"eq\|stmwrap\(\d+, \d+\)", etext(s.exprs[0]))]
        kern = [s for s in cand if s not in plain]
        items.append(item(f"tmpl/{label}/fex-emitted-through-stmwrap", len(plain) == 1, f"{cand}"))
        if branches:
            items.append(item(f"tmpl/{label}/fex-cpu-branch", len(plain) == 1 and any("dense" in g and "sparse" in g for g in plain[0].guards), f"{[s.guards for s in plain]}"))
            good = len(kern) == 1 and re.fullmatch(
                r"eq\|replace\('ydot\[IDX', 'ydot\[yistart \+ IDX'\)\|replace\('y\[IDX', 'y_cur\[IDX'\)\|stmwrap\(\d+, \d+\)",
                etext(kern[0].exprs[0])) is not None and any("cusparse" in g for g in kern[0].guards)
            items.append(item(f"tmpl/{label}/fex-kernel-renames-arrays", good, f"{kern}"))
            items.append(item(f"tmpl/{label}/kernel-y_cur-is-y-plus-yistart", "realtype *y_cur        = y + yistart;" in src and "int yistart            = cur * NEQUATIONS;" in src, ""))
        else:
            items.append(item(f"tmpl/{label}/no-other-fex-site", len(kern) == 0, f"{kern}"))
    return items


def macros_template_items(tier):
    """C03/C09: sizes and index macros"""
    items = []
    ast, src = parse("base/cpp/include/naunet_macros.h.j2")
    ss = sites(ast)

    def has(lit_re, exprs, loop=None):
        for s in ss:
            txt = "".join(p if isinstance(p, str) else "{{" + etext(p) + "}}" for p in s.parts)
            if re.search(lit_re, txt) and (loop is None or loop in s.loop_iters()):
                return True, txt
        return False, ""
    for name, pat, loop in [
        ("NSPECIES-is-len-species", r"#define NSPECIES \{\{network\.species\|length\}\}\n", None),
        ("NELEMENTS-is-len-elements", r"#define NELEMENTS \{\{network\.elements\|length\}\}\n", None),
        ("NREACTIONS-is-len-reactions", r"#define NREACTIONS \{\{network\.reactions\|length\}\}\n", None),
        ("NHEATPROCS-is-len-heating", r"#define NHEATPROCS \{\{network\.heating\|length\}\}\n", None),
        ("NCOOLPROCS-is-len-cooling", r"#define NCOOLPROCS \{\{network\.cooling\|length\}\}\n", None),
        ("NNZ-is-jac.nnz", r"#define NNZ \{\{ode\.jac\.nnz\}\}\n", None),
        ("NEQUATIONS-is-max(nspec+thermal,1)", r"#define THERMAL \(NHEATPROCS \|\| NCOOLPROCS\)\n#if \(NSPECIES \+ THERMAL\)\n#define NEQUATIONS \(NSPECIES \+ THERMAL\)\n#else\n#define NEQUATIONS 1\n#endif\n", None),
        ("IDX_TGAS-is-NSPECIES", r"#if THERMAL\n#define IDX_TGAS NSPECIES\n#endif", None),
        ("IDX-of-species-i-is-i", r"#define IDX_\{\{spec\.alias\}\} \{\{loop\.index0\}\}\n", "network.species"),
        ("IDX_ELEM-of-element-i-is-i", r"#define IDX_ELEM_\{\{spec\.element_count\.keys\(\)\|first\}\} \{\{loop\.index0\}\}\n", "network.elements"),
    ]:
        ok, txt = has(pat, None, loop)
        items.append(item(f"tmpl/macros/{name}", ok, pat if not ok else ""))
    ndef = len(re.findall(r"#define IDX_[A-Z_]*\{\{", "".join("".join(p if isinstance(p, str) else "{{" + etext(p) + "}}" for p in s.parts) for s in ss)))
    items.append(item("tmpl/macros/no-other-IDX-definitions", ndef == 2, f"{ndef} templated IDX_ definitions"))
    return items


def rate_array_scan_items(tier):
    """C06: outside its window a rate is exactly zero because every consumer declares
    `realtype k[NREACTIONS] = {0.0};` in the same block (same loop iteration) that calls EvalRates"""
    from .native_ode import render, networks, strip_comments
    items = []
    label, fac = next(x for x in networks("quick", 0) if x[0] == "cooling-1")
    for backend in [("cvode", "dense", "cpu"), ("cvode", "sparse", "cpu"), ("cvode", "cusparse", "gpu"), ("odeint", "rosenbrock4", "cpu")]:
        net = fac()
        files = render(net, *backend, jac_pattern=False)
        ext = "cu" if backend[2] == "gpu" else "cpp"
        fnames = [f"src/naunet_fex.{ext}", f"src/naunet_jac.{ext}"] if backend[0] == "cvode" else ["src/naunet_ode.cpp"]
        for fn in fnames:
            txt = strip_comments(files[fn])
            for sym, ev, macro in [("k", "EvalRates", "NREACTIONS"), ("kh", "EvalHeatingRates", "NHEATPROCS"), ("kc", "EvalCoolingRates", "NCOOLPROCS")]:
                calls = [m.start() for m in re.finditer(rf"\b{ev}\(\s*{sym}\s*,", txt)]
                for ci, pos in enumerate(calls):
                    ok, why = _zero_init_in_same_block(txt, pos, sym, macro)
                    items.append(item(f"tmpl/{'/'.join(backend[:2])}/{fn.split('/')[-1]}/{sym}-zeroed-before-{ev}#{ci}", ok, why))
                if sym == "k":
                    items.append(item(f"tmpl/{'/'.join(backend[:2])}/{fn.split('/')[-1]}/calls-EvalRates", len(calls) >= 1, f"{len(calls)} calls"))
    return items


def guard_operand_items(tier):
    """C06 frame: the quantities a window guard is tested against are the caller's.  In every rendered rate evaluator (EvalRates,
    EvalHeatingRates, EvalCoolingRates of every back end) a user parameter is bound once (`realtype X = u_data->X;`) and never
    assigned again, and the evaluator never writes through u_data: a guard `if (Tgas > lo && Tgas < hi)` therefore compares the
    temperature the caller supplied."""
    from .native_ode import render, networks, strip_comments
    items = []
    label, fac = next(x for x in networks("quick", 0) if x[0] == "cooling-1")
    for backend in [("cvode", "dense", "cpu"), ("cvode", "sparse", "cpu"), ("cvode", "cusparse", "gpu"), ("odeint", "rosenbrock4", "cpu")]:
        net = fac()
        files = render(net, *backend, jac_pattern=False)
        b = "/".join(backend[:2])
        found = 0
        for fn, raw in sorted(files.items()):
            if not fn.startswith("src/") or not fn.endswith((".cpp", ".cu")):
                continue
            txt = strip_comments(raw)
            for m in re.finditer(r"\b(Eval(?:Heating|Cooling)?Rates(?:Device)?)\s*\([^;{)]*\)\s*\{", txt):
                depth, j = 1, m.end()
                while j < len(txt) and depth:
                    depth += {"{": 1, "}": -1}.get(txt[j], 0)
                    j += 1
                body = txt[m.end():j - 1]
                params = re.findall(r"\b(?:realtype|double|float)\s+(\w+)\s*=\s*u_data\s*->\s*(\w+)\s*;", body)
                found += 1
                bad = []
                for loc, src in params:
                    n_assign = len(re.findall(rf"(?<![\w.>])\b{re.escape(loc)}\s*(?:[-+*/]?=)(?!=)", body))
                    if n_assign != 1:
                        bad.append(f"{loc} is assigned {n_assign} times")
                if re.search(r"u_data\s*->\s*\w+\s*(?:\[[^\]]*\]\s*)?(?:[-+*/]?=)(?!=)", body):
                    bad.append("writes through u_data")
                items.append(item(f"tmpl/{b}/{fn.split('/')[-1]}/{m.group(1)}/parameters-bound-once-to-the-callers-values", not bad and (len(params) >= 1 or m.group(1) != "EvalRates"),
                                  "; ".join(bad) or f"{len(params)} parameters"))
        items.append(item(f"tmpl/{b}/rate-evaluators-found", found >= 1, f"{found}"))
    return items


def _line_tails(body, tails):
    """abstract run over a template body: `tails` is the set of possible texts emitted since the last line break before the
    current point (expressions emit an opaque mark that contains no line break - sound for the statement emitters, whose own
    text starts the statement); returns (possible tails after the body, [(tail, expr node)] for every expression reached)."""
    hits = []
    for n in body:
        if isinstance(n, nodes.Output):
            for x in n.nodes:
                if isinstance(x, nodes.TemplateData):
                    d = x.data
                    tails = {d.rsplit("\n", 1)[1]} if "\n" in d else {t + d for t in tails}
                else:
                    hits += [(t, x) for t in tails]
                    tails = {t + "\u00b7" for t in tails}
        elif isinstance(n, nodes.For):
            t1, h1 = _line_tails(n.body, set(tails))
            t2, h2 = _line_tails(n.body, set(t1))           # second and later iterations start where the previous one ended
            t3, h3 = _line_tails(n.else_, set(tails))
            hits += h1 + h2 + h3
            tails = set(tails) | t1 | t2 | t3
        elif isinstance(n, nodes.If):
            acc = set()
            for b in [n.body] + [e.body for e in n.elif_] + [n.else_]:
                tb, hb = _line_tails(b, set(tails))
                acc |= tb
                hits += hb
            tails = acc | (set(tails) if not n.else_ else set())
        elif isinstance(n, (nodes.Macro, nodes.CallBlock, nodes.FilterBlock, nodes.With, nodes.Block)):
            tails, hb = _line_tails(n.body, set(tails))
            hits += hb
        if len(tails) > 64:
            tails = set(sorted(tails)[:64])
    return tails, hits


def comment_glue_items(tier):
    """every statement emitter ({{ ... | stmwrap(...) }}) of every C/C++ template starts on code, not inside a `//` comment:
    jinja's whitespace control (`{%-`, `-%}`) is applied by the lexer, so the template AST already holds the text as it will be
    joined; the obligation is that no possible text between the last line break and a statement emitter contains `//`."""
    env = env_for("cvode")
    items, n_sites = [], 0
    for name in sorted(env.list_templates()):
        if not name.endswith((".cpp.j2", ".cu.j2", ".h.j2")):
            continue
        try:
            src = env.loader.get_source(env, name)[0]
            ast = env.parse(src)
        except Exception as e:
            items.append(item(f"tmpl/{name}/statement-emitters-outside-comments", False, f"template does not parse: {e}", status="unknown"))
            continue
        _, hits = _line_tails(ast.body, {""})
        st = [(t, x) for t, x in hits if "stmwrap" in etext(x)]
        if not st:
            continue
        n_sites += len({id(x) for _, x in st})
        bad = sorted({f"line {x.lineno}: {{{{ {etext(x)[:50]} }}}} after {t.strip()[:40]!r}" for t, x in st if "//" in t})
        items.append(item(f"tmpl/{name}/statement-emitters-outside-comments", not bad, "; ".join(bad)[:500] or f"{len({id(x) for _, x in st})} statement emitters"))
    items.append(item("tmpl/statement-emitters-found", n_sites > 0, f"{n_sites} statement emitters in the C/C++ templates"))
    return items


def stmwrap_items(tier):
    """the statement wrapper `_stmwrap` (every emitted ydot / Jacobian / rate statement goes through it) only inserts line breaks
    between blank-separated chunks: (a) its call of textwrap.wrap keeps long words whole (break_long_words=False; ASSUMED contract of
    textwrap.wrap under that option: the chunks joined by blanks have the same blank-separated word sequence as the input), the only
    other rewriting is the re-indentation of a closing brace; (b) bounded: on statements with words longer than the line the word
    sequence is preserved for every width / indent the templates use."""
    import ast, inspect, textwrap
    from naunet import utilities
    items = []
    src = textwrap.dedent(inspect.getsource(utilities._stmwrap))
    fn = ast.parse(src).body[0]
    calls = [n for n in ast.walk(fn) if isinstance(n, ast.Call) and ((isinstance(n.func, ast.Name) and n.func.id in ("wrap", "fill")) or (isinstance(n.func, ast.Attribute) and n.func.attr in ("wrap", "fill")))]
    kw = {k.arg: k.value for c in calls for k in c.keywords}
    ok = len(calls) == 1 and isinstance(kw.get("break_long_words"), ast.Constant) and kw["break_long_words"].value is False and \
        not any(k in kw for k in ("max_lines", "placeholder", "drop_whitespace", "replace_whitespace", "expand_tabs", "tabsize", "fix_sentence_endings"))
    items.append(item("stmwrap/long-words-are-kept-whole", ok, f"{[ast.unparse(c) for c in calls]}"))
    repl = [n for n in ast.walk(fn) if isinstance(n, ast.Call) and isinstance(n.func, ast.Attribute) and n.func.attr in ("replace", "sub", "translate", "strip", "lstrip", "rstrip")]
    items.append(item("stmwrap/only-rewriting-is-the-closing-brace-indent", len(repl) == 1 and "}" in ast.unparse(repl[0]), f"{[ast.unparse(r) for r in repl]}"))
    bad = []
    long_ = "k[12]*y[IDX_CH3CH2CH2CH2CH2CH2CH2OHI]*y[IDX_HCCCCCCCCCCCCCCCCCNII]*y[IDX_GCH3CH2CH2CH2CH2CH2OHI]"
    for text in [f"ydot[IDX_HI] = 0.0 - {long_} + {long_}*zeta - 2.0*k[3]*y[IDX_HI]*y[IDX_HI];", f"if (Tgas>=10.0 && Tgas<41000.0) {{ k[0] = {long_}; }}",
                 "data[3] = " + " + ".join([long_] * 3) + ";"]:
        for width, indent in [(80, 4), (80, 8), (80, 12), (80, 17), (60, 4)]:
            out = utilities._stmwrap(text, width, indent)
            if out.split() != text.split():
                bad.append(f"width {width} indent {indent}: {[w for w in out.split() if w not in text.split()][:2]}")
    items.append(item("stmwrap/word-sequence-preserved-on-long-statements", not bad, "; ".join(bad)[:300], backend="bounded-native"))
    return items


def constants_template_items(tier):
    """C11: the per-species binding-energy constant is emitted for every surface species of the network, once, as the species' own
    value written by str(float) (the shortest text that reads back as the same double) - no formatting filter in between"""
    ast, src = parse("base/cpp/src/naunet_constants.cpp.j2")
    ss = [s for s in sites(ast) if "eb_" in s.literal]
    items = [item("tmpl/constants/one-binding-energy-site", len(ss) == 1, f"{ss}")]
    if len(ss) == 1:
        s0 = ss[0]
        ex = [etext(e) for e in s0.exprs]
        lit = re.sub(r"\s+", " ", "".join(p if isinstance(p, str) else "\u00a7" for p in s0.parts))
        items.append(item("tmpl/constants/binding-energy-emitted-verbatim",
                          "s.eb" in ex and re.search(r"double eb_\u00a7 = \u00a7;", lit) is not None and ex[ex.index("s.eb") - 1] == "s.alias", f"{ex} in {lit!r}"))
        items.append(item("tmpl/constants/over-all-surface-species", s0.loop_iters() == ["network.species|selectattr('is_surface')"] and not s0.guards, f"{s0.loop_iters()} {s0.guards}"))
    return items


def numdens_items(tier):
    """C01 (temperature equation): the particle density `npar` of the rendered equation is GetNumDens(y), and the rendered
    GetNumDens returns the sum of the NSPECIES species abundances - not of all NEQUATIONS slots (the last one is the
    temperature).  The function body is taken from the rendered naunet_physics source and executed by the mini C front end
    with symbolic NSPECIES; the summation loop is cut at its contract (partial-sum invariant)."""
    from .native_ode import render, networks, strip_comments, function_body
    from pyvc import cmini
    items = []
    label, fac = next(x for x in networks("quick", 0) if x[0] == "cooling-1")
    I, Rl = z3.IntSort(), z3.RealSort()
    for backend in [("cvode", "dense", "cpu"), ("cvode", "sparse", "cpu"), ("cvode", "cusparse", "gpu"), ("odeint", "rosenbrock4", "cpu")]:
        pre = f"tmpl/{'/'.join(backend[:2])}/GetNumDens"
        t0 = time.time()
        files = render(fac(), *backend, jac_pattern=False)
        ext = "cu" if backend[2] == "gpu" else "cpp"
        fexn = f"src/naunet_fex.{ext}" if backend[0] == "cvode" else "src/naunet_ode.cpp"
        fex = strip_comments(files[fexn])
        binds = [re.sub(r"\s+", "", m.group(1)) for m in re.finditer(r"\bnpar\s*=\s*([^;]+);", fex)]
        items.append(item(f"{pre}/npar-bound-to-GetNumDens-of-the-state", bool(binds) and all(b in ("GetNumDens(y)", "GetNumDens(y_cur)") for b in binds), f"{binds}"))
        body = function_body(strip_comments(files.get(f"src/naunet_physics.{ext}", "")), r"double\s+GetNumDens\s*\(\s*double\s*\*\s*y\s*\)\s*\{")
        try:
            stmts = cmini.parse_body(cmini.strip(body))
            NS, NE, TH = z3.Int("NSPECIES"), z3.Int("NEQUATIONS"), z3.Int("THERMAL")
            y = z3.Const("y", z3.ArraySort(I, Rl))
            ex = cmini.Exec({"NSPECIES": NS, "NEQUATIONS": NE, "IDX_TGAS": NS, "THERMAL": TH}, {}, max_unroll=0)
            st = ex.run(stmts, cmini.State({}, {"y": y}))
            hyp = [NS >= 0, TH == 1, NE == z3.If(NS + TH > 0, NS + TH, 1)]   # the temperature equation exists: THERMAL is 1
            hyp = hyp + list(getattr(ex, "sum_instances", []))
            want = cmini.Exec.SUM(y, z3.IntVal(0), NS)
            claim = z3.And(st.returned, st.retval == want)
            stt, be, secs, model = smt.check_valid(hyp, claim, timeout_ms=20000)
        except cmini.CMiniError as e:
            items.append(item(f"{pre}/returns-sum-of-species-abundances", False, f"outside the fragment: {e}", "cmini", status="unknown"))
            continue
        detail = f"retval = {z3.simplify(st.retval)}"
        if stt == "refuted" and model is not None:
            detail += f"; countermodel: NSPECIES={model.eval(NS)}, THERMAL={model.eval(TH)}, y[NSPECIES]={model.eval(z3.Select(y, NS), model_completion=True)}"
        items.append(item(f"{pre}/returns-sum-of-species-abundances", stt == "proved", detail, f"cmini+{be}", status=stt, seconds=time.time() - t0))
    return items


def _zero_init_in_same_block(txt, call_pos, sym, macro):
    """the nearest enclosing block of the call contains, before the call and at the same brace depth,
    `<type> sym[MACRO] = {0.0};`"""
    depth = 0
    i = call_pos
    # walk backwards to the start of the enclosing block
    j = i - 1
    d = 0
    while j >= 0:
        c = txt[j]
        if c == "}":
            d += 1
        elif c == "{":
            if d == 0:
                break
            d -= 1
        j -= 1
    block_prefix = txt[j + 1:i]
    # remove nested blocks from the prefix (declarations inside them are out of scope)
    flat, d = [], 0
    k = 0
    while k < len(block_prefix):
        c = block_prefix[k]
        if c == "{" and not re.search(r"=\s*$", block_prefix[:k]):
            d += 1
        elif c == "}" and d > 0:
            d -= 1
        elif d == 0:
            flat.append(c)
        k += 1
    flat = "".join(flat)
    m = re.search(rf"\b(realtype|double)\s+{sym}\[{macro}\]\s*=\s*(\{{\s*0\.0\s*\}}|)\s*;", flat)
    m2 = re.search(rf"\b(realtype|double)\s+{sym}\[{macro}\]\s*=\s*$", flat.split(";")[-2] if ";" in flat else "") if not m else None
    # `= {0.0}` braces were dropped by the block flattening when they look like a nested block: check the raw text
    raw = re.search(rf"\b(realtype|double)\s+{sym}\[{macro}\]\s*=\s*\{{\s*0\.0\s*\}}\s*;", block_prefix)
    if raw is None:
        return False, f"no zero-initialised declaration of {sym} in the block that calls the rate evaluation"
    # automatic storage: the initialiser must run at every entry of the block (a static / thread_local / extern array keeps the
    # coefficients of an earlier call for reactions whose window guard is false now)
    stmt_start = max(block_prefix.rfind(";", 0, raw.start()), block_prefix.rfind("{", 0, raw.start()), block_prefix.rfind("}", 0, raw.start())) + 1
    quals = block_prefix[stmt_start:raw.start()]
    if re.search(r"\b(static|thread_local|extern|__shared__|__device__|__constant__)\b", quals):
        return False, f"declaration of {sym} has storage class `{quals.strip()}`: it is not re-initialised at every call"
    # the declaration must not be inside a nested block of this block
    before = block_prefix[:raw.start()]
    if before.count("{") - before.count("}") != sum(1 for _ in re.finditer(r"=\s*\{", before)) - sum(1 for _ in re.finditer(r"\{\s*0\.0\s*\}", before)) + 0 and \
            (before.count("{") - len(re.findall(r"\{\s*0\.0\s*\}", before))) != (before.count("}") - len(re.findall(r"\{\s*0\.0\s*\}", before))):
        return False, f"declaration of {sym} is in a nested block"
    return True, ""


def driver_alloc_items(tier):
    """C03 / C02 / C19: every place of the rendered cvode driver that allocates the state vector, the Jacobian or the saved
    states uses the system size NEQUATIONS (not NSPECIES: with thermal processes there is one more equation), the sparse
    Jacobian is created in the CSR format that Jac() fills, with NNZ entries - in Init() AND in Reset()."""
    from .native_ode import render, networks
    from pyvc import cmini
    items = []
    label, fac = next(x for x in networks("quick", 0) if x[0] == "cooling-1")
    for backend in [("cvode", "dense", "cpu"), ("cvode", "sparse", "cpu"), ("cvode", "cusparse", "gpu")]:
        pre = f"driver/{'/'.join(backend[:2])}"
        files = render(fac(), *backend, jac_pattern=False)
        ext = "cu" if backend[2] == "gpu" else "cpp"
        text = cmini.strip(files.get(f"src/naunet.{ext}", files.get("src/naunet.cpp", "")))
        hdr = cmini.strip(files["include/naunet.h"])
        sites = []
        for m in re.finditer(r"\bcv_a_(?:\[i\])?\s*=\s*(\w+)\(([^;]*?)\);", text, flags=re.S):
            sites.append((m.group(1), [a.strip() for a in m.group(2).split(",")]))
        items.append(item(f"{pre}/jacobian-allocated-in-Init-and-Reset", len(sites) >= 2, f"{len(sites)} allocation sites"))
        for k, (fn, args) in enumerate(sites):
            if fn == "SUNDenseMatrix":
                ok = args[:2] == ["NEQUATIONS", "NEQUATIONS"] and backend[1] == "dense"
            elif fn == "SUNSparseMatrix":
                ok = args[:4] == ["NEQUATIONS", "NEQUATIONS", "NNZ", "CSR_MAT"] and backend[1] == "sparse"
            elif fn == "SUNMatrix_cuSparse_NewBlockCSR":
                ok = args[1:4] == ["NEQUATIONS", "NEQUATIONS", "NNZ"] and backend[1] == "cusparse"
            else:
                ok = False
            items.append(item(f"{pre}/jacobian-allocation#{k}-has-system-size-and-CSR-layout", ok, f"{fn}({', '.join(args[:5])})"))
        vec = re.findall(r"\bcv_y_(?:\[i\])?\s*=\s*(\w+)\(\s*(?:\(sunindextype\))?\s*([^,]*),", text)
        items.append(item(f"{pre}/state-vector-has-system-size", bool(vec) and all(a.strip().startswith("NEQUATIONS") for _, a in vec), f"{vec}"))
        if backend[1] != "cusparse":
            for arr, size in (("ab_init_", "NEQUATIONS"), ("ab_tmp_", "NEQUATIONS")):
                m = re.search(rf"\b{arr}\[(\w+)\]\s*;", hdr)
                items.append(item(f"{pre}/saved-state-{arr}-has-system-size", m is not None and m.group(1) == size, m.group(0) if m else "not declared"))
        m = re.search(r"\bab_ref_\[(\w+)\]\s*;", hdr)
        items.append(item(f"{pre}/reference-ratios-have-one-entry-per-element", m is not None and m.group(1) == "NELEMENTS", m.group(0) if m else "not declared"))
    return items
