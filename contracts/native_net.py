"""Bounded native checks (never counted as proved) for decoding (C07), KROME windows (C06), write/read round
trip (C18), network edit histories (C14) and duplicate detection (C15).  Lines are *encoded* from abstract
reactions by encoders written from the format descriptions, decoded by the real code through
Network(filelist=..., fileformats=...), and compared field by field."""
from __future__ import annotations
import os, re, random, tempfile, shutil, logging, itertools, io, contextlib
from collections import Counter

logging.disable(logging.CRITICAL)


def fresh():
    from naunet.species import Species
    from naunet import chemistrydata
    Species.reset()
    chemistrydata.user_binding_energy.clear()
    chemistrydata.user_photon_yield.clear()


class AR:
    """abstract reaction"""

    def __init__(self, reactants, products, a, b, c, tmin, tmax, idx, code, markers=()):
        self.reactants, self.products = list(reactants), list(products)
        self.a, self.b, self.c, self.tmin, self.tmax, self.idx, self.code = a, b, c, tmin, tmax, idx, code
        self.markers = list(markers)   # pseudo-reactant tokens placed among the reactants (CR, PHOTON ...)

    def __repr__(self):
        return f"{'+'.join(self.reactants + self.markers)}->{'+'.join(self.products)} a={self.a} b={self.b} c={self.c} T=[{self.tmin},{self.tmax}) idx={self.idx} code={self.code}"


def fe(x, w, p):
    return f"{x:{w}.{p}e}"


# ---------------------------------------------------------------- encoders
def enc_kida(r: AR):
    rs = (r.reactants + r.markers + [""] * 3)[:3]
    ps = (r.products + [""] * 5)[:5]
    left = "".join(f"{x:<11}" for x in rs) + " " + "".join(f"{x:<11}" for x in ps) + " "
    return left + f"{r.a:10.3e} {r.b:10.3e} {r.c:10.3e} 2.00e+00 0.00e+00 logn  4 {int(r.tmin):6d} {int(r.tmax):6d}  {r.code} {r.idx:5d} 1  1"


def enc_umist(r: AR):
    rs = (r.reactants + r.markers + [""] * 2)[:2]
    ps = (r.products + [""] * 4)[:4]
    return ":".join([str(r.idx), r.code] + rs + ps + ["1", f"{r.a:.2e}", f"{r.b:.2f}", f"{r.c:.1f}", f"{r.tmin:g}", f"{r.tmax:g}", "L", "C", '"ref"', '"notes"', ""])


def enc_leeds(r: AR):
    rs = (r.reactants + r.markers + [""] * 3)[:3]
    ps = (r.products + [""] * 5)[:5]
    return f"{r.idx:<5d}" + "".join(f"{x:<10}" for x in rs) + "".join(f"{x:<10}" for x in ps) + \
        (f"{r.a:8.2E}" if r.a >= 0 else f"{r.a:8.1E}").rjust(8) + f"{r.b:9.2f}"[:9].rjust(9) + f"{r.c:10.1f}"[:10].rjust(10) + f"{int(r.tmin):5d}" + f"{int(r.tmax):5d}" + f"{r.code:3d}"


def enc_uclchem(r: AR):
    rs = list(r.reactants)
    mk = r.markers[0] if r.markers else "NAN"
    three = [rs[0], mk if len(rs) < 2 else rs[1], "NAN" if len(rs) < 3 else rs[2]]
    if len(rs) >= 2 and r.markers:
        three = [rs[0], r.markers[0], rs[1]]
    ps = (r.products + ["NAN"] * 4)[:4]
    return ",".join(three + ps + [f"{r.a:.2e}", f"{r.b:.2f}", f"{r.c:.1f}", f"{r.tmin:g}", f"{r.tmax:g}"])


def enc_krome(r: AR, tmin_txt=None, tmax_txt=None, rate="1.0d-10*(Tgas/3d2)**(0.5)"):
    rs = (r.reactants + [""] * 3)[:3]
    ps = (r.products + [""] * 4)[:4]
    return ",".join([str(r.idx)] + rs + ps + [tmin_txt if tmin_txt is not None else f"{r.tmin:g}",
                                              tmax_txt if tmax_txt is not None else f"{r.tmax:g}", rate])


def enc_naunet(r: AR):
    rs = (r.reactants + [""] * 3)[:3]
    ps = (r.products + [""] * 5)[:5]
    return ",".join([f"{r.idx:<5}"] + [f"{x:>12}" for x in rs] + [f"{x:>12}" for x in ps] +
                    [f"{r.a:10.3e}", f"{r.b:10.3e}", f"{r.c:10.3e}", f"{r.tmin:9.2f}", f"{r.tmax:9.2f}", f"{r.code:>4}", f"{'vf':>8}"])


ENC = {"kida": enc_kida, "umist": enc_umist, "leeds": enc_leeds, "uclchem": enc_uclchem, "krome": enc_krome, "naunet": enc_naunet}


def load(lines, fmt, tail="", **kw):
    from naunet.network import Network
    d = tempfile.mkdtemp(prefix="vf_net_")
    try:
        p = os.path.join(d, f"net.{fmt}")
        with open(p, "w") as f:
            f.write("".join(l if l.endswith("\n") else l + "\n" for l in lines) + tail)
        return Network(filelist=p, fileformats=fmt, **kw)
    finally:
        shutil.rmtree(d, ignore_errors=True)


def names(sps):
    return sorted(s.name for s in sps)


def expected_type(fmt, code):
    from naunet.reactiontype import ReactionType as RT
    from . import laws_gas as L
    if fmt == "kida":
        return int(RT[L.KIDA_TYPES[code]])
    if fmt == "umist":
        return int(RT[L.UMIST_TYPES[code]])
    if fmt == "leeds":
        return int(RT[L.LEEDS_TYPES[code]])
    if fmt == "naunet":
        return int(code)
    return None


def approx(x, y, rel):
    return abs(x - y) <= rel * max(abs(x), abs(y), 1e-300)


def gen_reactions(fmt, rnd, n):
    """abstract reactions exercising column limits, multiplicities and codes of one format"""
    width = {"kida": 10, "umist": 14, "leeds": 9, "uclchem": 12, "krome": 12, "naunet": 12}[fmt]
    pool = ["H", "H2", "C", "CH", "O", "CO", "H+", "C+", "e-", "HCO+", "CH3OH", "N2H+", "He", "Si", "SiO", "H3+", "C2H5OH2+", "CH3CCH"]
    if fmt == "leeds":
        pool += ["GH", "GCO", "GH2O"]
    if fmt == "uclchem":
        pool = [p for p in pool if p != "e-"] + ["E-", "#CO", "#H2O"]
    long = [p for p in ["C2H5OH2+", "CH3OCH3", "HC3NH+", "C10H2+"[:width], "CH3C5NH+"[:width]] if len(p) <= width]
    out = []
    maxr = {"umist": 2, "uclchem": 3}.get(fmt, 3)
    maxp = {"umist": 4, "uclchem": 4, "krome": 4}.get(fmt, 5)
    codes = {"kida": [1, 2, 3, 4, 5], "umist": list(__import__("contracts.laws_gas", fromlist=["x"]).UMIST_TYPES),
             "leeds": [1, 2, 3, 4, 5, 11, 12], "uclchem": ["MA", "CRP", "PHOTON", "CRPHOT", "FREEZE", "DESOH2", "DESCR", "DEUVCR", "THERM"], "krome": [0],
             "naunet": [100, 101, 102, 110, 111, 120]}[fmt]
    for k in range(n):
        code = codes[k % len(codes)]
        nr_ = rnd.choice([1, 2, 2, 3]) if maxr >= 3 else rnd.choice([1, 2, 2])
        markers = []
        if fmt == "kida" and code == 1:
            markers, nr_ = ["CR"], 1
        if fmt == "kida" and code == 2:
            markers, nr_ = ["Photon"], 1
        if fmt == "umist" and code in ("CP", "CR", "PH"):
            markers, nr_ = [{"CP": "CRP", "CR": "CRPHOT", "PH": "PHOTON"}[code]], 1
        if fmt == "leeds" and code in (2, 3, 4):
            markers, nr_ = [{2: "CRP", 3: "CRPHOT", 4: "PHOTON"}[code]], 1
        if fmt == "uclchem" and code != "MA":
            markers, nr_ = [code], rnd.choice([1, 2]) if False else 1
        nr_ = min(nr_, maxr - len(markers))
        np__ = rnd.randint(0 if (fmt in ("naunet",) or k % 6 == 5) else 1, maxp)      # 0 - 5 products in every format
        src = pool + (long if k % 3 == 0 else [])
        rs = [rnd.choice(src) for _ in range(nr_)]
        ps = [rnd.choice(src) for _ in range(np__)]
        if k % 5 == 0 and rs:
            rs[-1] = rs[0]              # repeated reactant
        if fmt == "uclchem" and code in ("FREEZE", "DESOH2", "DESCR", "DEUVCR", "THERM"):
            gas = rnd.choice(["CO", "H2O", "CH3OH", "HCO+"] if code == "FREEZE" else ["CO", "H2O", "CH3OH"])
            rs, ps = ([gas], ["#" + gas.rstrip("+")]) if code == "FREEZE" else (["#" + gas], [gas])
        a = rnd.choice([1.0e-10, -2.5e-9, 3.33e-17, 9.99e+3, 1.0])
        b = rnd.choice([0.0, -0.5, 0.5, 2.0, -1.5])
        c = rnd.choice([0.0, 30450.0, -12.5, 1.0e4, 7.5])
        tmin, tmax = rnd.choice([(10, 300), (10, 41000), (300, 5000), (5, 100), (0, 0)])
        if fmt in ("naunet",):
            tmin, tmax = float(tmin), float(tmax)
            if k % 4 == 1:
                # one-sided and absent windows as the exchange format writes them (-1 = no bound)
                tmin, tmax = [(10.0, -1.0), (-1.0, 300.0), (-1.0, -1.0), (5500.0, -1.0)][(k // 4) % 4]
        out.append(AR(rs, ps, a, b, c, tmin, tmax, rnd.randint(1, 9999), code, markers))
    return out


def printed(fmt, r: AR):
    """the values as printed by the encoder (what a faithful decoder must return)"""
    if fmt == "kida":
        return float(f"{r.a:10.3e}"), float(f"{r.b:10.3e}"), float(f"{r.c:10.3e}")
    if fmt in ("umist", "uclchem"):
        return float(f"{r.a:.2e}"), float(f"{r.b:.2f}"), float(f"{r.c:.1f}")
    if fmt == "leeds":
        return float(f"{r.a:8.2E}" if r.a >= 0 else f"{r.a:8.1E}"), float(f"{r.b:9.2f}"), float(f"{r.c:10.1f}")
    if fmt == "naunet":
        return float(f"{r.a:10.3e}"), float(f"{r.b:10.3e}"), float(f"{r.c:10.3e}")
    return r.a, r.b, r.c


MARKERS = {"CR", "CRP", "PHOTON", "CRPHOT", "Photon", "XRAY", "FREEZE", "DESOH2", "DESCR", "DEUVCR", "THERM", "DIFF", "CHEMDES", "NAN"}


def check_decode(tier, seed):
    viol, cases, samples = [], 0, []

    def V(fmt, what, line=""):
        viol.append({"property": "C07", "format": fmt, "what": what, "line": line,
                     "signature": f"C07:{fmt}:{what.split(':')[0]}"})
    rnd = random.Random(7 + seed)
    n = 30 if tier == "quick" else 300
    for fmt in ["kida", "umist", "leeds", "uclchem", "naunet", "krome"]:
        fresh()
        ars = gen_reactions(fmt, rnd, n)
        lines = []
        for k, r in enumerate(ars):
            try:
                line = ENC[fmt](r)
            except Exception as e:
                continue
            lines.append((r, line))
        # interleave blank / comment / directive lines (no reaction may come from them)
        text = []
        blanks = ["", "   ", "\t", "  \t ", " " * 40, "\r"]
        kspell = [("NONE", 0.0), ("10", 10.0), ("1.d1", 10.0), (".LE.1d2", 100.0), (">1.5d2", 150.0), (".GE..5d3", 500.0), ("<3d3", 3000.0), (".LT.4.1d4", 41000.0),
                  (".GT.2.5e1", 25.0), (".25d2", 25.0), ("1e4", 10000.0), (".5d3", 500.0), (">.5d3", 500.0), (".LE..55d4", 5500.0), ("1000.", 1000.0), (".GE.5.5e3", 5500.0)]
        kwin = {}
        if fmt == "krome":
            relined = []
            for k, (r, line) in enumerate(lines):
                (tl, vl), (tu, vu) = kspell[k % len(kspell)], kspell[(k * 5 + 3) % len(kspell)]
                relined.append((r, enc_krome(r, tl, tu)))
                kwin[k] = (vl, vu)
            lines = relined
        for k, (r, line) in enumerate(lines):
            if k % 7 == 3:
                text.append(blanks[(k // 7) % len(blanks)])        # blank lines of every kind: empty, spaces, tabs, a stray carriage return
            if fmt == "krome" and k % 9 == 4:
                text.append("# a comment")
                text.append("@common: user_av")
            text.append(line)
        if fmt == "krome":
            text.insert(0, "@format:idx,R,R,R,P,P,P,P,Tmin,Tmax,rate")
        try:
            net = load(text, fmt, tail="\n   \n\t\n    ")        # the file ends in a run of blank lines, the last one without line break
        except Exception as e:
            V(fmt, f"load-raises: {type(e).__name__}: {e}", "")
            continue
        got = net.reaction_list
        cases += len(lines)
        if len(got) != len(lines):
            V(fmt, f"reaction-count: {len(got)} reactions from {len(lines)} data lines (blank/comment/directive lines interleaved)")
            continue
        for pos_, ((r, line), g) in enumerate(zip(lines, got)):
            if len(samples) < 6:
                samples.append({"format": fmt, "line": line})
            if fmt == "krome":
                gl, gu = (0.0 if g.temp_min <= 0 else float(g.temp_min)), (0.0 if g.temp_max <= 0 else float(g.temp_max))
                if (gl, gu) != kwin[pos_]:
                    V(fmt, f"window: decoded {(g.temp_min, g.temp_max)} expected {kwin[pos_]} (0 = no bound)", line)
            if names(g.reactants) != sorted(_norm(x) for x in r.reactants) or names(g.products) != sorted(_norm(x) for x in r.products):
                V(fmt, f"species: decoded {names(g.reactants)} -> {names(g.products)} expected {sorted(r.reactants)} -> {sorted(r.products)}", line)
                continue
            if any(s.name in MARKERS for s in g.reactants + g.products):
                V(fmt, "marker-became-species", line)
            if fmt != "krome":
                a, b, c = printed(fmt, r)
                if not (approx(g.alpha, a, 1e-12) and approx(g.beta, b, 1e-12) and approx(g.gamma, c, 1e-12)):
                    V(fmt, f"coefficients: decoded {(g.alpha, g.beta, g.gamma)} expected {(a, b, c)}", line)
                if fmt != "uclchem" and (float(g.temp_min) != float(r.tmin) or float(g.temp_max) != float(r.tmax)):
                    V(fmt, f"window: decoded {(g.temp_min, g.temp_max)} expected {(r.tmin, r.tmax)}", line)
            if fmt not in ("uclchem",) and g.idxfromfile != r.idx:
                V(fmt, f"index: decoded {g.idxfromfile} expected {r.idx}", line)
            et = expected_type(fmt, r.code)
            if et is not None and int(g.reaction_type) != et:
                V(fmt, f"type: code {r.code} decoded {int(g.reaction_type)} expected {et}", line)
            if fmt == "uclchem":
                from naunet.reactiontype import ReactionType as RT
                from . import laws_gas as L
                want = int(RT[L.UCLCHEM_TYPES[r.code]]) if r.code != "MA" else int(RT.GAS_TWOBODY)
                if int(g.reaction_type) != want:
                    V(fmt, f"type: keyword {r.code} decoded {int(g.reaction_type)} expected {want}", line)
    # marker filtering must not depend on other networks built in between (per-network pseudo-element lists)
    fresh()
    from naunet.network import Network
    d = tempfile.mkdtemp(prefix="vf_inter_")
    try:
        u1, u2, k1 = os.path.join(d, "a.umist"), os.path.join(d, "b.umist"), os.path.join(d, "c.kida")
        open(u1, "w").write('1:NN:C:CH:C2:H:::1:6.59e-11:0.00:0.0:10:300:L:C:"r"::\n')
        open(u2, "w").write('2:CP:H:CRP:H+:e-:::1:5.98e-18:0.00:0.0:10:41000:L:C:"r"::\n3:PH:CH:PHOTON:C:H:::1:9.2e-10:0.00:1.7:10:41000:L:C:"r"::\n')
        open(k1, "w").write("H          CR                     H+         e-                                            4.600e-01  0.000e+00  0.000e+00 2.00e+00 0.00e+00 logn  1     10    300  1  1 1  1\n")
        try:
            A = Network(filelist=u1, fileformats="umist", elements=["H", "C", "e"], pseudo_elements=["CRP", "PHOTON", "CRPHOT"])
            B = Network(filelist=k1, fileformats="kida", elements=["H", "e"], pseudo_elements=["CR", "Photon"])
            A.add_reaction_from_file(u2, "umist")
            cases += 1
            # a user marker table with a mixed-case marker and no upper-case twin of it (as the bundled primordial example has)
            k2 = os.path.join(d, "d.kida")
            open(k2, "w").write("CH         Photon                 C          H                                             9.200e-10  0.000e+00  1.720e+00 2.00e+00 0.00e+00 logn  2     10    300  2  2 1  1\n"
                                "H          CR                     H+         e-                                            4.600e-01  0.000e+00  0.000e+00 2.00e+00 0.00e+00 logn  1     10    300  1  1 1  1\n")
            for pe in (["CR", "CRP", "Photon"], ["Photon", "CR"]):
                fresh()
                C_ = Network(filelist=k2, fileformats="kida", elements=["H", "C", "e"], pseudo_elements=list(pe))
                cases += 1
                got_ = [names(r.reactants) for r in C_.reaction_list]
                if got_ != [["CH"], ["H"]]:
                    V("kida", f"marker-became-species: with the marker table {pe} the reactants are {got_}, the lines name CH and H besides the markers")
            bad = [s.name for r in A.reaction_list for s in r.reactants + r.products if s.name in MARKERS or "CRP" in s.name or "PHOTON" in s.name]
            if bad or [len(r.reactants) for r in A.reaction_list] != [2, 1, 1]:
                V("umist", f"marker-became-species-after-other-network: reactants {[names(r.reactants) for r in A.reaction_list]}")
        except Exception as e:
            V("umist", f"marker-filter-history: {type(e).__name__}: {e}")
    finally:
        shutil.rmtree(d, ignore_errors=True)
    fresh()
    return cases, viol, samples


def _norm(name):
    return name


# ---------------------------------------------------------------- C06: KROME window syntax
def check_krome_windows(tier, seed):
    viol, cases = [], 0
    spell = [("NONE", None), ("N", None), ("", None), ("10", 10.0), ("1.d1", 10.0), (".LE.1d2", 100.0), (">1.5d2", 150.0),
             (".GE..5d3", 500.0), ("<3d3", 3000.0), (".LT.4.1d4", 41000.0), (".GT.2.5e1", 25.0), (".25d2", 25.0), ("1e4", 10000.0)]
    lines, exp = ["@format:idx,R,R,P,P,Tmin,Tmax,rate"], []
    k = 0
    for (tl, vl) in spell:
        for (tu, vu) in spell:
            k += 1
            lines.append(f"{k},H,H,H2,,{tl},{tu},1.0d-10")
            exp.append((vl, vu))
    fresh()
    try:
        net = load(lines, "krome")
    except Exception as e:
        return 1, [{"property": "C06", "what": f"krome-load-raises: {e}", "signature": "C06:krome-load-raises"}]
    for (vl, vu), g, ln in zip(exp, net.reaction_list, lines[1:]):
        cases += 1
        gl = None if g.temp_min <= 0 else float(g.temp_min)
        gu = None if g.temp_max <= 0 else float(g.temp_max)
        if gl != vl or gu != vu:
            viol.append({"property": "C06", "what": f"krome-window: line {ln!r} decoded ({g.temp_min}, {g.temp_max}) expected ({vl}, {vu})",
                         "signature": "C06:krome-window", "line": ln})
    # rendered guards evaluated at the boundaries
    from .native_ode import render, function_body, statements
    from . import ceval
    from fractions import Fraction
    files = render(net, "cvode", "dense", "cpu", jac_pattern=False)
    body = function_body(files["src/naunet_rates.cpp"], r"int\s+EvalRates\s*\([^)]*\)\s*\{")
    import re
    blocks = re.findall(r"(?:if \(([^)]*)\) \{\s*)?k\[(\d+)\] = [^;]*;", body)
    guards = {int(i): g for g, i in blocks}
    for i, (vl, vu) in enumerate(exp):
        for T in [x for x in (vl, vu) if x] + ([(vl or 1) * 0.5, (vu or 1e5) * 2] if tier == "thorough" else []):
            for dT in (-1, 0, 1):
                t = Fraction(T) + Fraction(dT, 1000)
                want = (vl is None or t >= Fraction(vl)) and (vu is None or t < Fraction(vu))
                g = guards.get(i, "")
                try:
                    got = True if not g else bool(ceval.value(ceval.parse_expr(g), ceval.Env(idents={"Tgas": t})))
                except Exception as e:
                    viol.append({"property": "C06", "what": f"guard-invalid: k[{i}] guard {g!r}: {e}", "signature": "C06:guard-invalid"})
                    break
                cases += 1
                if got != want:
                    viol.append({"property": "C06", "what": f"guard-boundary: k[{i}] guard {g!r} at T={float(t)} is {got}, window ({vl},{vu}) says {want}",
                                 "signature": "C06:guard-boundary"})
    fresh()
    return cases, viol


def check_api_windows(tier, seed):
    """windows declared through the API with bounds of many significant digits and of extreme magnitude: the rendered guard is true
    exactly on Tmin <= T < Tmax, probed at the bound and at its two neighbouring doubles; the same after the network went through
    the exchange file (bounds with at most two decimals: that is what the file format keeps)"""
    import math, tempfile, os, re
    from fractions import Fraction
    from naunet.network import Network
    from naunet.reactions.reaction import Reaction
    from naunet.reactiontype import ReactionType
    from .native_ode import render, function_body
    from . import ceval
    viol, cases = [], 0
    fine = [(-1.0, 11604.518), (11604.518, 2321750.5), (2321.7505, -1.0), (300.0, 1234567.0), (1234567.0, 1.0e99), (0.000123456789, 10.0), (10.0, 300.0), (-1.0, -1.0),
            (123456.789, 123456.79), (9999.9995, 99999.995), (0.5, 2.5), (2.0, 2.73), (-1.0, 1.5)]
    coarse = [(10.0, 41000.0), (41000.0, 2.5e9), (2.5e9, -1.0), (-1.0e99, 1.0e99), (1234567.25, 7654321.75), (999999.99, 1000000.01), (-1.0, 1.0e8), (1.0e8, 1.0e10), (0.0, 0.0)]

    def build(ws):
        fresh()
        return Network([Reaction(["H", "H"], ["H2"], lo, hi, 1.0e-10 * (k + 1), 0.0, 0.0, ReactionType.GAS_TWOBODY, k + 1) for k, (lo, hi) in enumerate(ws)])

    def probe(net, ws, label):
        nonlocal cases
        files = render(net, "cvode", "dense", "cpu", jac_pattern=False)
        body = function_body(files["src/naunet_rates.cpp"], r"int\s+EvalRates\s*\([^)]*\)\s*\{")
        guards = {int(i): g for g, i in re.findall(r"(?:if \(([^)]*)\) \{\s*)?k\[(\d+)\] = [^;]*;", body)}
        if sorted(guards) != list(range(len(ws))):
            viol.append({"property": "C06", "what": f"{label}: statements for k{sorted(guards)[:6]}..., {len(ws)} reactions declared", "signature": f"C06:{label}:statements"})
            return
        # what the guards see as Tgas: the caller's value, through every statement of the evaluator that assigns it again
        from .native_ode import strip_comments
        reassign = [m.group(1) for m in re.finditer(r"(?<![\w.>])(?<!realtype )(?<!double )\bTgas\s*=(?!=)\s*([^;]*);", strip_comments(body))]
        for i, (lo, hi) in enumerate(ws):
            vl, vu = (lo if lo > 0 else None), (hi if hi > 0 else None)
            for b in [x for x in (vl, vu) if x is not None] or [100.0]:
                for t in (math.nextafter(b, 0.0), b, math.nextafter(b, math.inf), b * 0.5, b * 2.0):
                    if not math.isfinite(t):
                        continue
                    tq = Fraction(t)
                    want = (vl is None or tq >= Fraction(vl)) and (vu is None or tq < Fraction(vu))
                    g = guards[i]
                    try:
                        # decimal literals denote the nearest double (C semantics), the comparison is between doubles
                        lits = {}
                        gq = re.sub(r"(?<![\w.])(\d+\.?\d*(?:[eE][-+]?\d+)?|\.\d+(?:[eE][-+]?\d+)?)(?![\w.])",
                                    lambda m: lits.setdefault(f"lit{len(lits)}", Fraction(float(m.group(1)))) and f"lit{len(lits) - 1}", g)
                        teff = tq
                        for rhs in reassign:
                            teff = Fraction(ceval.value(ceval.parse_expr(rhs), ceval.Env(idents={"Tgas": teff}, funcs={"fmax": max, "fmin": min, "max": max, "min": min})))
                        got = True if not g else bool(ceval.value(ceval.parse_expr(gq), ceval.Env(idents={"Tgas": teff, **lits})))
                    except Exception as e:
                        viol.append({"property": "C06", "what": f"{label}: guard-invalid: k[{i}] guard {g!r}: {e}", "signature": f"C06:{label}:guard-invalid"})
                        break
                    cases += 1
                    if got != want:
                        viol.append({"property": "C06", "what": f"{label}: k[{i}] declared window ({lo}, {hi}) but guard {g!r} at T={t!r} is {got}",
                                     "signature": f"C06:{label}:guard-boundary", "window": [lo, hi], "T": repr(t)})
    try:
        probe(build(fine + coarse), fine + coarse, "api-window")
        net = build(coarse)
        d = tempfile.mkdtemp(prefix="vf_c06_")
        try:
            fn = os.path.join(d, "reactions.naunet")
            net.write(fn, "naunet")
            fresh()
            back = Network(filelist=fn, fileformats="naunet")
            if len(back.reaction_list) != len(coarse):
                viol.append({"property": "C06", "what": f"exchange-file: {len(back.reaction_list)} reactions read back, {len(coarse)} written", "signature": "C06:exchange-file:count"})
            else:
                probe(back, coarse, "exchange-file-window")
        finally:
            import shutil
            shutil.rmtree(d, ignore_errors=True)
    except Exception as e:
        viol.append({"property": "C06", "what": f"api-window-raises: {type(e).__name__}: {e}", "signature": "C06:api-window-raises"})
    fresh()
    return cases, viol


# ---------------------------------------------------------------- C18: write / read round trip
def check_roundtrip(tier, seed):
    from naunet.network import Network
    viol, cases = [], 0

    def V(what):
        parts = what.split(":")
        sig = parts[0] + (":" + parts[1].strip().replace(" ", "-") if parts[0].endswith("read-raises") and len(parts) > 2 else "")
        if parts[0].endswith("read-raises") and len(parts) > 2:
            sig += ":" + parts[2].strip().split()[0]
        if parts[0].endswith("rate-law") or parts[0].endswith("type-code"):
            m_ = re.search(r"source format (\w+) type (\d+)|(\w+) code (\S+) is", what)
            if m_:
                sig += ":" + ":".join(x for x in m_.groups() if x)
        viol.append({"property": "C18", "what": what, "signature": f"C18:{sig}"})
    rnd = random.Random(18 + seed)
    for fmt in ["kida", "umist", "leeds", "naunet"]:
        fresh()
        ars = gen_reactions(fmt, rnd, 12 if tier == "quick" else 80)
        try:
            net = load([ENC[fmt](r) for r in ars], fmt)
        except Exception as e:
            V(f"load-raises: {fmt}: {e}")
            continue
        d = tempfile.mkdtemp(prefix="vf_rt_")
        try:
            cur = net
            for cycle in (1, 2):
                p = os.path.join(d, f"c{cycle}.naunet")
                cur.write(p, "naunet")
                fresh()
                try:
                    back = Network(filelist=p, fileformats="naunet")
                except Exception as e:
                    V(f"cycle{cycle}-read-raises: source format {fmt}: {type(e).__name__}: {e}")
                    break
                cases += len(cur.reaction_list)
                if len(back.reaction_list) != len(cur.reaction_list):
                    V(f"cycle{cycle}-count: {len(back.reaction_list)} != {len(cur.reaction_list)} (source format {fmt})")
                    break
                if cycle == 1 and len(ars) == len(back.reaction_list):
                    # the type code written for a reaction is the one the source format's keyword / formula number stands for
                    for ar, y in zip(ars, back.reaction_list):
                        et = expected_type(fmt, ar.code)
                        if et is not None and int(y.reaction_type) != et:
                            V(f"cycle1-type-code: {fmt} code {ar.code} is exchanged as type {int(y.reaction_type)}, its type is {et}")
                        # the window that comes back is the one the source line declares (not merely the one the first reader produced)
                        if abs(float(y.temp_min) - float(ar.tmin)) > 0.005 or abs(float(y.temp_max) - float(ar.tmax)) > 0.005:
                            V(f"cycle1-window-vs-source: {fmt} line declares ({ar.tmin}, {ar.tmax}), read back ({y.temp_min}, {y.temp_max})")
                from .native_rates import eval_c, CONDITIONS
                for x, y in zip(cur.reaction_list, back.reaction_list):
                    # the rate law survives: the re-read reaction evaluates to the same coefficient (printed precision of alpha..gamma)
                    try:
                        tx, ty = x.rateexpr(), y.rateexpr()
                        vx, vy = eval_c(tx, CONDITIONS[0]), eval_c(ty, CONDITIONS[0])
                        if abs(vx - vy) > 2e-3 * max(abs(vx), abs(vy)):
                            V(f"cycle{cycle}-rate-law: source format {fmt} type {int(x.reaction_type)}: {tx!r} = {vx:.6g} before, {ty!r} = {vy:.6g} after the write/read cycle")
                    except Exception:
                        pass
                    if names(x.reactants) != names(y.reactants) or names(x.products) != names(y.products):
                        V(f"cycle{cycle}-species: {x:minimal} read back as {y:minimal}")
                    if int(x.reaction_type) != int(y.reaction_type) or x.idxfromfile != y.idxfromfile:
                        V(f"cycle{cycle}-type-or-index: {int(x.reaction_type)}/{x.idxfromfile} -> {int(y.reaction_type)}/{y.idxfromfile}")
                    if abs(x.temp_min - y.temp_min) > 0.005 or abs(x.temp_max - y.temp_max) > 0.005:
                        V(f"cycle{cycle}-window: {(x.temp_min, x.temp_max)} -> {(y.temp_min, y.temp_max)}")
                    for u, w in ((x.alpha, y.alpha), (x.beta, y.beta), (x.gamma, y.gamma)):
                        if float(f"{u:10.3e}") != w:
                            V(f"cycle{cycle}-coefficient: {u} -> {w}")
                    if x.source.strip() != y.source.strip():
                        V(f"cycle{cycle}-source-tag: {x.source!r} -> {y.source!r}")
                if [s.name for s in cur.species] != [s.name for s in back.species]:
                    V(f"cycle{cycle}-species-list: differs after read back")
                cur = back
        finally:
            shutil.rmtree(d, ignore_errors=True)
    # a rate law the exchange format cannot carry (KROME expressions are exchanged as type UNKNOWN with zero coefficients): after the
    # cycle the reaction either refuses to give a rate or gives the same one - never silently another
    fresh()
    d = tempfile.mkdtemp(prefix="vf_rtkrome_")
    try:
        from .native_rates import eval_c, CONDITIONS
        kl = ["@format:idx,R,R,P,Tmin,Tmax,rate", "1,C,H,CH,10,1d4,1.0d-10*(Tgas/3d2)**(0.5)", "2,CH,H,C,NONE,NONE,2.5d-9", "3,H,H,H2,NONE,NONE,3.0d-17*sqrt(Tgas)"]
        net = load(kl, "krome")
        before = [eval_c(r.rateexpr(), CONDITIONS[0]) for r in net.reaction_list]
        p = os.path.join(d, "k.naunet")
        net.write(p, "naunet")
        fresh()
        back = Network(filelist=p, fileformats="naunet")
        for k, (r, v0) in enumerate(zip(back.reaction_list, before)):
            cases += 1
            try:
                v1 = eval_c(r.rateexpr(), CONDITIONS[0])
            except Exception:
                continue          # refused: fine
            if abs(v1 - v0) > 2e-3 * max(abs(v0), abs(v1)):
                V(f"cycle1-rate-law: source format krome type {int(r.reaction_type)}: the expression evaluated to {v0:.6g} before the cycle, the re-read reaction gives {r.rateexpr()!r} = {v1:.6g} instead of refusing")
    except Exception as e:
        V(f"krome-roundtrip-raises: {type(e).__name__}: {e}")
    finally:
        shutil.rmtree(d, ignore_errors=True)
    # reactions built through the API (no reader involved before the first write): windows of every shape come back as declared
    fresh()
    d = tempfile.mkdtemp(prefix="vf_rtapi_")
    try:
        from naunet.reactions.reaction import Reaction
        from naunet.reactiontype import ReactionType as _RT
        wins = [(10.0, -1.0), (-1.0, 300.0), (-1.0, -1.0), (5500.0, -1.0), (10.0, 41000.0), (300.0, 5000.0), (-9999.0, 9999.0), (0.0, 0.0)]
        net = Network([Reaction(["C", "H"], ["CH"], lo, hi, 1.0e-10 * (k + 1), 0.5, 10.0 * k, _RT.GAS_TWOBODY, k) for k, (lo, hi) in enumerate(wins)])     # indices 0..n-1, as reindex() numbers
        p = os.path.join(d, "api.naunet")
        net.write(p, "naunet")
        fresh()
        back = Network(filelist=p, fileformats="naunet")
        cases += len(wins)
        if len(back.reaction_list) != len(wins):
            V(f"api-count: {len(back.reaction_list)} reactions read back, {len(wins)} written")
        else:
            for k_, ((lo, hi), y) in enumerate(zip(wins, back.reaction_list)):
                if float(y.temp_min) != lo or float(y.temp_max) != hi:
                    V(f"api-window: declared ({lo}, {hi}), read back ({y.temp_min}, {y.temp_max})")
                if y.idxfromfile != k_:
                    V(f"api-index: reaction written with index {k_} is read back with index {y.idxfromfile}")
    except Exception as e:
        V(f"api-roundtrip-raises: {type(e).__name__}: {e}")
    finally:
        shutil.rmtree(d, ignore_errors=True)
    # export twice into the same directory after a revision: the exchange file must follow the network
    fresh()
    d = tempfile.mkdtemp(prefix="vf_exp_")
    try:
        import io, contextlib
        from naunet.reactions.reaction import Reaction
        from naunet.reactiontype import ReactionType as RT
        net = Network([Reaction(["C", "H"], ["CH"], alpha=1.0, reaction_type=RT.GAS_TWOBODY, idxfromfile=1)])
        with contextlib.redirect_stdout(io.StringIO()):
            try:
                net.export("proj", prefix=d, overwrite=True)
                net.add_reaction(Reaction(["CH", "H"], ["C", "H2"], alpha=2.0, reaction_type=RT.GAS_TWOBODY, idxfromfile=2))
                net.export("proj", prefix=d, overwrite=True)
                ok = True
            except Exception as e:
                ok = False     # template/test rendering problems of export are outside this check
        cases += 1
        rf = os.path.join(d, "proj", "reactions.naunet")
        if os.path.exists(rf):
            nlines = len([l for l in open(rf) if l.strip()])
            if nlines != len(net.reaction_list):
                V(f"export-overwrite-stale: reactions.naunet holds {nlines} reactions after re-export, the network has {len(net.reaction_list)}")
    finally:
        shutil.rmtree(d, ignore_errors=True)
    # a network that was written once, then edited in memory, then written again: the second file follows the edit
    fresh()
    d = tempfile.mkdtemp(prefix="vf_edit_")
    try:
        from naunet.reactions.reaction import Reaction
        from naunet.reactiontype import ReactionType as RT
        net = Network([Reaction(["C", "H"], ["CH"], 10.0, 300.0, 1.5e-10, 0.5, 2.0, RT.GAS_TWOBODY, 3), Reaction(["CH", "H"], ["C", "H2"], 10.0, 300.0, 2.5e-10, 0.0, 0.0, RT.GAS_TWOBODY, 4)])
        p1, p2 = os.path.join(d, "a.naunet"), os.path.join(d, "b.naunet")
        net.write(p1, "naunet")
        fresh()
        back = Network(filelist=p1, fileformats="naunet")
        for target in (net, back):
            r0 = target.reaction_list[0]
            r0.alpha, r0.temp_max, r0.idxfromfile = 4.5e-10, 800.0, 17
            target.write(p2, "naunet")
            fresh()
            again = Network(filelist=p2, fileformats="naunet")
            cases += 1
            g = again.reaction_list[0]
            if (g.alpha, g.temp_max, g.idxfromfile) != (4.5e-10, 800.0, 17):
                V(f"edit-then-write: after alpha=4.5e-10, temp_max=800, index=17 were set in memory the written file reads back alpha={g.alpha}, temp_max={g.temp_max}, index={g.idxfromfile}")
    except Exception as e:
        V(f"edit-then-write-raises: {type(e).__name__}: {e}")
    finally:
        shutil.rmtree(d, ignore_errors=True)
    # the exported project file carries the species data under the species' own names (what `naunet render` looks them up by)
    fresh()
    try:
        import tomlkit
        from naunet.configuration import NetworkConfiguration
        from naunet.reactions.reaction import Reaction
        from naunet.reactiontype import ReactionType as RT
        from naunet import chemistrydata
        chemistrydata.update_binding_energy({"#CO": 1300.0, "#CH3OH": 4321.5})
        chemistrydata.update_photon_yield({"#CO": 0.02})
        net = Network([Reaction(["CO"], ["#CO"], alpha=1.0, reaction_type=RT.GRAIN_FREEZE), Reaction(["#CO"], ["CO"], alpha=1.0, reaction_type=RT.GRAIN_DESORB_THERMAL),
                       Reaction(["CH3OH"], ["#CH3OH"], alpha=1.0, reaction_type=RT.GRAIN_FREEZE), Reaction(["#H2O"], ["H2O"], alpha=1.0, reaction_type=RT.GRAIN_DESORB_THERMAL)],
                      rate_modifier={2: "1.5e-10"}, ode_modifier={"CO": {"factors": ["-fx"], "reactants": [["CO"]]}})
        cfg = tomlkit.loads(NetworkConfiguration("p", net).content)
        sp = cfg["chemistry"]["species"]
        cases += 1
        want_eb = {"#CO": 1300.0, "#CH3OH": 4321.5, "#H2O": chemistrydata.rate12_binding_energy.get("H2O")}
        got_eb = {k: float(v) for k, v in sp["binding_energy"].items()}
        if got_eb != want_eb:
            V(f"export-config-binding-energy: project file holds {got_eb}, the network's ice species have {want_eb}")
        got_y = {k: float(v) for k, v in sp["photon_yield"].items()}
        if got_y != {"#CO": 0.02, "#CH3OH": 0.0, "#H2O": 0.0}:
            V(f"export-config-photon-yield: project file holds {got_y}")
        if {str(k): str(v) for k, v in cfg["chemistry"]["rate_modifier"].items()} != {"2": "1.5e-10"} or \
                {k: {kk: [list(x) if not isinstance(x, str) else str(x) for x in vv] for kk, vv in v.items()} for k, v in cfg["chemistry"]["ode_modifier"].items()} != {"CO": {"factors": ["-fx"], "reactants": [["CO"]]}}:
            V(f"export-config-modifiers: {dict(cfg['chemistry']['rate_modifier'])} / {dict(cfg['chemistry']['ode_modifier'])}")
    except Exception as e:
        V(f"export-config-raises: {type(e).__name__}: {e}")
    fresh()
    return cases, viol


# ---------------------------------------------------------------- C14: edit histories against a reference model
def check_histories(tier, seed):
    from naunet.network import Network
    from naunet.reactions.reaction import Reaction
    from naunet.reactiontype import ReactionType as RT
    viol, cases = [], 0
    rnd = random.Random(14 + seed)
    alphabet = ["H", "H2", "C", "CH", "O", "CO", "e-", "H+", "He"]

    def V(what, hist):
        viol.append({"property": "C14", "what": what, "history": hist, "signature": f"C14:{what.split(':')[0]}"})

    def mk():
        nr_, np__ = rnd.choice([1, 2, 2, 3]), rnd.choice([1, 1, 2, 3])
        return Reaction([rnd.choice(alphabet) for _ in range(nr_)], [rnd.choice(alphabet) for _ in range(np__)],
                        alpha=float(rnd.randint(1, 9)), reaction_type=RT.GAS_TWOBODY)
    # directed: narrow, change, widen again (a reaction skipped twice must come back exactly once)
    fresh()
    try:
        r1 = Reaction(["C", "H"], ["CH"], alpha=1.0, reaction_type=RT.GAS_TWOBODY)
        r2 = Reaction(["O", "H"], ["CO"], alpha=2.0, reaction_type=RT.GAS_TWOBODY)
        net = Network([r1, r2])
        hist = ["Network([C+H->CH, O+H->CO])"]
        for al in (["C", "H", "CH"], ["C", "H", "CH", "He"], [], ["O", "H", "CO"], []):
            net.allowed_species = al
            hist.append(f"allowed_species = {al}")
            cases += 1
            want = [r for r in (r1, r2) if not al or all(s.name in al for s in r.reactants + r.products)]
            if sorted(f"{r:minimal}" for r in net.reaction_list) != sorted(f"{r:minimal}" for r in want):
                V(f"allowed-setter-history: network holds {[f'{r:minimal}' for r in net.reaction_list]}, expected {[f'{r:minimal}' for r in want]}", list(hist))
                break
    except Exception as e:
        V(f"operation-raises: allowed setter: {type(e).__name__}: {e}", [])
    # directed: the allowed list names species, not spellings (the electron written e- in the list and E / E- in the reactions)
    fresh()
    try:
        rs = [Reaction(["H", "E"], ["H-"], alpha=1.0, reaction_type=RT.GAS_TWOBODY), Reaction(["H+", "e-"], ["H"], alpha=2.0, reaction_type=RT.GAS_TWOBODY),
              Reaction(["H-", "H+"], ["H", "H"], alpha=3.0, reaction_type=RT.GAS_TWOBODY), Reaction(["H2", "E-"], ["H", "H-"], alpha=4.0, reaction_type=RT.GAS_TWOBODY)]
        al = ["H", "H+", "H-", "e-"]
        net = Network(rs, allowed_species=al)
        cases += 1
        want = [0, 1, 2]
        got = [k for k, r in enumerate(rs) if any(r is x for x in net.reaction_list)]
        if got != want:
            V(f"allowed-spelling: constructor with allowed {al} keeps reactions {got}, expected {want} (E, E- and e- are one species)", ["constructor"])
        net2 = Network(rs)
        net2.allowed_species = al
        got2 = [k for k, r in enumerate(rs) if any(r is x for x in net2.reaction_list)]
        if got2 != want:
            V(f"allowed-spelling: setter with allowed {al} keeps reactions {got2}, expected {want}", ["setter"])
    except Exception as e:
        V(f"operation-raises: allowed spelling: {type(e).__name__}: {e}", [])
    # directed: the same reaction merged from two sources with its species in another order is found (and located) in every mode
    fresh()
    try:
        a_ = Reaction(["CO", "H"], ["C", "O", "H"], alpha=1.0, reaction_type=RT.GAS_TWOBODY)
        b_ = Reaction(["H", "CO"], ["H", "O", "C"], alpha=1.0, reaction_type=RT.GAS_TWOBODY)
        c_ = Reaction(["C", "O"], ["CO"], alpha=2.0, reaction_type=RT.GAS_TWOBODY)
        for mode in (None, "brief", "minimal", "short"):
            net = Network([a_, c_, b_])
            cases += 1
            _, dupidx, _ = net.find_duplicate_reaction(mode)
            if list(dupidx) != [2]:
                V(f"dedup-by-format: mode {mode}: [CO+H->C+O+H, C+O->CO, H+CO->H+O+C] reports {list(dupidx)}, the third reaction repeats the first", [f"mode {mode}"])
            if mode == "brief":
                continue          # where_reaction takes None or a format name
            w = net.where_reaction(b_, mode=mode)
            if sorted(w) != [0, 2]:
                V(f"where-by-format: mode {mode}: where_reaction(H+CO->H+O+C) = {w}, expected [0, 2]", [f"mode {mode}"])
    except Exception as e:
        V(f"operation-raises: directed permuted copy: {type(e).__name__}: {e}", [])
    # directed: a reaction is identified by its species, not by their spelling or order: removing H+ + E -> H (KROME spelling of the
    # electron) removes H+ + e- -> H, and a list merged from two sources de-duplicates across spellings
    fresh()
    try:
        r1 = Reaction(["H+", "e-"], ["H"], alpha=1.0, reaction_type=RT.GAS_TWOBODY)
        r2 = Reaction(["H+", "E"], ["H"], alpha=2.0, reaction_type=RT.GAS_TWOBODY)
        r3 = Reaction(["C+", "e-"], ["C"], alpha=3.0, reaction_type=RT.GAS_TWOBODY)
        r4 = Reaction(["E", "H+"], ["H"], alpha=4.0, reaction_type=RT.GAS_TWOBODY)
        for arg, label_ in ((r2, "instance"), ([r2], "list of instances"), (r4, "instance with the species in another order")):
            net = Network([r1, r3])
            net.remove_reaction(arg)
            cases += 1
            got = sorted(r.alpha for r in net.reaction_list)
            if got != [3.0]:
                V(f"removal-by-instance: removing H+ + E -> H ({label_}) from [H+ + e- -> H, C+ + e- -> C] leaves the reactions with alpha {got}, expected [3.0]", [label_])
        net = Network([r1, r3, r2, r4])
        _, dupidx, _ = net.find_duplicate_reaction()
        cases += 1
        if list(dupidx) != [2, 3]:
            V(f"dedup-across-spellings: [H+ + e- -> H, C+ + e- -> C, H+ + E -> H, E + H+ -> H] reports {list(dupidx)}, the third and fourth repeat the first", ["find_duplicate_reaction()"])
    except Exception as e:
        V(f"operation-raises: removal across spellings: {type(e).__name__}: {e}", [])
    # directed: an index list may name a position more than once and in any order (e.g. the union of two where_species results):
    # exactly the named positions go
    for idxs in ([3, 0, 3, 3], [1, 1], [4, 2, 4], "where"):
        fresh()
        try:
            rs = [Reaction(a, b, alpha=float(k + 1), reaction_type=RT.GAS_TWOBODY) for k, (a, b) in enumerate(
                [(["C", "H"], ["CH"]), (["CH", "O"], ["CO", "H"]), (["H", "H"], ["H2"]), (["CO", "H+"], ["HCO+"]), (["CH", "CO"], ["C2", "H", "O"]), (["O", "H"], ["OH"])])]
            net = Network(list(rs))
            lst = (net.where_species("CH") + net.where_species("CO")) if idxs == "where" else list(idxs)
            net.remove_reaction(list(lst))
            cases += 1
            want = sorted(r.alpha for k, r in enumerate(rs) if k not in set(lst))
            got = sorted(r.alpha for r in net.reaction_list)
            if got != want:
                V(f"removal-by-index-list: remove_reaction({lst}) leaves the reactions with alpha {got}, positions not named are {want}", [f"remove_reaction({lst})"])
        except Exception as e:
            V(f"operation-raises: remove_reaction with a repeated index: {type(e).__name__}: {e}", [])
    # directed: an extra species declared while it still takes part in a reaction stays in the network when those reactions go
    fresh()
    try:
        net = Network([Reaction(["C", "O"], ["CO"], alpha=1.0, reaction_type=RT.GAS_TWOBODY), Reaction(["CO", "H"], ["HCO"], alpha=2.0, reaction_type=RT.GAS_TWOBODY),
                       Reaction(["H", "H"], ["H2"], alpha=3.0, reaction_type=RT.GAS_TWOBODY)])
        hist = ["Network([C+O->CO, CO+H->HCO, H+H->H2])", "required_species = ['O', 'He']"]
        net.required_species = ["O", "He"]
        for step, want in [("remove_reaction(where_species('O'))", {"CO", "H", "HCO", "H2", "O", "He"}), ("remove_reaction(where_species('CO'))", {"H", "H2", "O", "He"})]:
            idxs = net.where_species("O" if "'O'" in step else "CO")
            net.remove_reaction(idxs)
            hist.append(step)
            cases += 1
            got = {s_.name for s_ in net.species}
            if got != want:
                V(f"required-species-kept: network lists {sorted(got)}, reactions held + required species give {sorted(want)}", list(hist))
                break
    except Exception as e:
        V(f"operation-raises: required species history: {type(e).__name__}: {e}", [])
    # directed: a reaction recorded twice (two sources, different coefficients) and filtered out comes back twice when the list is widened
    fresh()
    try:
        r1 = Reaction(["C", "H"], ["CH"], alpha=1.0, reaction_type=RT.GAS_TWOBODY)
        r1b = Reaction(["C", "H"], ["CH"], alpha=2.5, reaction_type=RT.GAS_TWOBODY)
        r2 = Reaction(["O", "H"], ["OH"], alpha=3.0, reaction_type=RT.GAS_TWOBODY)
        net = Network([r1, r1b, r2], allowed_species=["O", "H", "OH"])
        hist = ["Network([C+H->CH (1.0), C+H->CH (2.5), O+H->OH], allowed=[O, H, OH])"]
        for al, want in [([], [1.0, 2.5, 3.0]), (["C", "H", "CH"], [1.0, 2.5]), (["O", "H", "OH", "He"], [3.0]), ([], [1.0, 2.5, 3.0])]:
            net.allowed_species = al
            hist.append(f"allowed_species = {al}")
            cases += 1
            got = sorted(r.alpha for r in net.reaction_list)
            if got != want:
                V(f"allowed-setter-history: after widening, the network holds the reactions with alpha {got}, the description has {want}", list(hist))
                break
    except Exception as e:
        V(f"operation-raises: repeated filtered reaction: {type(e).__name__}: {e}", [])
    nh = 40 if tier == "quick" else 400
    for h in range(nh):
        fresh()
        allowed0 = rnd.choice([None, None, rnd.sample(alphabet, 6)])
        req = rnd.choice([None, ["He"]])
        if allowed0 and req and not set(req) <= set(allowed0):
            req = None
        net = Network(allowed_species=allowed0, required_species=req)
        # reference model
        held, skipped, allowed, required = [], [], list(allowed0 or []), list(req or [])
        hist = [f"Network(allowed={allowed0}, required={req})"]

        def ok(r):
            return not allowed or all(s.name in allowed for s in r.reactants + r.products)
        for step in range(rnd.randint(3, 12)):
            op = rnd.choice(["add", "add", "add", "add_copy", "remove_idx", "remove_list", "remove_list_rep", "remove_where", "remove_inst", "allow", "require", "dedup", "dedup_mode", "add_permuted", "add_permuted", "reindex"])
            try:
                if op == "add":
                    r = mk()
                    hist.append(f"add {r:minimal}")
                    net.add_reaction(r)
                    (held if ok(r) else skipped).append(r)
                elif op == "add_copy" and (held or skipped):
                    # the same reaction from a second source, with another coefficient
                    src = rnd.choice(held + skipped)
                    r = Reaction([s.name for s in src.reactants], [s.name for s in src.products], alpha=src.alpha + 0.5, reaction_type=RT.GAS_TWOBODY)
                    hist.append(f"add {r:minimal} (second entry, alpha {r.alpha})")
                    net.add_reaction(r)
                    (held if ok(r) else skipped).append(r)
                elif op == "remove_idx" and held:
                    i = rnd.randrange(len(held))
                    hist.append(f"remove_reaction({i})")
                    net.remove_reaction(i)
                    held.pop(i)
                elif op == "remove_list" and len(held) >= 2:
                    idxs = sorted(rnd.sample(range(len(held)), 2))
                    hist.append(f"remove_reaction({idxs})")
                    net.remove_reaction(idxs)
                    held = [r for k, r in enumerate(held) if k not in idxs]
                elif op == "remove_list_rep" and len(held) >= 3:
                    # an index list may name a reaction twice (e.g. the union of two where_species results), in any order
                    a_, b_ = rnd.sample(range(len(held)), 2)
                    idxs = [a_, b_, a_] if rnd.random() < 0.5 else [b_, a_, b_, a_]
                    hist.append(f"remove_reaction({idxs})")
                    net.remove_reaction(idxs)
                    held = [r for k, r in enumerate(held) if k not in idxs]
                elif op == "remove_where" and held:
                    s1, s2 = rnd.sample(alphabet, 2)
                    idxs = net.where_species(s1) + net.where_species(s2)
                    if not idxs:
                        continue
                    hist.append(f"remove_reaction(where_species({s1}) + where_species({s2}) = {idxs})")
                    net.remove_reaction(idxs)
                    held = [r for r in held if not any(s.name in (s1, s2) for s in r.reactants + r.products)]
                elif op == "remove_inst" and held:
                    r = rnd.choice(held)
                    hist.append(f"remove_reaction(<{r:minimal}>)")
                    net.remove_reaction(r)
                    held = [x for x in held if not (x == r)]
                elif op == "allow":
                    allowed = rnd.choice([[], rnd.sample(alphabet, rnd.randint(4, 8))])
                    if required and allowed and not set(required) <= set(allowed):
                        allowed = allowed + required
                    hist.append(f"allowed_species = {allowed}")
                    net.allowed_species = allowed
                    pool = held + skipped
                    held, skipped = [r for r in pool if ok(r)], [r for r in pool if not ok(r)]
                elif op == "require":
                    required = rnd.choice([[], ["He"], ["O"], ["O", "H2"], ["C", "He"]])
                    if allowed and not set(required) <= set(allowed):
                        required = []
                    hist.append(f"required_species = {required}")
                    net.required_species = required
                elif op == "dedup":
                    dupes, dupidx, first = net.find_duplicate_reaction()
                    hist.append(f"remove duplicates {dupidx}")
                    net.remove_reaction(dupidx)
                    held = [r for k, r in enumerate(held) if k not in dupidx]
                elif op == "add_permuted" and held:
                    # the same reaction written with its species in another order (e.g. merged from a second source)
                    src = rnd.choice(held)
                    rs, ps = [s.name for s in src.reactants], [s.name for s in src.products]
                    rnd.shuffle(rs)
                    rnd.shuffle(ps)
                    r = Reaction(rs, ps, alpha=src.alpha, reaction_type=RT.GAS_TWOBODY)
                    hist.append(f"add {'+'.join(rs)}->{'+'.join(ps)} (permuted copy)")
                    net.add_reaction(r)
                    (held if ok(r) else skipped).append(r)
                elif op == "dedup_mode" and held:
                    mode = rnd.choice(["minimal", "short"])
                    dupes, dupidx, first = net.find_duplicate_reaction(mode)
                    seen_k, want_idx = set(), []
                    for k, r in enumerate(held):
                        kk = (tuple(sorted(s.name for s in r.reactants)), tuple(sorted(s.name for s in r.products)))
                        if kk in seen_k:
                            want_idx.append(k)
                        seen_k.add(kk)
                    hist.append(f"find_duplicate_reaction({mode!r}) -> {list(dupidx)}, remove them")
                    if list(dupidx) != want_idx:
                        V(f"dedup-by-format: mode {mode}: reported {list(dupidx)}, reactions equal up to species order are at {want_idx}", list(hist))
                        break
                    for k in want_idx:
                        w = net.where_reaction(held[k], mode=mode)
                        if k not in w:
                            V(f"where-by-format: mode {mode}: reaction {k} not found by where_reaction: {w}", list(hist))
                            break
                    net.remove_reaction(list(dupidx))
                    held = [r for k, r in enumerate(held) if k not in want_idx]
                elif op == "reindex":
                    hist.append("reindex")
                    net.reindex()
                else:
                    continue
            except Exception as e:
                V(f"operation-raises: {op}: {type(e).__name__}: {e}", list(hist))
                break
            cases += 1
            want_list = [f"{r:minimal}" for r in held]
            got_list = [f"{r:minimal}" for r in net.reaction_list]
            if sorted(want_list) != sorted(got_list):
                V(f"reactions-held: network holds {len(got_list)} reactions, reference {len(want_list)}", list(hist))
                break
            sp_want = sorted({s.name for r in held for s in r.reactants + r.products} | set(required))
            sp_got = sorted(s.name for s in net.species)
            if sp_want != sp_got:
                V(f"species: network lists {sp_got}, reactions held + required give {sp_want}", list(hist))
                break
            src, snk = net.find_source_sink()
            rset = {s.name for r in held for s in r.reactants}
            pset = {s.name for r in held for s in r.products}
            if sorted(s.name for s in src) != sorted(rset - pset) or sorted(s.name for s in snk) != sorted(pset - rset):
                V(f"sources-sinks: got {sorted(s.name for s in src)}/{sorted(s.name for s in snk)} expected {sorted(rset - pset)}/{sorted(pset - rset)}", list(hist))
                break
            if allowed and any(not ok(r) for r in net.reaction_list):
                V("disallowed-species-present: a held reaction mentions a disallowed species", list(hist))
                break
        else:
            # changing the allowed list later == constructing with it
            fresh()
            try:
                ref = Network(reactions=[r for r in held + skipped], allowed_species=allowed or None,
                              required_species=required or None)
                if sorted(f"{r:minimal}" for r in ref.reaction_list) != sorted(f"{r:minimal}" for r in net.reaction_list) or \
                        [s.name for s in ref.species] != [s.name for s in net.species]:
                    V("setter-vs-constructor: network differs from one constructed with the final allowed list", list(hist))
            except RuntimeError:
                pass
    fresh()
    return cases, viol


# ---------------------------------------------------------------- C15: duplicates against an O(n^2) reference
def check_duplicates(tier, seed):
    from naunet.network import Network
    from naunet.reactions.reaction import Reaction
    from naunet.reactiontype import ReactionType as RT
    viol, cases = [], 0
    rnd = random.Random(15 + seed)
    alphabet = ["H", "H2", "C", "CH"]

    def V(what, net):
        tags = []
        if any(r.reaction_type == RT.UNKNOWN for r in net) and any(r.reaction_type != RT.UNKNOWN for r in net):
            tags.append("mixed-UNKNOWN-type")
        if len({s.name for r in net for s in r.reactants + r.products if s.is_electron}) > 1:
            tags.append("mixed-electron-spelling")
        viol.append({"property": "C15", "what": what, "reactions": [repr(r) for r in net],
                     "signature": f"C15:{what.split(':')[0]}" + ("".join(":" + t for t in tags))})

    def key(r, mode):
        rs, ps = tuple(sorted(s.name for s in r.reactants)), tuple(sorted(s.name for s in r.products))
        if mode in ("brief", "minimal"):
            return (rs, ps)
        if mode == "short":
            return (rs, ps, f"{r.temp_min:7.1f}", f"{r.temp_max:7.1f}", r.reaction_type.name)
        return (rs, ps, r.temp_min, r.temp_max, int(r.reaction_type))
    directed = [
        [(["H", "e-"], ["H+", "e-", "e-"], RT.GAS_TWOBODY), (["E", "H"], ["H+", "E", "e-"], RT.GAS_TWOBODY)],
        [(["C", "H"], ["CH"], RT.GAS_TWOBODY), (["C", "H"], ["CH"], RT.UNKNOWN), (["H", "C"], ["CH"], RT.GAS_PHOTON)],
        [(["C", "H"], ["CH"], RT.UNKNOWN), (["C", "H"], ["CH"], RT.GAS_TWOBODY), (["H", "C"], ["CH"], RT.GAS_PHOTON)],
        # species whose names differ only in letter case are different species (para-H2 / PH2, ortho-H2 / OH2) in every mode
        [(["pH2", "H+"], ["oH2", "H+"], RT.GAS_TWOBODY), (["PH2", "H+"], ["OH2", "H+"], RT.GAS_TWOBODY), (["H+", "pH2"], ["H+", "oH2"], RT.GAS_TWOBODY)],
    ]
    # species multiplicity is part of a reaction's identity in every mode (H + H -> H2 is not H -> H2)
    directed.append([(["H", "H"], ["H2"], RT.GAS_TWOBODY), (["H"], ["H2"], RT.GAS_TWOBODY), (["H", "H"], ["H2", "H2"], RT.GAS_TWOBODY), (["H", "H"], ["H2"], RT.GAS_TWOBODY),
                     (["H2", "H"], ["H", "H", "H"], RT.GAS_TWOBODY), (["H2", "H", "H"], ["H", "H", "H"], RT.GAS_TWOBODY)])
    # the first three directed lists open the run, the later ones close it: the seeded random lists in between are the ones every
    # earlier regression saw (adding a directed list must not shift the random stream)
    nd, late = 3, directed[3:]
    nrand = 60 if tier == "quick" else 600
    for h in range(nd + nrand + len(late)):
        fresh()
        variant = h % 6      # 0,1: plain; 2: some reactions of UNKNOWN type (KROME-like); 3: electron spelled e- and E;
        #                      4: a species together with its own ice form / ion; 5: the same Reaction object held several times
        if variant == 3:
            alphabet = ["H", "H+", "e-", "E"]
        elif variant == 4:
            alphabet = ["H", "#H", "H+", "CO", "#CO", "H2"]
        else:
            alphabet = ["H", "H2", "C", "CH"]
        base = []
        for _ in range(rnd.randint(2, 4)):
            base.append(([rnd.choice(alphabet) for _ in range(rnd.choice([1, 2, 3]))], [rnd.choice(alphabet) for _ in range(rnd.choice([1, 2, 3]))]))
        reacs = []
        for _ in range(rnd.randint(3, 9)):
            rs, ps = rnd.choice(base)
            rs, ps = list(rs), list(ps)
            rnd.shuffle(rs)
            rnd.shuffle(ps)
            tmin, tmax = rnd.choice([(-1.0, -1.0), (10.0, 300.0), (300.0, 1000.0), (10.0, 800.0), (-9999.0, 100.0), (-9999.0, 9999.0)])
            if variant == 5 and reacs and rnd.random() < 0.4:
                reacs.append(rnd.choice(reacs))          # the very same object again (e.g. a list concatenated with itself)
                continue
            reacs.append(Reaction(rs, ps, tmin, tmax, float(rnd.randint(1, 5)), reaction_type=rnd.choice([RT.GAS_TWOBODY, RT.GAS_TWOBODY, RT.GAS_PHOTON] + ([RT.UNKNOWN] * 2 if variant == 2 else []))))
        if h < nd or h >= nd + nrand:
            reacs = [Reaction(list(a), list(b), -1.0, -1.0, 1.0, reaction_type=t) for a, b, t in (directed[h] if h < nd else late[h - nd - nrand])]
        net = Network(reacs)
        stages = [("built", (None, "brief", "minimal", "short"))]
        if variant in (0, 1) and nd <= h < nd + nrand:
            stages.append(("edited-in-place", (None, "minimal")))
        for stage, modes in stages:
          if stage == "edited-in-place":
            # history: the reactions have been hashed / compared by the first report; now some are edited in place
            from naunet.species import Species as _Sp15
            done = []
            for r in rnd.sample(list({id(x): x for x in net.reaction_list}.values()), min(2, len({id(x) for x in net.reaction_list}))):
                how = rnd.choice(["assign-products", "append-reactant", "remove-reactant", "copy-of-other"])
                if how == "assign-products":
                    r.products = [_Sp15(rnd.choice(alphabet)) for _ in range(rnd.choice([1, 2]))]
                elif how == "append-reactant" and len(r.reactants) < 3:
                    r.reactants.append(_Sp15(rnd.choice(alphabet)))
                elif how == "remove-reactant" and len(r.reactants) > 1:
                    r.reactants.remove(r.reactants[0])
                else:
                    o = rnd.choice(net.reaction_list)
                    r.reactants, r.products = [_Sp15(x.name) for x in o.reactants], [_Sp15(x.name) for x in o.products]
                done.append(how)
          for mode in modes:
            cases += 1
            try:
                dupes, dupidx, first = net.find_duplicate_reaction(mode)
            except Exception as e:
                V(f"raises: mode {mode}: {e}", reacs)
                continue
            seen, wd, wf, classes = {}, [], [], {}
            rl = net.reaction_list
            for i, r in enumerate(rl):
                if mode is None or mode == "brief":
                    # pairwise reference with the mode's own notion of equivalence (species identity, not spelling)
                    def same(x, y):
                        ok = Counter(x.reactants) == Counter(y.reactants) and Counter(x.products) == Counter(y.products)
                        if mode is None:
                            ok = ok and x.temp_min == y.temp_min and x.temp_max == y.temp_max and \
                                (x.reaction_type == y.reaction_type or RT.UNKNOWN in (x.reaction_type, y.reaction_type))
                        return ok
                    earlier = [j for j in range(i) if same(rl[j], r)]
                    k = ("cls", min(seen.get(("cls", j), j) for j in earlier)) if earlier else ("cls", i)
                    if earlier:
                        rep = min(earlier)
                        rep = seen.get(("rep", rep), rep)
                        seen[("rep", i)] = rep
                        wd.append(i)
                        classes.setdefault(rep, [rep]).append(i)
                    else:
                        seen[("rep", i)] = i
                        classes.setdefault(i, [i])
                    continue
                k = key(r, mode)
                if k in seen:
                    wd.append(i)
                    classes[k].append(i)
                else:
                    seen[k] = i
                    classes[k] = [i]
            wf = [v[0] for k, v in classes.items() if len(v) > 1]
            if list(dupidx) != wd:
                V(f"dupidx: mode {mode}: reported {list(dupidx)} reference {wd}" + (" (after editing reactions in place)" if stage != "built" else ""), reacs)
            elif [id(x) for x in dupes] != [id(net.reaction_list[i]) for i in wd]:
                V(f"dupes: mode {mode}: reported reactions are not reaction_list[dupidx]", reacs)
            elif [id(x) for x in first] != [id(net.reaction_list[i]) for i in wf]:
                V(f"first: mode {mode}: first members differ from reference {wf}", reacs)
            else:
                fresh()
                n2 = Network(list(net.reaction_list))
                n2.remove_reaction(list(dupidx))
                _, again, _ = n2.find_duplicate_reaction(mode)
                if again:
                    V(f"removal: mode {mode}: duplicates remain after removing the reported ones", reacs)
                if len(n2.reaction_list) != len(classes):
                    V(f"removal: mode {mode}: {len(n2.reaction_list)} reactions left, {len(classes)} classes", reacs)
    fresh()
    return cases, viol


def oracle(prop):
    def f(tier, seed):
        if prop == "C07":
            cases, viol, samples = check_decode(tier, seed)
            return {"cases": cases, "distinct": cases, "violations": viol, "samples": samples,
                    "bound": "30 (quick) / 300 (thorough) generated lines per format incl. full-width names, all codes, blank/comment/directive lines",
                    "rule": "each generated line is a distinct abstract reaction encoded by an encoder written from the format description"}
        if prop == "C06":
            cases, viol = check_krome_windows(tier, seed)
            c2, v2 = check_api_windows(tier, seed)
            cases, viol = cases + c2, viol + v2
            return {"cases": cases, "distinct": cases, "violations": viol, "samples": [{"krome": ".LE.1d2 / .GE..5d3 / NONE ..."}],
                    "bound": "13 x 13 spellings of KROME Tmin/Tmax and the rendered guards at T = bound, bound +- 1e-3; 19 API windows (many digits, extreme magnitudes) at the bound and its neighbouring doubles, 9 of them also after a write/read cycle of the exchange file",
                    "rule": "every ordered pair of spellings is one distinct window"}
        if prop == "C18":
            cases, viol = check_roundtrip(tier, seed)
            return {"cases": cases, "distinct": cases, "violations": viol, "samples": [{"formats": ["kida", "umist", "leeds", "naunet"], "cycles": 2}],
                    "bound": "12/80 generated reactions per source format, two write/read cycles", "rule": "one case per reaction and cycle"}
        if prop == "C14":
            cases, viol = check_histories(tier, seed)
            return {"cases": cases, "distinct": cases, "violations": viol, "samples": [v.get("history") for v in viol[:2]] or [{"ops": "add/remove/allow/require/dedup/reindex"}],
                    "bound": "40/400 random histories of 3-12 operations over a 9-species alphabet", "rule": "each step of each seeded history is one case"}
        if prop == "C15":
            cases, viol = check_duplicates(tier, seed)
            return {"cases": cases, "distinct": cases, "violations": viol, "samples": [{"modes": [None, "brief", "minimal", "short"]}],
                    "bound": "60/600 random reaction lists (3-9 reactions, permuted species, window/type variants) x 4 modes", "rule": "one case per list and mode"}
        raise KeyError(prop)
    return f
