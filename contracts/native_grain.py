"""Bounded native check for C11 (never counted as proved): the real rate text of every (dust model, process) case of
contracts/grain_rates.py, built from real Species objects (real mass numbers, binding energies, yields), is evaluated with
contracts/ceval.py and compared with the model formula evaluated numerically - before and after the user changes the
binding-energy / yield tables (the 'incl. user overrides' part of the property: a history)."""
from __future__ import annotations
import math, logging, zlib
from fractions import Fraction
import z3

logging.disable(logging.CRITICAL)


def _default(name):
    """deterministic positive value for any named constant / parameter (the same on both sides)"""
    h = zlib.crc32(name.encode())
    return 0.5 + (h % 1000) / 400.0


class _Cond(dict):
    def __missing__(self, k):
        v = self[k] = _default(k)
        return v

    def __contains__(self, k):
        return True


def _fn(*a):
    return 0.5 + 0.25 * math.sin(sum((k + 1) * math.log10(abs(x) + 1.0) for k, x in enumerate(a)))


def eval_term(t, cond, syms):
    from .native_rates import FUNCS
    funcs = dict(FUNCS, fmax=max, fmin=min)
    if z3.is_rational_value(t):
        return float(Fraction(t.numerator_as_long(), t.denominator_as_long()))
    if z3.is_int_value(t):
        return float(t.as_long())
    k = t.decl().kind()
    if k == z3.Z3_OP_ITE:
        return eval_term(t.arg(1) if eval_bool(t.arg(0), cond, syms) else t.arg(2), cond, syms)
    ch = [eval_term(c, cond, syms) for c in t.children()]
    if k == z3.Z3_OP_ADD:
        return sum(ch)
    if k == z3.Z3_OP_MUL:
        out = 1.0
        for c in ch:
            out *= c
        return out
    if k == z3.Z3_OP_SUB:
        return ch[0] - sum(ch[1:])
    if k == z3.Z3_OP_UMINUS:
        return -ch[0]
    if k == z3.Z3_OP_DIV:
        return ch[0] / ch[1]
    if k == z3.Z3_OP_TO_REAL:
        return ch[0]
    name = t.decl().name()
    if k == z3.Z3_OP_UNINTERPRETED:
        if not ch:
            if name in syms:
                return float(syms[name])
            if name.startswith("c:"):
                return float(cond[name[2:]])
            if name.startswith("m:"):
                return 1.0
        if name.startswith("fn:"):
            return float(funcs[name[3:].split("/")[0]](*ch))
        if name.startswith("arr:"):
            return 1.0
    raise ValueError(f"cannot evaluate {t}")


def eval_bool(t, cond, syms):
    k = t.decl().kind()
    a = [eval_term(c, cond, syms) for c in t.children()] if k not in (z3.Z3_OP_AND, z3.Z3_OP_OR, z3.Z3_OP_NOT) else None
    if k == z3.Z3_OP_GT:
        return a[0] > a[1]
    if k == z3.Z3_OP_GE:
        return a[0] >= a[1]
    if k == z3.Z3_OP_LT:
        return a[0] < a[1]
    if k == z3.Z3_OP_LE:
        return a[0] <= a[1]
    if k == z3.Z3_OP_EQ:
        return a[0] == a[1]
    if k == z3.Z3_OP_DISTINCT:
        return a[0] != a[1]
    if k == z3.Z3_OP_NOT:
        return not eval_bool(t.arg(0), cond, syms)
    if k == z3.Z3_OP_AND:
        return all(eval_bool(c, cond, syms) for c in t.children())
    if k == z3.Z3_OP_OR:
        return any(eval_bool(c, cond, syms) for c in t.children())
    raise ValueError(f"cannot evaluate {t}")


def eval_c(text, cond):
    from . import ceval
    from .native_rates import FUNCS, _Ints

    class Idents(dict):
        def __contains__(self, k):
            return not k.startswith("IDX_")

        def __getitem__(self, k):
            return Fraction(cond[k])
    funcs = dict(FUNCS, fmax=max, fmin=min)
    env = ceval.Env(arrays={"y": lambda i: Fraction(1)}, idents=Idents(_x=0), ints=_Ints(),
                    funcs={k: (lambda *a, f=f: Fraction(f(*[float(x) for x in a]))) for k, f in funcs.items()})
    return float(ceval.value(ceval.parse_expr(text), env))


NUCLEONS = {"H": 1.0, "D": 2.0, "He": 4.0, "C": 12.0, "N": 14.0, "O": 16.0, "Si": 28.0, "S": 32.0, "Mg": 24.0, "Fe": 56.0, "Na": 23.0, "Cl": 35.0, "P": 31.0, "F": 19.0}


def indep_mass(name, fallback):
    """mass number of a species from its name, read independently of naunet (ice prefix '#' or Leeds 'G' dropped)"""
    from .native_ode import indep_identity
    nm = name[1:] if name[:1] in "#G" and not name.startswith("GRAIN") else name
    ident = indep_identity(nm)
    if ident is None or any(k not in NUCLEONS for k, _ in ident[1] if k not in ("e", "GRAIN")):
        return fallback
    return sum(NUCLEONS.get(k, 0.0) * v for k, v in ident[1] if k not in ("e", "GRAIN"))


def rate12_table():
    """the RATE12 binding-energy list read independently of naunet: first column exact species name, second column the value"""
    import naunet.chemistrydata as cd, os
    out = {}
    for line in open(os.path.join(os.path.dirname(cd.__file__), "rate12_binding_energy.dat"), errors="replace"):
        if line.startswith("#") or not line.strip():
            continue
        parts = line.split()
        out[parts[0]] = float(parts[1])
    return out


def oracle(tier, seed):
    from . import grain_rates as G
    from . import native_net as N
    from naunet import chemistrydata
    viol, cases, samples = [], 0, []
    T12 = rate12_table()
    # the table the tool works with must be the published list, name by name (an ion never shadows its neutral)
    for nm, val in T12.items():
        cases += 1
        got = chemistrydata.rate12_binding_energy.get(nm)
        if got != val:
            viol.append({"property": "C11", "case": "rate12-table", "stage": "table", "what": f"binding-energy-table: {nm} is {got} in the tool's table, {val} in the RATE12 list",
                         "signature": f"C11:rate12-table:{nm}"})
            if len(viol) > 5:
                break
    # the mass number the accretion / desorption laws take from a species is its nucleon count (sum over the composition), also for
    # species whose atomic weights do not round to it (chlorine: 35 nucleons, weight 35.45)
    from naunet.species import Species as _SpM
    N.fresh()
    for nm in ["Cl", "HCl", "Cl2", "SiCl", "MgCl", "NaCl", "C2H5Cl", "CCl", "H2Cl+", "#HCl", "#Cl2", "FeS", "MgS", "SiS", "PN", "HF", "CF+", "H2S2", "SO2", "#SiO"]:
        cases += 1
        try:
            got = float(_SpM(nm).massnumber)
        except Exception as e:
            viol.append({"property": "C11", "case": "massnumber", "stage": "massnumber", "what": f"massnumber-raises: {nm}: {type(e).__name__}: {e}", "signature": "C11:massnumber:raises"})
            continue
        want = indep_mass(nm, None)
        if want is not None and abs(got - want) > 1e-9:
            viol.append({"property": "C11", "case": "massnumber", "stage": "massnumber", "what": f"massnumber: {nm} has {want:.0f} nucleons, Species.massnumber (used by the accretion and desorption laws) is {got}",
                         "signature": "C11:massnumber:value"})
    alphas = [1.0, 0.5] if tier == "quick" else [1.0, 0.5, 2.5e3, 1e-3]

    def V(label, what, stage):
        viol.append({"property": "C11", "case": label, "stage": stage, "what": what, "signature": f"C11:{label}:{stage}:{what.split(':')[0]}"})
    for (label, gcls, rcls, rtype, names, law, exc) in G.cases():
        if law is None:
            continue
        for alpha in alphas:
            N.fresh()
            from naunet.species import Species
            kw = {"surface_prefix": "G"} if rcls.__name__ == "LEEDSReaction" else {}
            try:
                grain = gcls()
                reac = rcls("")
                reac.reaction_type = rtype
                sps = [Species(nm, **kw) for nm in names]
                reac.reactants = sps
                reac.alpha, reac.beta, reac.gamma = alpha, 0.0, 0.0
                if rcls.__name__ == "LEEDSReaction":
                    inv = {int(v): k for k, v in rcls.rtype2type.items()}
                    reac.rtype = inv.get(int(rtype), 99)
            except Exception as e:
                V(label, f"setup-raises: {type(e).__name__}: {e}", "fresh")
                continue
            ices = [s for s in sps if s.is_surface]
            stages = [("fresh", None)]
            if ices:
                stages += [("after-user-override", {s.name: 1234.5 + 100 * k for k, s in enumerate(ices)}),
                           ("after-second-override", {s.name: 777.25 + 50 * k for k, s in enumerate(ices)})]
            for stage, override in stages:
                if override is not None:
                    chemistrydata.update_binding_energy(dict(override))
                    chemistrydata.update_photon_yield({ices[0].name: 0.02 if stage == "after-user-override" else 0.05})
                cases += 1
                try:
                    text = reac.rateexpr(grain) if not (label.startswith("base/") or getattr(reac, "rtype", 0) == 99) else grain.rateexpr(reac)
                except Exception as e:
                    V(label, f"rateexpr-raises: {type(e).__name__}: {e}", stage)
                    break
                syms = {"alpha": alpha}
                cond = _Cond()
                try:
                    for k, s in enumerate(sps[:2]):
                        syms[f"A{k + 1}"] = indep_mass(names[k], s.massnumber)
                        if s.is_surface:
                            eb = override[s.name] if override else T12.get(s.name[1:] if s.name[:1] in "#G" else s.name)
                            syms[f"Eb{k + 1}"] = eb
                            cond["eb_" + s.alias] = eb
                    syms.setdefault("Eb1", 1.0), syms.setdefault("Eb2", 1.0), syms.setdefault("A2", 1.0)
                    syms["Y1"] = (0.02 if stage == "after-user-override" else 0.05) if (override and sps[0].is_surface) else \
                        (chemistrydata.user_photon_yield.get(sps[0].name, 0.0) if sps[0].is_surface else 0.0)
                    want = eval_term(G.expected(law, sps[0].alias), cond, syms)
                    try:
                        have = eval_c(text, cond)
                    except ZeroDivisionError:
                        # the model formula is finite at this valuation: a division by zero in the emitted text is inf / nan in C
                        V(label, f"value: rate text {text[:160]!r} divides by zero, model formula = {want!r}", stage)
                        break
                except (ZeroDivisionError, OverflowError):
                    continue
                except Exception as e:
                    V(label, f"not-valid-C: {type(e).__name__}: {e} in {text[:120]!r}", stage)
                    break
                if not (abs(have - want) <= 1e-9 * max(abs(have), abs(want)) or have == want):
                    V(label, f"value: rate text {text[:160]!r} = {have!r}, model formula = {want!r} (Eb {[syms.get('Eb1'), syms.get('Eb2')]}, Y {syms['Y1']})", stage)
                    break
                if len(samples) < 5 and stage == "after-user-override":
                    samples.append({"case": label, "stage": stage, "rate": text[:200]})
    # reactions built through the API from Species objects that carry their own binding energy / yield (set with the setters): the
    # values travel with the species into the rate text and into the rendered eb_<alias> constants
    try:
        from naunet.species import Species
        from naunet.reactions.reaction import Reaction
        from naunet.reactiontype import ReactionType as RT
        from naunet.grains.rr07grain import RR07XGrain
        from naunet.network import Network
        from .native_ode import render, strip_comments
        import re as _re
        N.fresh()
        ice = Species("#CO")
        ice.binding_energy, ice.photon_yield = 3874.25, 0.02
        N.fresh()
        ice2 = Species("#CO")
        ice2.binding_energy = 3874.25
        net = Network([Reaction([ice2], [Species("CO")], alpha=1.0, reaction_type=RT.GRAIN_DESORB_THERMAL), Reaction([Species("CO")], [Species("#CO")], alpha=1.0, reaction_type=RT.GRAIN_FREEZE)], grain_model="hh93")
        files = render(net, "cvode", "dense", "cpu", jac_pattern=False)
        cases += 1
        m = _re.search(r"eb_\w*CO\w*\s*=\s*([-+0-9.eE]+)\s*;", strip_comments(files.get("src/naunet_constants.cpp", "")))
        if not m or float(m.group(1)) != 3874.25:
            viol.append({"property": "C11", "case": "hh93/thermal", "stage": "species-object-with-own-values", "what": f"constant: the rendered binding-energy constant of #CO is {m.group(1) if m else 'missing'}, the species object carries 3874.25",
                         "signature": "C11:hh93/thermal:species-object-with-own-values:constant"})
        # every rendered binding-energy constant is the value in force for its species: a user value with many significant digits, or
        # the literature value (RATE12 table read independently above)
        for gm in ("hh93", "rr07x"):
            N.fresh()
            user = {"#H2O": 5773.5, "#NH3": 10987.0, "#CH4": 1090.125}
            chemistrydata.update_binding_energy(dict(user))
            rs = [Reaction([Species(g)], [Species("#" + g)], alpha=1.0, reaction_type=RT.GRAIN_FREEZE) for g in ("H2O", "NH3", "CH4", "CO", "CO2", "HCN")] + \
                 [Reaction([Species("#" + g)], [Species(g)], alpha=1.0, reaction_type=RT.GRAIN_DESORB_THERMAL) for g in ("H2O", "NH3", "CH4", "CO", "CO2", "HCN")]
            net = Network(rs, grain_model=gm)
            files = render(net, "cvode", "dense", "cpu", jac_pattern=False)
            ctext = strip_comments(files.get("src/naunet_constants.cpp", ""))
            for sp in net.species:
                if not sp.is_surface:
                    continue
                cases += 1
                want_eb = user.get(sp.name, T12.get(sp.name[1:]))
                m = _re.search(rf"\beb_{_re.escape(sp.alias)}\s*=\s*([-+0-9.eE]+)\s*;", ctext)
                if want_eb is None:
                    continue
                if not m or float(m.group(1)) != float(want_eb):
                    viol.append({"property": "C11", "case": f"{gm}/constants", "stage": "user-table-many-digits", "what": f"constant: rendered eb_{sp.alias} = {m.group(1) if m else 'missing'}, the value in force for {sp.name} is {want_eb}",
                                 "signature": f"C11:{gm}/constants:eb-constant"})
    except Exception as e:
        viol.append({"property": "C11", "case": "api-species-objects", "stage": "species-object-with-own-values", "what": f"raises: {type(e).__name__}: {e}", "signature": "C11:api-species-objects:raises"})
    N.fresh()
    return {"cases": cases, "distinct": cases, "violations": viol, "samples": samples,
            "bound": f"every implemented (dust model, process, species pair) case x {len(alphas)} coefficients x up to 3 stages of a user-override history, one deterministic parameter valuation",
            "rule": "a case is one evaluation of the real rate text against the model formula; stages: fresh tables, after update_binding_energy/update_photon_yield, after a second update"}


if __name__ == "__main__":
    import sys, json
    r = oracle(sys.argv[1] if len(sys.argv) > 1 else "quick", 0)
    print(r["cases"], "cases", len(r["violations"]), "violations")
    for v in r["violations"][:8]:
        print(v)
