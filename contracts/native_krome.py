"""C12 bounded native check: Fortran (KROME) rate expressions generated from the translator's own grammar up to
a depth bound are translated by the real KROMEReaction.rateexpr and both sides are evaluated exactly: the
Fortran side by an independent evaluator over the generator's AST (right-associative **, unary minus looser
than **), the C side by contracts/ceval.py; pow/exp/log/sqrt are interpreted as the same injective pseudo-random
functions on both sides, so equality is structural up to real arithmetic."""
from __future__ import annotations
import random, re, hashlib, os, tempfile, shutil
from fractions import Fraction
from . import ceval
from .native_ode import fresh_species_state

_memo = {}


def H(name, *args):
    key = (name,) + tuple(args)
    if key not in _memo:
        h = hashlib.sha256(repr(key).encode()).digest()
        _memo[key] = Fraction(int.from_bytes(h[:4], "big") % 9973 + 1, int.from_bytes(h[4:8], "big") % 97 + 1)
    return _memo[key]


FUNCS = {"exp": lambda x: H("exp", x), "log": lambda x: H("log", x), "sqrt": lambda x: H("sqrt", x),
         "pow": lambda a, b: H("pow", a, b), "log10": lambda x: H("log10", x)}
for _f in ("sin", "cos", "tan", "asin", "acos", "atan", "sinh", "cosh", "tanh", "asinh", "acosh", "atanh", "abs"):
    FUNCS[_f] = (lambda x, _n=_f: H(_n, x))
VARS = {"Tgas": Fraction(123, 7), "T32": Fraction(11, 3), "invT": Fraction(2, 9), "Te": Fraction(5, 13), "user_a": Fraction(17, 4),
        "nH": Fraction(1000, 3)}
NUMS = [("1.5d0", Fraction(3, 2)), ("2d-3", Fraction(2, 1000)), ("1.d3", Fraction(1000)), ("3.0", Fraction(3)), ("4.0e2", Fraction(400)),
        ("2.5d-1", Fraction(1, 4)), ("7", Fraction(7)), ("1.0d-09", Fraction(1, 10**9)), ("3d03", Fraction(3000)), ("1.2d01", Fraction(12)),
        ("1d0", Fraction(1)), ("3d0", Fraction(3)), ("2d0", Fraction(2)), ("4d00", Fraction(4)),
        # literals with many significant digits (fit coefficients, physical constants): every digit reaches the C text
        ("1.0670825d-10", Fraction("1.0670825e-10")), ("3.14159265358979d0", Fraction("3.14159265358979")), ("6.02214076d23", Fraction("6.02214076e23")),
        ("1.380649d-16", Fraction("1.380649e-16")), ("0.28770560d0", Fraction("0.28770560")), ("32.71396786d0", Fraction("32.71396786"))]


def gen(rnd, depth):
    """-> (fortran text, value)"""
    def atom(d):
        k = rnd.random()
        if d <= 0 or k < 0.35:
            if rnd.random() < 0.5:
                t, v = rnd.choice(NUMS)
                return t, v
            n = rnd.choice(list(VARS))
            return n, VARS[n]
        if k < 0.5:
            f = rnd.choice(["exp", "log", "sqrt", "exp", "log", "sqrt", "atan", "tanh", "asin", "cosh", "acos", "sin", "log10", "abs"])
            t, v = expr(d - 1)
            return f"{f}({t})", FUNCS[f](v)
        if k < 0.6:
            return "n(idx_H)", Fraction(29, 5)
        if k < 0.8:
            a, av = atom(d - 1)
            b, bv = atom(d - 1)
            if rnd.random() < 0.5 and all(re.fullmatch(r"[A-Za-z_]\w*|\d+\.?\d*(?:[de][-+]?\d+)?", x) for x in (a, b)):
                return f"{a}**{b}", FUNCS["pow"](av, bv)       # bare operands, as KROME networks write them (x**2, 10**0.37d0)
            return f"({a})**({b})", FUNCS["pow"](av, bv)
        t, v = expr(d - 1)
        return f"({t})", v

    def term(d):
        t, v = atom(d)
        for _ in range(rnd.choice([0, 0, 1, 2])):
            op = rnd.choice("*/")
            t2, v2 = atom(d)
            if op == "/" and v2 == 0:
                continue
            t, v = f"{t}{op}{t2}", (v * v2 if op == "*" else v / v2)
        return t, v

    def expr(d):
        t, v = term(d)
        for _ in range(rnd.choice([0, 0, 1, 2])):
            op = rnd.choice("+-")
            t2, v2 = term(d)
            sp = rnd.choice(["", " "])                          # KROME files write sums with and without blanks
            t, v = f"{t}{sp}{op}{sp}{t2}", (v + v2 if op == "+" else v - v2)
        return t, v
    return expr(depth)


DIRECTED = [
    ("Tgas**2.0d0**3.0d0", FUNCS["pow"](VARS["Tgas"], FUNCS["pow"](Fraction(2), Fraction(3))), "right-assoc-power"),
    ("exp(-2.0d0**2.0d0)", FUNCS["exp"](-FUNCS["pow"](Fraction(2), Fraction(2))), "unary-minus-power"),
    ("1.0d0/(Tgas/3.0d0)", 1 / (VARS["Tgas"] / 3), "nested-quotient"),
    ("user_a/(T32/invT)", VARS["user_a"] / (VARS["T32"] / VARS["invT"]), "nested-quotient"),
    ("(Tgas/1.d3)**0.2d0", FUNCS["pow"](VARS["Tgas"] / 1000, Fraction(1, 5)), "bundled-style-power"),
    ("1.0d-09*Tgas", Fraction(1, 10**9) * VARS["Tgas"], "zero-padded-exponent"),
    ("3d03 + 1.2d01", Fraction(3012), "zero-padded-exponent"),
    # double precision literals with an integer mantissa stay floating point: 1d0/3d0 is one third, not C's integer quotient 0
    ("1d0/3d0*Tgas", Fraction(1, 3) * VARS["Tgas"], "double-literal-quotient"),
    ("Tgas**(1d0/3d0)", FUNCS["pow"](VARS["Tgas"], Fraction(1, 3)), "double-literal-quotient"),
    ("(1d0/2d0)*n(idx_H)", Fraction(1, 2) * Fraction(29, 5), "double-literal-quotient"),
    # a rate that is nothing but a constant
    ("1.0670825d-10", Fraction("1.0670825e-10"), "constant-rate"), ("2.5d-9", Fraction("2.5e-9"), "constant-rate"), ("7.23456789d-17", Fraction("7.23456789e-17"), "constant-rate"),
    ("1.d-9*atan(Tgas/1.d3)", Fraction(1, 10**9) * FUNCS["atan"](VARS["Tgas"] / 1000), "inverse-function"),
    ("asinh(T32)*acosh(Te+2d0)/atanh(invT)", FUNCS["asinh"](VARS["T32"]) * FUNCS["acosh"](VARS["Te"] + 2) / FUNCS["atanh"](VARS["invT"]), "inverse-function"),
    # a sum whose second term is a power with a literal base, written without blanks
    ("Tgas-2**T32", VARS["Tgas"] - FUNCS["pow"](Fraction(2), VARS["T32"]), "sum-of-power-no-blanks"),
    ("T32+1d1**(invT)", VARS["T32"] + FUNCS["pow"](Fraction(10), VARS["invT"]), "sum-of-power-no-blanks"),
    ("1.3d-10*T32-10**0.37d0*invT", Fraction(13, 10**11) * VARS["T32"] - FUNCS["pow"](Fraction(10), Fraction(37, 100)) * VARS["invT"], "sum-of-power-no-blanks"),
    ("user_a*Tgas-3**2", VARS["user_a"] * VARS["Tgas"] - FUNCS["pow"](Fraction(3), Fraction(2)), "sum-of-power-no-blanks"),
]


def translate(exprs):
    """real path: a KROME file whose rates are the expressions -> KROMEReaction.rateexpr()"""
    from naunet.network import Network
    d = tempfile.mkdtemp(prefix="vf_krome_")
    try:
        p = os.path.join(d, "n.krome")
        lines = ["@format:idx,R,P,rate", "@common:user_a"]
        for k, e in enumerate(exprs):
            lines.append(f"{k+1},H,H,{e}")
        open(p, "w").write("\n".join(lines) + "\n")
        fresh_species_state()
        net = Network(filelist=p, fileformats="krome")
        return net
    finally:
        shutil.rmtree(d, ignore_errors=True)


def oracle(tier, seed):
    viol, cases, samples = [], 0, []
    rnd = random.Random(12 + seed)
    n = 150 if tier == "quick" else 2000
    items = [(t, v, "generated") for t, v in (gen(rnd, rnd.choice([1, 2, 3])) for _ in range(n))] + DIRECTED
    # expressions with commas cannot be put in a csv line; the generator does not produce any
    net = None
    try:
        net = translate([t for t, _, _ in items])
    except Exception as e:
        # find the offending expressions one by one
        net = None
    env_idents = dict(VARS)

    def evalc(text):
        return ceval.value(ceval.parse_expr(text), ceval.Env(arrays={"y": lambda i: Fraction(29, 5)}, idents=env_idents,
                                                              ints={"IDX_HI": 0}, funcs=FUNCS))
    for k, (t, v, kind) in enumerate(items):
        cases += 1

        def V(what):
            viol.append({"property": "C12", "expression": t, "what": what,
                         "signature": f"C12:{kind}:{what.split(':')[0]}"})
        try:
            if net is not None:
                c = net.reaction_list[k].rateexpr()
            else:
                c = translate([t]).reaction_list[0].rateexpr()
        except Exception as e:
            if kind == "generated" or kind in ("nested-quotient", "bundled-style-power", "zero-padded-exponent", "double-literal-quotient", "constant-rate", "inverse-function", "sum-of-power-no-blanks"):
                V(f"rejected-grammar-expression: {t!r}: {type(e).__name__}: {str(e)[:100]}")
            continue      # rejected at generation time: allowed for expressions the translator does not accept
        if len(samples) < 5:
            samples.append({"fortran": t, "c": c})
        try:
            got = evalc(c)
        except KeyError as e:
            V(f"undefined-name-in-output: {t!r} -> {c!r}: {e}")
            continue
        except Exception as e:
            V(f"invalid-C-output: {t!r} -> {c!r}: {type(e).__name__}: {e}")
            continue
        if got != v:
            V(f"value-changed: {t!r} -> {c!r}")
    # expressions outside the supported grammar: rejected with an error, or - if accepted - translated with the right value; never
    # silently replaced (the translator object is shared by all KROME reactions, so a supported rate is translated first)
    for t, v in [("exp(-user_a*invT)", FUNCS["exp"](-(VARS["user_a"] * VARS["invT"]))), ("-Tgas + 2.0d0", -VARS["Tgas"] + 2),
                 ("Tgas**(-0.5d0)", FUNCS["pow"](VARS["Tgas"], Fraction(-1, 2))), ("2.0d0*(-T32)", 2 * (-VARS["T32"])),
                 ("exp(-user_a**2.0d0)", FUNCS["exp"](-FUNCS["pow"](VARS["user_a"], Fraction(2)))), ("-T32**2.0d0*Te", -FUNCS["pow"](VARS["T32"], Fraction(2)) * VARS["Te"]),
                 ("Te*(-invT**2.0d0)", VARS["Te"] * (-FUNCS["pow"](VARS["invT"], Fraction(2)))), ("-n(idx_H)**2.0d0", -FUNCS["pow"](Fraction(29, 5), Fraction(2)))]:
        cases += 1
        try:
            netx = translate(["Tgas*2.0d0 + 1.5d0", t])
            first = netx.reaction_list[0].rateexpr()
            c = netx.reaction_list[1].rateexpr()
        except Exception:
            continue          # refused at generation time: allowed
        try:
            got = evalc(c)
        except Exception as e:
            viol.append({"property": "C12", "expression": t, "what": f"invalid-C-output: {t!r} -> {c!r}: {type(e).__name__}: {e}", "signature": "C12:outside-grammar:invalid-C-output"})
            continue
        if got != v:
            viol.append({"property": "C12", "expression": t, "what": f"silently-altered: {t!r} is outside the supported grammar and was neither rejected nor translated: output {c!r}"
                         + (" (the previous reaction's rate)" if c == first else ""), "signature": "C12:outside-grammar:silently-altered"})
    # the emitted statement, not only the expression: long rates survive the line wrapping of the templates (no token is cut)
    longs = [("user_a/exp(Tgas/T32)/sqrt(invT/Te)/(n(idx_H)/nH)/exp(T32/Tgas)/sqrt(Te/invT)/(nH/user_a)/exp(invT/T32)", None),
             ("1.5d0*exp(Tgas/T32)*sqrt(invT/Te)*(n(idx_H)/nH)/exp(T32/Tgas)/sqrt(Te/invT)/(nH/user_a)/(Tgas/1.d3)**(0.2d0)/exp(invT)", None)]
    try:
        from .native_ode import render, statements, strip_comments
        netl = translate([t for t, _ in longs])
        texts = [r.rateexpr() for r in netl.reaction_list]
        files = render(netl, "cvode", "dense", "cpu", jac_pattern=False)
        st = {int(i): rhs for i, rhs in statements(strip_comments(files["src/naunet_rates.cpp"]), r"\bk\[(\d+)\]")}
        for k, text in enumerate(texts):
            cases += 1
            want = evalc(text)
            try:
                got = evalc(" ".join(st[k].split()))
            except Exception as e:
                viol.append({"property": "C12", "expression": longs[k][0], "what": f"emitted-statement-invalid: k[{k}] = {st.get(k, '')[:120]!r}...: {type(e).__name__}: {e}", "signature": "C12:emitted-statement:invalid"})
                continue
            if got != want:
                viol.append({"property": "C12", "expression": longs[k][0], "what": f"emitted-statement-differs: k[{k}] in naunet_rates.cpp evaluates to {got}, the translated expression to {want}", "signature": "C12:emitted-statement:value"})
    except Exception as e:
        viol.append({"property": "C12", "expression": "long rates", "what": f"emitted-statement-check-raises: {type(e).__name__}: {e}", "signature": "C12:emitted-statement:raises"})
    # abundance references must resolve to the species' own macro
    for sp, ref in [("H", "n(idx_H)"), ("H2", "n(idx_H2)"), ("Hj", "n(idx_Hj)"), ("E", "n(idx_E)")]:
        cases += 1
        try:
            from naunet.species import Species
            netx = translate([f"1.0d0*{ref}"])
            c = netx.reaction_list[0].rateexpr()
            m = re.search(r"y\[(IDX_\w+)\]", c)
            fresh_species_state()
            name = {"Hj": "H+", "E": "e-"}.get(sp, sp)
            alias = Species(name).alias
            if not m or m.group(1) != "IDX_" + alias:
                viol.append({"property": "C12", "expression": ref, "what": f"abundance-reference: {ref} -> {c!r}, the species' macro is IDX_{alias}",
                             "signature": f"C12:abundance-reference:{sp}"})
        except Exception as e:
            pass
    fresh_species_state()
    return {"cases": cases, "distinct": cases, "violations": viol, "samples": samples,
            "bound": f"{n} random expressions derivable from the translator's grammar to depth <= 3 (d/e exponents, + - * / **, parentheses, exp/log/sqrt, n(idx_H), @common variable) + 10 directed expressions + 4 abundance references",
            "rule": "each expression is one case; exact rational evaluation with pow/exp/log/sqrt as shared injective functions"}
