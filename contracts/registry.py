"""Property -> what decides it (units under contract, extra obligation groups, covers, bounded native oracle)."""
from __future__ import annotations
from . import native_ode, native_net, native_renorm, native_cfg, native_ids, native_closure, native_krome, rates, templates, conservation, c19, renorm

ODE_UNIT = ("contracts.ode", "prepare_ode_content")

_ode_trusted = [
    "assumed contract of TemplateLoader._assign_rates (element i is `if (win_i) sym[i] = rate_i;`), proved separately for C06",
    "assumed contract of list.index on netinfo.species: Network.species is duplicate free w.r.t. Species.__eq__ and contains every reactant, product and modifier species (C09/C14)",
    "assumed contract of Species.alias on netinfo.species: pairwise distinct, and naunet_macros.h defines IDX_<alias(species[i])> as i (C09, template check)",
    "requires taken from the property quantifier: <= 3 reactants, <= 5 products per reaction, <= 3 dependency species per modifier term; a reaction with products has >= 1 reactant; thermal processes have 1..3 reactants",
    "kerg > 0 and npar > 0 (Boltzmann constant, particle density)",
]

PROPERTIES = {
    "C01": {
        "level": "proof",
        "units": [ODE_UNIT],
        "oracle": native_ode.oracle_for("C01"),
        "extra": [templates.fex_template_items, templates.macros_template_items],
        "trusted_base": _ode_trusted,
        "explanation": "loop invariants and postconditions of _prepare_ode_content: den(fex[i]) == sum_r (cntP-cntR) k_r prod y + modifier terms; thermal equation; unbounded in species/reactions/modifier entries",
    },
    "C02": {
        "level": "proof",
        "units": [ODE_UNIT],
        "oracle": native_ode.oracle_for("C02"),
        "extra": [templates.jacobian_template_items],
        "trusted_base": _ode_trusted + ["bridge L1 (stated definition): sum over occurrences m of slot j of the product of the other occurrences IS d/dy_j of the monomial"],
    },
    "C03": {
        "level": "proof",
        "units": [ODE_UNIT],
        "oracle": native_ode.oracle_for("C03"),
        "extra": [templates.jacobian_template_items, templates.macros_template_items],
        "trusted_base": _ode_trusted,
    },
    "C04": {
        "level": "proof",
        "units": [ODE_UNIT],
        "extra": [conservation.items, templates.fex_template_items],
        "oracle": native_ode.oracle_for("C04"),
        "trusted_base": _ode_trusted + ["bridge L2 (stated): exchange of the finite sums over species and reactions",
                                        "species identity (Species.__eq__/__hash__ is an equivalence with one slot per class) and GetElementAbund are checked only by the bounded native oracle"],
        "contract_files": ["conservation.py"],
    },
    "C05": {
        "level": "proof",
        "units": [("contracts.rates", "gas_rateexpr")],
        "extra": [rates.table_checks],
        "trusted_base": ["laws written from the KIDA / UMIST RATE12 / Walsh 2015 / UCLCHEM documentation (contracts/laws_gas.py)",
                         "exp, pow, sqrt uninterpreted except pow(x,0)==1, exp(0)==1",
                         "requires: Tgas > 0, 0 <= omega < 1, zism > 0; coefficients finite floats"],
        "contract_files": ["rates.py", "laws_gas.py"],
    },
    "C06": {
        "level": "proof",
        "units": [("contracts.rates", "assign_rates")],
        "extra": [rates.lemma_adjacent_windows, templates.rate_array_scan_items],
        "oracle": native_net.oracle("C06"),
        "trusted_base": ["assumed contract of rateexpr (C05/C11): a C expression", "KROME window syntax and k zero-initialisation: see contracts/templates.py"],
        "contract_files": ["rates.py"],
    },
    "C11": {
        "level": "proof",
        "units": [("contracts.grain_rates", "grain_rateexpr")],
        "trusted_base": ["model formulae written from Hasegawa & Herbst 1993 / Hasegawa, Herbst & Leung 1992 / Roberts et al. 2007 (UCLCHEM v1.3) in contracts/grain_rates.py",
                         "exp, pow, sqrt, fmax uninterpreted; all physical parameters used as divisors positive; mass number, binding energy > 0, yield >= 0 symbolic",
                         "eb_<alias> constants are bound to Species.binding_energy by naunet_constants (C10)"],
        "contract_files": ["grain_rates.py", "laws_gas.py"],
    },
    "C13": {
        "level": "proof",
        "units": [ODE_UNIT],
        "oracle": native_ode.oracle_for("C13"),
        "trusted_base": _ode_trusted,
    },
    "C16": {
        "level": "other",
        "units": [("contracts.renorm", "prepare_renorm_content")],
        "extra": [renorm.algebra_items, renorm.template_items],
        "oracle": native_renorm.oracle,
        "explanation": "mixed: (proved, unbounded) the templates decode the flat matrix index to (row, column) and apply each factor to the species' own slot; (proved for bounded sizes, symbolic contents) _prepare_renorm_content executed symbolically for every (elements, species) size up to 2x2 (quick) / 3x2, 2x3 (thorough) with symbolic counts, mass numbers, electron flags: every emitted matrix entry / factor denotes the mass-weighted spec, and from the spec z3 proves the restoration identity and the identity-when-matching lemma for those sizes; (bounded) exact evaluation of the rendered InitRenorm/RenormAbundance/GetElementAbund of both back ends on six small networks with an exact linear solve. The unbounded loop proof needs a sequence-sum model pyvc lacks, hence level other.",
        "trusted_base": ["the linear solve (SUNDIALS dense / uBLAS LU) is external and assumed exact", "requires: positive mass numbers, H > 0; element closure for the identity lemma"],
        "contract_files": ["renorm.py"],
    },
    "C19": {
        "level": "proof",
        "units": [],
        "extra": [c19.handle_error_items, c19.odeint_items],
        "claim": "Naunet::HandleError of the really rendered cvode dense/sparse source is executed symbolically (outer recovery ladder unrolled completely, sub-step loop by an inductive invariant) against an assumed CVode/CVodeReInit contract with a fresh symbolic (flag, reached time) at every call: success implies the state advanced by exactly the requested dt; negative final flags, unrecoverable flags and failing re-initialisation return NAUNET_FAIL; Solve returns that flag and logs the initial state. Odeint: Observer throws beyond the budget, Solve maps the exception to NAUNET_FAIL, Init/Reset store the budget on every successful path.",
        "trusted_base": ["assumed contract of CVode / CVodeReInit / integrate_adaptive (external integrators)", "pow(10, log10 d) == d, pow10 positive and monotone (IEEE rounding outside the claim: 'exactly' is proved in the reals)",
                         "pyvc.cmini front end: comments, value-preserving casts and I/O calls dropped; arrays represented by their generic element (only element-wise copy loops occur)",
                         "cusparse Solve / HandleError: no recovery implemented (TODO in the template), outside the claim; odeint PyWrapSolve drops the flag (Python binding only)"],
        "contract_files": ["c19.py"],
    },
    "C09": {
        "level": "other",
        "units": [],
        "extra": [native_ids.c09_template_items],
        "oracle": native_ids.oracle_c09,
        "explanation": "mixed: (proved, template AST) the C macros, the Python constants module and the Enzo table all enumerate network.species / network.elements in list order with loop.index0, NSPECIES/NELEMENTS are the list lengths, and no other IDX_ definition exists; (bounded) six naming conventions x two back ends rendered and cross-checked: identifiers legal and distinct, macro values a bijection onto 0..NSPECIES-1, python constants and configuration summary agree, two spellings give one slot. Species.alias / Network.species themselves are not under contract yet (regex + table-driven string rewriting); alias legality/injectivity is therefore only bounded.",
    },
    "C08": {
        "level": "other",
        "units": [],
        "oracle": native_ids.oracle_c08,
        "explanation": "bounded stand-in only, as foreseen in DESIGN section 7 (regex tokeniser over a data-dependent pattern list is outside the reach of the contracts): ~10^4 (quick) names generated from a composition over the default and an upper-case-with-replacement element list, prefixes '#' and 'G', labels, counts, charges, grain symbols with group numbers; composition, charge, phase, gas name, rewritten name, is_atom, mass number compared; foreign characters must be rejected. Nothing is counted as proved.",
    },
    "C10": {
        "level": "other",
        "units": [],
        "oracle": native_closure.oracle,
        "explanation": "bounded over input combinations, complete per rendering: for every (format or mixture, grain model, back end) combination of a stated list the sources are rendered by the real TemplateLoader and a name-resolution analysis of the emitted EvalRates*/Fex/Jac/InitRenorm/RenormAbundance bodies checks that every identifier is a local declared earlier exactly once, a NaunetData member, an extern constant that is also defined, a macro, a physics helper, a parameter or a <math.h> function. The per-class registry contract of DESIGN section 5 (C10) is not implemented; g++ is not run (no SUNDIALS/Boost). Nothing is counted as proved.",
    },
    "C12": {
        "level": "other",
        "units": [],
        "oracle": native_krome.oracle,
        "explanation": "bounded stand-in only. The deciding facts (precedence, associativity, what is accepted) live in the Lark Earley parser, an external dependency with no contract that can be checked deductively, and the pre-pass is regex rewriting; per-production contracts on the transformer lambdas would be vacuous without them (DESIGN section 7). 150 (quick) / 2000 (thorough) expressions derived from the translator's own grammar to depth 3 plus directed cases are translated by the real KROMEReaction.rateexpr and compared exactly with an independent Fortran-semantics evaluation. Nothing is counted as proved.",
    },
    "C20": {
        "level": "other",
        "units": [],
        "oracle": native_cfg.oracle_c20,
        "explanation": "bounded stand-in only: five configurations (modifiers given several times, element replacement + binding energies + yields + grain model, custom bulk prefix, allowed/extra species, a separator inside a modifier value) are written by the real `naunet init --render` and rendered through the API in fresh interpreters; naunet_config.toml is compared field by field with the request and the source trees byte by byte. The option-parsing expressions are not yet under contract (split/strip on structured strings); nothing is counted as proved. tomlkit and cleo are external.",
    },
    "C17": {
        "level": "other",
        "units": [],
        "oracle": native_cfg.oracle_c17,
        "explanation": "bounded stand-in only (byte identity is a hyper-property over process histories): three networks rendered in fresh interpreters under several PYTHONHASHSEED values, twice in one process, and after preludes that build/render other networks with different element lists, prefixes, KROME directives and user binding energies; sha256 of include/ src/ python/ compared. The frame (reads/modifies) obligations of DESIGN section 5 are not implemented; nothing is counted as proved.",
    },
    "C07": {
        "level": "other",
        "units": [],
        "oracle": native_net.oracle("C07"),
        "explanation": "bounded stand-in only in this round: lines are encoded from abstract reactions by encoders written from the format descriptions and decoded by the real code (all six formats, full-width names, all codes, blank/comment/directive lines interleaved). The slicing/splitting decoders are not yet under contract (needs slicing of structured strings in pyvc); nothing is counted as proved.",
    },
    "C14": {
        "level": "other",
        "units": [],
        "oracle": native_net.oracle("C14"),
        "explanation": "bounded stand-in only: seeded random edit histories (add/remove by index, list, instance/allowed/required/dedup/reindex) checked after every step against a reference model recomputed from the surviving reactions, plus setter-vs-constructor agreement. The representation invariant is not yet under contract (set-valued fields over Species hashing); nothing is counted as proved.",
    },
    "C15": {
        "level": "other",
        "units": [],
        "oracle": native_net.oracle("C15"),
        "explanation": "bounded stand-in only: random reaction lists with permuted species, window/type-only variants and long runs, four modes, compared with an O(n^2) pairwise reference incl. the removal round trip; nothing is counted as proved.",
    },
    "C18": {
        "level": "other",
        "units": [],
        "oracle": native_net.oracle("C18"),
        "explanation": "bounded stand-in only: networks read from kida/umist/leeds/naunet lines are written in the native format and read back twice; every field compared at the printed precision; nothing is counted as proved.",
    },
}
