"""Property -> what decides it (units under contract, extra obligation groups, covers, bounded native oracle)."""
from __future__ import annotations
from . import native_ode, rates, templates, conservation

ODE_UNIT = ("contracts.ode", "prepare_ode_content")

_ode_trusted = [
    "assumed contract of TemplateLoader._assign_rates (element i is `if (win_i) sym[i] = rate_i;`), proved separately for C06",
    "assumed contract of list.index on netinfo.species: Network.species is duplicate free w.r.t. Species.__eq__ and contains every reactant, product and modifier species (C09/C14)",
    "assumed contract of Species.alias on netinfo.species: pairwise distinct, and naunet_macros.h defines IDX_<alias(species[i])> as i (C09, template check)",
    "requires taken from the property quantifier: <= 3 reactants, <= 5 products per reaction, <= 3 dependency species per modifier term; a reaction with products has >= 1 reactant; thermal processes have 1..3 reactants",
    "kerg > 0 and npar > 0 (Boltzmann constant, particle density)",
]

PROPERTIES = {
    "C01": {
        "level": "proof",
        "units": [ODE_UNIT],
        "oracle": native_ode.oracle_for("C01"),
        "extra": [templates.fex_template_items, templates.macros_template_items],
        "trusted_base": _ode_trusted,
        "explanation": "loop invariants and postconditions of _prepare_ode_content: den(fex[i]) == sum_r (cntP-cntR) k_r prod y + modifier terms; thermal equation; unbounded in species/reactions/modifier entries",
    },
    "C02": {
        "level": "proof",
        "units": [ODE_UNIT],
        "oracle": native_ode.oracle_for("C02"),
        "extra": [templates.jacobian_template_items],
        "trusted_base": _ode_trusted + ["bridge L1 (stated definition): sum over occurrences m of slot j of the product of the other occurrences IS d/dy_j of the monomial"],
    },
    "C03": {
        "level": "proof",
        "units": [ODE_UNIT],
        "oracle": native_ode.oracle_for("C03"),
        "extra": [templates.jacobian_template_items, templates.macros_template_items],
        "trusted_base": _ode_trusted,
    },
    "C04": {
        "level": "proof",
        "units": [ODE_UNIT],
        "extra": [conservation.items, templates.fex_template_items],
        "oracle": native_ode.oracle_for("C04"),
        "trusted_base": _ode_trusted + ["bridge L2 (stated): exchange of the finite sums over species and reactions",
                                        "species identity (Species.__eq__/__hash__ is an equivalence with one slot per class) and GetElementAbund are checked only by the bounded native oracle"],
        "contract_files": ["conservation.py"],
    },
    "C05": {
        "level": "proof",
        "units": [("contracts.rates", "gas_rateexpr")],
        "extra": [rates.table_checks],
        "trusted_base": ["laws written from the KIDA / UMIST RATE12 / Walsh 2015 / UCLCHEM documentation (contracts/laws_gas.py)",
                         "exp, pow, sqrt uninterpreted except pow(x,0)==1, exp(0)==1",
                         "requires: Tgas > 0, 0 <= omega < 1, zism > 0; coefficients finite floats"],
        "contract_files": ["rates.py", "laws_gas.py"],
    },
    "C06": {
        "level": "proof",
        "units": [("contracts.rates", "assign_rates")],
        "extra": [rates.lemma_adjacent_windows, templates.rate_array_scan_items],
        "trusted_base": ["assumed contract of rateexpr (C05/C11): a C expression", "KROME window syntax and k zero-initialisation: see contracts/templates.py"],
        "contract_files": ["rates.py"],
    },
    "C13": {
        "level": "proof",
        "units": [ODE_UNIT],
        "oracle": native_ode.oracle_for("C13"),
        "trusted_base": _ode_trusted,
    },
}
