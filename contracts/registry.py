"""Property -> what decides it (units under contract, extra obligation groups, covers, bounded native oracle)."""
from __future__ import annotations
from . import native_ode

ODE_UNIT = ("contracts.ode", "prepare_ode_content")

_ode_trusted = [
    "assumed contract of TemplateLoader._assign_rates (element i is `if (win_i) sym[i] = rate_i;`), proved separately for C06",
    "assumed contract of list.index on netinfo.species: Network.species is duplicate free w.r.t. Species.__eq__ and contains every reactant, product and modifier species (C09/C14)",
    "assumed contract of Species.alias on netinfo.species: pairwise distinct, and naunet_macros.h defines IDX_<alias(species[i])> as i (C09, template check)",
    "requires taken from the property quantifier: <= 3 reactants, <= 5 products per reaction, <= 3 dependency species per modifier term; a reaction with products has >= 1 reactant; thermal processes have 1..3 reactants",
    "kerg > 0 and npar > 0 (Boltzmann constant, particle density)",
]

PROPERTIES = {
    "C01": {
        "level": "proof",
        "units": [ODE_UNIT],
        "oracle": native_ode.oracle_for("C01"),
        "trusted_base": _ode_trusted,
        "explanation": "loop invariants and postconditions of _prepare_ode_content: den(fex[i]) == sum_r (cntP-cntR) k_r prod y + modifier terms; thermal equation; unbounded in species/reactions/modifier entries",
    },
    "C02": {
        "level": "proof",
        "units": [ODE_UNIT],
        "oracle": native_ode.oracle_for("C02"),
        "trusted_base": _ode_trusted + ["bridge L1 (stated definition): sum over occurrences m of slot j of the product of the other occurrences IS d/dy_j of the monomial"],
    },
    "C03": {
        "level": "proof",
        "units": [ODE_UNIT],
        "oracle": native_ode.oracle_for("C03"),
        "trusted_base": _ode_trusted,
    },
    "C13": {
        "level": "proof",
        "units": [ODE_UNIT],
        "oracle": native_ode.oracle_for("C13"),
        "trusted_base": _ode_trusted,
    },
}
