"""Property -> what decides it (units under contract, extra obligation groups, covers, bounded native oracle)."""
from __future__ import annotations
from . import native_ode, native_net, native_renorm, native_cfg, native_ids, native_closure, native_krome, native_rates, native_grain, netinv, frame, rates, templates, conservation, c19, renorm

ODE_UNIT = ("contracts.ode", "prepare_ode_content")


def _both(f, g):
    """two bounded oracles run one after the other; cases and violations are added up"""
    def oracle(tier, seed):
        a, b = f(tier, seed), g(tier, seed)
        return {"cases": a.get("cases", 0) + b.get("cases", 0), "distinct": a.get("distinct", a.get("cases", 0)) + b.get("distinct", b.get("cases", 0)),
                "violations": list(a.get("violations", [])) + list(b.get("violations", [])), "samples": list(a.get("samples", []))[:3] + list(b.get("samples", []))[:2],
                "bound": a.get("bound", "") + " | " + b.get("bound", ""), "rule": a.get("rule", "") + " | " + b.get("rule", "")}
    return oracle

_ode_trusted = [
    "assumed contract of TemplateLoader._assign_rates (element i is `if (win_i) sym[i] = rate_i;`), proved separately for C06",
    "assumed contract of list.index on netinfo.species: Network.species is duplicate free w.r.t. Species.__eq__ and contains every reactant, product and modifier species (C09/C14)",
    "assumed contract of Species.alias on netinfo.species: pairwise distinct, and naunet_macros.h defines IDX_<alias(species[i])> as i (C09, template check)",
    "requires taken from the property quantifier: <= 3 reactants, <= 5 products per reaction, <= 3 dependency species per modifier term; a reaction with products has >= 1 reactant; thermal processes have 1..3 reactants",
    "kerg > 0 and npar > 0 (Boltzmann constant, particle density)",
]

PROPERTIES = {
    "C01": {
        "level": "proof",
        "units": [ODE_UNIT, ("contracts.identity", "species_eq_hash")],
        "oracle": _both(native_ode.oracle_for("C01"), native_ids.oracle_alias_distinct("C01")),
        "extra": [frame.state_frame_items, frame.shared_default_items, frame.ownership_items, templates.fex_template_items, templates.macros_template_items, templates.numdens_items, templates.comment_glue_items, templates.stmwrap_items],
        "trusted_base": _ode_trusted,
        "explanation": "loop invariants and postconditions of _prepare_ode_content: den(fex[i]) == sum_r (cntP-cntR) k_r prod y + modifier terms; thermal equation; unbounded in species/reactions/modifier entries. The particle density of the temperature equation is under contract as well: npar is bound to GetNumDens of the state vector in every back end, and the rendered GetNumDens (mini C front end, summation loop cut at a partial-sum invariant, symbolic NSPECIES) returns the sum of the NSPECIES species abundances, not of all NEQUATIONS slots. Frame obligations: a reaction owns its species lists (no aliasing of caller lists), no class-level mutable object is used as instance state, statement emitters of the templates never start inside a // comment, and the statement wrapper keeps long words whole (assumed contract of textwrap.wrap with break_long_words=False) and rewrites nothing but the indentation of a closing brace",
    },
    "C02": {
        "level": "proof",
        "units": [ODE_UNIT, ("contracts.identity", "species_eq_hash")],
        "oracle": _both(native_ode.oracle_for("C02"), native_ids.oracle_alias_distinct("C02")),
        "extra": [frame.state_frame_items, frame.shared_default_items, templates.jacobian_template_items, templates.driver_alloc_items, templates.comment_glue_items, templates.stmwrap_items],
        "trusted_base": _ode_trusted + ["bridge L1 (stated definition): sum over occurrences m of slot j of the product of the other occurrences IS d/dy_j of the monomial"],
    },
    "C03": {
        "level": "proof",
        "units": [ODE_UNIT, ("contracts.identity", "species_eq_hash")],
        "oracle": _both(native_ode.oracle_for("C03"), native_ids.oracle_alias_distinct("C03")),
        "extra": [frame.state_frame_items, frame.shared_default_items, templates.jacobian_template_items, templates.macros_template_items, templates.driver_alloc_items],
        "trusted_base": _ode_trusted,
    },
    "C04": {
        "level": "proof",
        "units": [ODE_UNIT, ("contracts.identity", "species_eq_hash"), ("contracts.speciesname", "species_name_properties"), ("contracts.fileloop", "network_entry_points")],
        "extra": [frame.state_frame_items, frame.shared_default_items, frame.ownership_items, conservation.items, templates.fex_template_items],
        "oracle": _both(native_ode.oracle_for("C04"), native_ids.oracle_alias_distinct("C04")),
        "trusted_base": _ode_trusted + ["bridge L2 (stated): exchange of the finite sums over species and reactions",
                                        "species identity: Species.__eq__ is an equivalence with consistent __hash__ (unit species_eq_hash, under the parse invariant W1-W4); one slot per class and GetElementAbund are checked only by the bounded native oracle"],
        "contract_files": ["conservation.py", "identity.py", "speciesname.py", "frame.py"],
    },
    "C05": {
        "level": "proof",
        "units": [("contracts.rates", "gas_rateexpr")],
        "extra": [rates.table_checks, templates.comment_glue_items, frame.state_frame_items, frame.shared_default_items],
        "oracle": native_rates.oracle,
        "trusted_base": ["laws written from the KIDA / UMIST RATE12 / Walsh 2015 / UCLCHEM documentation (contracts/laws_gas.py)",
                         "exp, pow, sqrt uninterpreted except pow(x,0)==1, exp(0)==1",
                         "requires: Tgas > 0, 0 <= omega < 1, zism > 0; coefficients finite floats"],
        "contract_files": ["rates.py", "laws_gas.py"],
    },
    "C06": {
        "level": "proof",
        "units": [("contracts.rates", "assign_rates"), ("contracts.dupes", "find_duplicate_reaction"), ("contracts.identity", "reaction_eq_hash"), ("contracts.decoders", "naunet_roundtrip"), ("contracts.decoders", "decode_krome")],
        "extra": [rates.lemma_adjacent_windows, templates.rate_array_scan_items, templates.guard_operand_items, frame.state_frame_items, frame.shared_default_items],
        "oracle": native_net.oracle("C06"),
        "trusted_base": ["assumed contract of rateexpr (C05/C11): a C expression", "KROME window syntax and k zero-initialisation: see contracts/templates.py"],
        "contract_files": ["rates.py", "dupes.py", "identity.py", "decoders.py"],
    },
    "C11": {
        "level": "proof",
        "units": [("contracts.grain_rates", "grain_rateexpr"), ("contracts.grain_rates", "species_data_getters"), ("contracts.cfgparse", "user_tables_update"), ("contracts.speciesdata", "species_massnumber")],
        "extra": [templates.constants_template_items, frame.state_frame_items, frame.shared_default_items],
        "claim": "Grain.rateexpr and the 15 per-process builders of HH93Grain / HH93IGrain / RR07Grain / RR07XGrain are executed symbolically through the reactions' own rateexpr with symbolic coefficient, mass numbers, binding energies and yield: the emitted text types as C and denotes the model formula for every implemented (model, process, species pair) case; requests a model does not implement raise. Species.binding_energy / photon_yield getters return the first non-zero of (own value, user table, RATE12 table) and modify neither the species nor the tables (so later user overrides are honoured). Template obligation: the per-species binding-energy constant is emitted verbatim (str(float)) for every surface species. A bounded native oracle re-evaluates every case with real species data before and after user overrides and reads the rendered constants back.",
        "oracle": native_grain.oracle,
        "trusted_base": ["model formulae written from Hasegawa & Herbst 1993 / Hasegawa, Herbst & Leung 1992 / Roberts et al. 2007 (UCLCHEM v1.3) in contracts/grain_rates.py",
                         "exp, pow, sqrt, fmax uninterpreted; all physical parameters used as divisors positive; mass number, binding energy > 0, yield >= 0 symbolic",
                         "eb_<alias> constants are bound to Species.binding_energy by naunet_constants (C10)"],
        "contract_files": ["grain_rates.py", "laws_gas.py"],
    },
    "C13": {
        "extra": [frame.state_frame_items, frame.shared_default_items],
        "level": "proof",
        "units": [ODE_UNIT, ("contracts.cfgparse", "init_option_parsing"), ("contracts.cfgparse", "render_plumbing"), ("contracts.cfgparse", "config_assembly")],
        "contract_files": ["ode.py", "cfgparse.py"],
        "oracle": _both(native_ode.oracle_for("C13"), native_cfg.oracle_c13_cli),
        "trusted_base": _ode_trusted,
    },
    "C16": {
        "level": "other",
        "units": [("contracts.renorm", "prepare_renorm_content"), ("contracts.speciesdata", "species_add_element_count"), ("contracts.speciesdata", "species_massnumber")],
        "extra": [renorm.algebra_items, renorm.template_items, renorm.driver_items, renorm.hnuclei_items, frame.state_frame_items, frame.shared_default_items],
        "contract_files": ["renorm.py", "speciesdata.py"],
        "oracle": native_renorm.oracle,
        "explanation": "mixed: (proved, unbounded) the templates decode the flat matrix index to (row, column) and apply each factor to the species' own slot; (proved for bounded sizes, symbolic contents) _prepare_renorm_content executed symbolically for every (elements, species) size up to 2x2 (quick) / 3x2, 2x3 (thorough) with symbolic counts, mass numbers, electron flags: every emitted matrix entry / factor denotes the mass-weighted spec, and from the spec z3 proves the restoration identity and the identity-when-matching lemma for those sizes; (bounded) exact evaluation of the rendered InitRenorm/RenormAbundance/GetElementAbund of both back ends on six small networks with an exact linear solve. GetHNuclei of the rendered physics source (preprocessed with the rendered macros, H and D both elements) returns GetElementAbund(y, IDX_ELEM_H) and nothing else. The unbounded loop proof needs a sequence-sum model pyvc lacks, hence level other.",
        "trusted_base": ["the linear solve (SUNDIALS dense / uBLAS LU) is external and assumed exact", "requires: positive mass numbers, H > 0; element closure for the identity lemma"],
        "contract_files": ["renorm.py"],
    },
    "C19": {
        "level": "proof",
        "units": [],
        "extra": [c19.handle_error_items, c19.odeint_items, templates.driver_alloc_items],
        "claim": "Naunet::HandleError of the really rendered cvode dense/sparse source is executed symbolically (outer recovery ladder unrolled completely, sub-step loop by an inductive invariant) against an assumed CVode/CVodeReInit contract with a fresh symbolic (flag, reached time) at every call: success implies the state advanced by exactly the requested dt; negative final flags, unrecoverable flags and failing re-initialisation return NAUNET_FAIL; Solve returns that flag and logs the initial state. The integrator has its own state in the model (copied from the user's array at a successful CVodeReInit, written back by CVode; a failing CVodeReInit changes nothing), CheckFlag's option argument is modelled, and a failing re-initialisation is a failure. Odeint: Observer throws beyond the budget, Solve maps the exception to NAUNET_FAIL, Init/Reset store the budget on every successful path.",
        "trusted_base": ["assumed contract of CVode / CVodeReInit / integrate_adaptive (external integrators)", "pow(10, log10 d) == d, pow10 positive and monotone (IEEE rounding outside the claim: 'exactly' is proved in the reals)",
                         "pyvc.cmini front end: comments, value-preserving casts and I/O calls dropped; arrays represented by their generic element (only element-wise copy loops occur)",
                         "cusparse Solve / HandleError: no recovery implemented (TODO in the template), outside the claim; odeint PyWrapSolve drops the flag (Python binding only)"],
        "contract_files": ["c19.py"],
    },
    "C09": {
        "level": "other",
        "units": [("contracts.identity", "species_eq_hash"), ("contracts.speciesname", "species_name_properties"), ("contracts.speciesname", "species_alias_shape")],
        "contract_files": ["identity.py", "speciesname.py"],
        "extra": [native_ids.c09_template_items, frame.state_frame_items, frame.shared_default_items],
        "oracle": native_ids.oracle_c09,
        "explanation": "mixed: (proved, template AST) the C macros, the Python constants module and the Enzo table all enumerate network.species / network.elements in list order with loop.index0, NSPECIES/NELEMENTS are the list lengths, and no other IDX_ definition exists; (bounded) six naming conventions x two back ends rendered and cross-checked: identifiers legal and distinct, macro values a bijection onto 0..NSPECIES-1, python constants and configuration summary agree, two spellings give one slot. PROVED (pyvc, structured names): Species.alias has the shape phase letter + case-normalised core + charge suffix (the normalisation never touches the suffix or the phase letter), Species.charge / basename / gasname are the trailing sign run / the core / the name without prefix; ENZO_NSPECIES counts |network U code-base species| - 1 (arithmetic VC over the template expression). Alias legality / injectivity over whole networks and Network.species ordering stay bounded.",
    },
    "C08": {
        "level": "other",
        "units": [("contracts.speciesdata", "species_add_element_count"), ("contracts.speciesdata", "species_massnumber"), ("contracts.speciesname", "species_name_properties")],
        "extra": [frame.table_setter_items, frame.state_frame_items, frame.shared_default_items],
        "oracle": native_ids.oracle_c08,
        "contract_files": ["speciesdata.py", "speciesname.py", "frame.py"],
        "trusted_base": ["nucleon numbers of H, D, C, O, Si (1, 2, 12, 16, 28) written independently of the package's tables"],
        "explanation": "mixed, mostly bounded. PROVED (pyvc, symbolic counts): Species._add_element_count accumulates every occurrence of an element symbol, ignores pseudo elements, records the surface / grain group and refuses a repeated prefix, changing nothing else; Species.massnumber is the sum of count x nucleons over the composition (isotopes included, cached). PROVED (pyvc, structured names [prefix group] core [run of k signs], models of the two regular expressions used): charge is +-k / 0 (a hyphen inside the core is no charge), basename is the core, gasname drops the prefix only. Frame: the element-table setters never receive the live table. BOUNDED, as foreseen in DESIGN section 7 (regex tokeniser over a data-dependent pattern list is outside the reach of the contracts): ~10^4 (quick) names generated from a composition over the default and an upper-case-with-replacement element list, prefixes '#' and 'G', labels, counts, charges, grain symbols with group numbers; composition, charge, phase, gas name, rewritten name, is_atom, mass number compared; foreign characters must be rejected. The bounded parts are not counted as proved.",
    },
    "C10": {
        "extra": [frame.state_frame_items, frame.shared_default_items],
        "level": "other",
        "units": [("contracts.fileloop", "network_file_loop")],
        "contract_files": ["fileloop.py"],
        "oracle": native_closure.oracle,
        "explanation": "mostly bounded. PROVED (pyvc): the per-file directive state of the KROME reader (@format/@common/@var, which become declared parameters and variables of the generated sources) is back at its defaults before every file is read, whatever an earlier or failed load left behind. BOUNDED over input combinations, complete per rendering: for every (format or mixture, grain model, back end) combination of a stated list the sources are rendered by the real TemplateLoader and a name-resolution analysis of the emitted EvalRates*/Fex/Jac/InitRenorm/RenormAbundance bodies checks that every identifier is a local declared earlier exactly once, a NaunetData member, an extern constant that is also defined, a macro, a physics helper, a parameter or a <math.h> function. The per-class registry contract of DESIGN section 5 (C10) is not implemented; g++ is not run (no SUNDIALS/Boost). The bounded parts are not counted as proved.",
    },
    "C12": {
        "extra": [frame.state_frame_items, frame.shared_default_items],
        "level": "other",
        "units": [],
        "oracle": native_krome.oracle,
        "explanation": "bounded stand-in only. The deciding facts (precedence, associativity, what is accepted) live in the Lark Earley parser, an external dependency with no contract that can be checked deductively, and the pre-pass is regex rewriting; per-production contracts on the transformer lambdas would be vacuous without them (DESIGN section 7). 150 (quick) / 2000 (thorough) expressions derived from the translator's own grammar to depth 3 plus directed cases are translated by the real KROMEReaction.rateexpr and compared exactly with an independent Fortran-semantics evaluation. Nothing is counted as proved.",
    },
    "C20": {
        "extra": [frame.state_frame_items, frame.shared_default_items],
        "level": "other",
        "units": [("contracts.cfgparse", "init_option_parsing"), ("contracts.cfgparse", "render_plumbing"), ("contracts.cfgparse", "config_assembly"), ("contracts.cfgparse", "user_tables_update")],
        "oracle": native_cfg.oracle_c20,
        "trusted_base": ["cleo (option look-up, questions) and tomlkit (TOML assembly / parsing) are external: replaced by assumed contracts at InitCommand.option / TOMLFile.read",
                         "abstract words: non-empty, no blanks at the ends, none of , : = ; [ ] and not containing 'null' (requires of the option grammar)",
                         "lists of up to 3 entries, tables of up to 2, 1-2 occurrences of the repeatable options (bounded shapes, symbolic contents)"],
        "contract_files": ["cfgparse.py"],
        "explanation": "mixed. PROVED (pyvc, symbolic option texts of bounded shape): InitCommand.handle parses every list / key:value / key=number / scalar / rate-modifier / ode-modifier option into exactly the configured value and passes it to the BaseConfiguration argument it belongs to, all other arguments untouched; RenderCommand.handle passes every field of the project file (opaque values) to the Network / TemplateLoader argument and species table it is meant for, and installs the element tables and replacements before any species name is parsed. PROVED (opaque values, fixed shapes, tomlkit abstracted to plain tables): BaseConfiguration.content puts every constructor argument at its place in the document - all together and each one alone - and every rate-modifier index keeps its own value; update_binding_energy / update_photon_yield / update_enthalpy: the later registration wins, other keys and tables untouched; frame: what a module named under `loads` registered in the user tables is still in force when the network is built. BOUNDED: the TOML text itself (tomlkit), the file round trip and the CLI-vs-API comparison of rendered sources on five configurations in fresh interpreters. KNOWN FINDING: values containing the separators are outside the option grammar.",
    },
    "C17": {
        "extra": [frame.state_frame_items, frame.shared_default_items],
        "level": "other",
        "units": [("contracts.fileloop", "network_file_loop"), ("contracts.fileloop", "network_entry_points"), ("contracts.cfgparse", "render_plumbing"), ("contracts.cfgparse", "user_tables_update")],
        "oracle": native_cfg.oracle_c17,
        "trusted_base": ["assumed contract of Network._add_reaction (C14 unit) and of open()/readlines()", "per-file state of a reaction class = KROMEReaction.reacformat/_user_commons/_user_vars (property anchors)"],
        "contract_files": ["fileloop.py", "cfgparse.py"],
        "explanation": "mixed, mostly bounded (byte identity is a hyper-property over process histories). PROVED (pyvc, files of any length, every supported format, dirty class state left by an earlier or failed load): the element tables in force when Network.add_reaction_from_file reads its file (and when add_reaction / the setters / where_species parse a name) are the network's own - stated over abstract process-wide tables with an arbitrary content at entry (another network's, or partly the same), so a partial comparison fails and a correct short-cut does not -, the per-file KROME directive state is back at its defaults, and every line is parsed exactly once in order. BOUNDED: three networks rendered in fresh interpreters under several PYTHONHASHSEED values, twice in one process, and after preludes that build/render other networks with different element lists, prefixes, KROME directives, user binding energies, and a KROME load that fails half-way; sha256 of include/ src/ python/ compared. KNOWN FINDINGS: networks without element tables inherit another network's tables; user binding energies are process-global.",
    },
    "C07": {
        "level": "other",
        "extra": [frame.state_frame_items, frame.shared_default_items],
        "units": [("contracts.decoders", "decode_kida"), ("contracts.decoders", "decode_umist"), ("contracts.decoders", "decode_leeds"), ("contracts.decoders", "decode_uclchem"), ("contracts.decoders", "decode_krome"), ("contracts.decoders", "naunet_roundtrip"), ("contracts.fileloop", "network_file_loop"), ("contracts.fileloop", "reaction_factory"), ("contracts.fileloop", "network_entry_points")],
        "oracle": native_net.oracle("C07"),
        "trusted_base": ["spec encoders written from the format descriptions (KIDA 3x11+1 / 5x11+1 columns, RATE12 colon fields, Walsh widths 5,30,50,8,9,10,5,5,3, native comma layout)",
                         "well-formedness: names are non-empty, contain no blank/separator, are none of the marker tokens, fit their column (KIDA <= 10 of 11, Leeds <= 9 of 10 characters), Leeds names do not contain 'YC'",
                         "Species(name) is abstract (C08)"],
        "contract_files": ["decoders.py", "fileloop.py"],
        "explanation": "mixed. PROVED (pyvc, files of any length): Network.add_reaction_from_file hands every line to _add_reaction exactly once, in order, with the requested format. PROVED (pyvc, structured strings): the real KIDAReaction/UMISTReaction/LEEDSReaction/UCLCHEMReaction/KROMEReaction._parse_string (KROME: default column layout, temperature cells in 14 concrete spellings) and the native Reaction._parse_string return exactly the abstract reaction a spec-encoded line was built from - for every reactant/product occupancy, every formula/code/type, symbolic names of symbolic length up to the column limit, symbolic numerals that may fill their column; slice boundaries inside a name, fused fields and wrong columns fail an obligation. PROVED (structured strings with white-space holes): _reaction_factory gives no reaction for a line of white space only (any mixture, all six formats) and hands a visible line to the format's class exactly once. BOUNDED: KROME column layouts set by @format directives, comment/directive handling and file order - lines are encoded from abstract reactions by encoders written from the format descriptions and decoded by the real code (all six formats, full-width names, all codes, blank/comment/directive lines interleaved). KROME layouts other than the default one are not under contract; the bounded parts are not counted as proved.",
    },
    "C14": {
        "level": "other",
        "units": [("contracts.netinv", "network_add_reaction"), ("contracts.netinv", "network_remove_reaction"), ("contracts.netinv", "network_find_source_sink"), ("contracts.identity", "species_eq_hash"), ("contracts.identity", "reaction_eq_hash"), ("contracts.fileloop", "network_entry_points")],
        "extra": [frame.state_frame_items, frame.shared_default_items, frame.assigns_items, netinv.lemma_items],
        "oracle": native_net.oracle("C14"),
        "trusted_base": ["Species.__eq__/__hash__ form an equivalence with consistent hash (species are abstract objects with a class id)", "<= 3 reactants, <= 5 products per reaction",
                         "Reaction.__eq__ between abstract reactions is an uninterpreted reflexive relation in the removal unit (its properties are proved in identity.py)",
                         "engine rule: set(sp for r in L for sp in r.reactants) == RSET(L, |L|) (definitional: RSET is the union over the list of the members' reactant classes); list.pop(k) modelled as a z3 lambda array (elements after k move down)"],
        "contract_files": ["netinv.py", "identity.py"],
        "explanation": "mixed. PROVED (pyvc): Network._add_reaction preserves the representation invariant (_reactants/_products are the unions over the held list, defined recursively; frame lemma by induction), appends exactly to the held or to the skipped list according to the allowed set, and returns exactly the new classes (membership tests on the skipped list are modelled, so a conditional append fails the postcondition); the required-species setter stores exactly the named species whatever the network holds; find_source_sink returns the two set differences and changes nothing. PROVED (pyvc, held lists of any length): Network.remove_reaction with an integer position of either sign (out of range raises IndexError and changes nothing; otherwise the held list is the old one without that position, order kept) with a Reaction instance, with a list of integer positions of any length (repeats, any order) and with a list of Reaction instances of any length (the three filter comprehensions executed as loops under contract with ghost source positions: what remains is exactly the sub-sequence of held reactions that are not named by the argument - do not compare equal to it / sit at no listed position / compare equal to no listed reaction -, in order, each once; an empty list names nothing), any other argument type is refused with TypeError and nothing changed; in every case the skipped list is untouched and both caches are the unions over the reactions that are LEFT (the nested generator `sp for r in list for sp in r.reactants` is the recursive spec function RSET by definition). Assigns clauses (AST scan): remove_reaction / _add_reaction / find_duplicate_reaction / find_source_sink / where_reaction / where_species write only the attributes of their clause (in particular never the modifier tables) and call no unlisted method of self. BOUNDED: allowed/required setters, de-duplication, re-indexing and whole histories - seeded random edit histories (add/remove by index, list, instance/allowed/required/dedup/reindex) checked after every step against a reference model recomputed from the surviving reactions, plus setter-vs-constructor agreement. The allowed-species setter (re-filtering held and skipped reactions) is not under contract; the bounded parts are not counted as proved.",
    },
    "C15": {
        "level": "other",
        "extra": [frame.state_frame_items, frame.shared_default_items],
        "units": [("contracts.dupes", "find_duplicate_reaction"), ("contracts.identity", "reaction_eq_hash"), ("contracts.identity", "species_eq_hash")],
        "oracle": native_net.oracle("C15"),
        "trusted_base": ["class-keyed dict model (pyvc/dictmodel.py): a dict whose keys compare by an equivalence with consistent hash is a map from classes; insertion order kept",
                         "representation invariant of a parsed Species (W1-W4 in contracts/identity.py): checked on generated names by the bounded oracles of C08/C09 only",
                         "hash() is an uninterpreted function per argument sort (congruence only)",
                         "at most 3 reactants / 5 products per reaction (property quantifier)"],
        "contract_files": ["dupes.py", "identity.py"],
        "explanation": "mixed. PROVED (pyvc, reaction lists of any length): Network.find_duplicate_reaction for modes None/brief/minimal/short reports exactly the indices whose key class occurred earlier, strictly increasing, with the matching reactions, and `first` lists the first member of every repeated class once, in order of first occurrence; the reaction list is not modified. PROVED: Reaction.rpeq is multiset equality of reactant and product classes (order never matters, multiplicity does); Reaction.__eq__ is rpeq + equal window + equal-or-UNKNOWN type, reflexive, symmetric, transitive on typed reactions; Reaction.__hash__ is consistent with it; Species.__eq__ is an equivalence and Species.__hash__ is consistent with it under the stated representation invariant. BOUNDED: that the formatted strings of the 'minimal'/'short' modes identify the intended classes, the removal round trip, and all of the above natively on random reaction lists against an O(n^2) pairwise reference. KNOWN FINDING: the UNKNOWN-type wildcard makes the default-mode relation non-transitive.",
    },
    "C18": {
        "extra": [frame.state_frame_items, frame.shared_default_items],
        "level": "other",
        "units": [("contracts.decoders", "naunet_roundtrip")],
        "oracle": native_net.oracle("C18"),
        "trusted_base": ["format(x, '10.3e') / '9.2f' are numerals whose value is an uninterpreted rounding of x", "species lists are name-sorted (the writer sorts; the round trip preserves multisets)", "names fit the 12-character column"],
        "contract_files": ["decoders.py"],
        "explanation": "mixed. PROVED (pyvc): the real Reaction.__format__('naunet') executed on symbolic fields followed by the real Reaction._parse_string returns the same names (0-3 reactants, 0-5 products), index, type code, source tag, and alpha/beta/gamma/window equal to the printed (rounded) values - the field width of a numeral is a minimum (both the fitting and the longer case are paths), sorted() is the identity on the name-sorted species lists only. BOUNDED: whole-network write/read cycles incl. the second cycle and species order; export law preservation is not checked (DESIGN D10) - networks read from kida/umist/leeds/naunet lines are written in the native format and read back twice; every field compared at the printed precision; the bounded parts are not counted as proved.",
    },
}

# frame (assigns-clause) obligations shared by the properties that depend on them
for _p in ("C01", "C02", "C03", "C04", "C06", "C09", "C10", "C13", "C16", "C17"):
    PROPERTIES[_p]["extra"] = list(PROPERTIES[_p].get("extra", [])) + [frame.loader_assigns_items]
for _p in ("C13", "C15", "C17"):
    PROPERTIES[_p]["extra"] = list(PROPERTIES[_p].get("extra", [])) + [frame.assigns_items]
