"""Contracts for naunet.templateloader.TemplateLoader._prepare_ode_content  (C01 C02 C03 C04 C13)
and its callee contract for _assign_rates (C06 is proved on _assign_rates itself in contracts/rates.py).

Abstract model of the arguments (all sizes unbounded unless stated):
  netinfo.species    list of n_spec Species; element i has id i; aliases pairwise distinct (C09) and
                     `#define IDX_<alias(species[i])> i` (naunet_macros.h.j2 contract, checked in templates.py)
  netinfo.reactions  list of n_reac Reaction; reaction q has nr(q) <= 3 reactants, np(q) <= 5 products
                     (bounds taken from the property's quantifier; loops over them are unrolled completely)
  species.index(x)   = slot(x): Network.species is duplicate free and contains every reactant/product (C14/C09)
Spec functions are defined from the property statements, not from the code."""
from __future__ import annotations
import z3
from pyvc.context import VerifContext, LoopSpec
from pyvc.sym import (Sym, SInt, SReal, SBool, SStr, SList, FList, SObj, SDict, Lit, Hole, Unsupported, Codec,
                      ObjCodec, CodeCodec, IntCodec)
from pyvc.ops import term_of, wrap_term
from pyvc import cfrag
from pyvc.cfrag import ufun, StrId, CTypeError

I, R, B = z3.IntSort(), z3.RealSort(), z3.BoolSort()
Q = "TemplateLoader._prepare_ode_content"

MAXR, MAXP, MAXD = 3, 5, 3

# ---------------------------------------------------------------- abstract data of the arguments
n_spec = z3.Int("n_spec")
n_reac = z3.Int("n_reac")
n_heat = z3.Int("n_heat")
n_cool = z3.Int("n_cool")
n_mod = z3.Int("n_ratemod")
n_omod = z3.Int("n_odemod")
nr = z3.Function("nr", I, I)            # number of reactants of reaction q
np_ = z3.Function("np", I, I)
aR = z3.Function("aR", I, I, I)         # slot of reactant m of reaction q
aP = z3.Function("aP", I, I, I)
idxf = z3.Function("idxfromfile", I, I)
nhr = z3.Function("nhr", I, I)          # heating process reactants
aH = z3.Function("aH", I, I, I)
ncr = z3.Function("ncr", I, I)
aC = z3.Function("aC", I, I, I)
mkey = z3.Function("ratemod_key", I, I)
mval = z3.Function("ratemod_val", I, StrId)
om_slot = z3.Function("odemod_slot", I, I)        # slot of the species named by ode-modifier entry j
om_nf = z3.Function("odemod_nterms", I, I)        # number of (factor, deps) terms of entry j
om_fact = z3.Function("odemod_fact", I, I, StrId)
om_nd = z3.Function("odemod_ndeps", I, I, I)
om_dep = z3.Function("odemod_dep", I, I, I, I)    # slot of dependency m of term f of entry j
alias_of = z3.Function("alias_of", I, StrId)

# C denotation symbols (names are those cfrag generates for the emitted text)
Kk = ufun("arr:k", I, R)
Kh = ufun("arr:kh", I, R)
Kc = ufun("arr:kc", I, R)
Y = ufun("arr:y", I, R)
User = ufun("user", StrId, R)
c_gamma, c_kerg, c_npar = cfrag.cconst("gamma"), cfrag.cconst("kerg"), cfrag.cconst("npar")
IDX_TGAS = z3.Int("m:IDX_TGAS")


def prod_Y(n, slot_of, maxn, skip=None):
    """product of Y(slot m) for m < n (n symbolic, bounded by maxn), optionally leaving out occurrence `skip`;
    empty product = 1"""
    res = z3.RealVal(1)
    for m in range(maxn):
        if m == skip:
            continue
        res = z3.If(n > m, res * Y(slot_of(m)), res)
    return res


def sum_where(n, slot_of, i, maxn, term):
    """sum over occurrences m < n with slot_of(m) == i of term(m)   (written with the case split outside the
    monomials: the solver sees linear combinations of a few fixed monomials)"""
    return z3.Sum([z3.If(z3.And(n > m, slot_of(m) == i), term(m), z3.RealVal(0)) for m in range(maxn)])


def M(q):
    return prod_Y(nr(q), lambda m: aR(q, m), MAXR)


def KdM(q, j):
    """k_q * d/dY(j) of the reactant product: one term per occurrence of slot j among the reactants, each the
    product of the *other* occurrences (this is the partial derivative of a monomial, bridge lemma L1)"""
    return sum_where(nr(q), lambda m: aR(q, m), j, MAXR, lambda m: Kk(q) * prod_Y(nr(q), lambda m2: aR(q, m2), MAXR, skip=m))


def contrib(q, i):
    """mass action: (occurrences among products - occurrences among reactants) * k_q * prod reactant abundances"""
    T = Kk(q) * M(q)
    return sum_where(np_(q), lambda m: aP(q, m), i, MAXP, lambda m: T) - sum_where(nr(q), lambda m: aR(q, m), i, MAXR, lambda m: T)


def dcontrib(q, i, j):
    D = KdM(q, j)
    return sum_where(np_(q), lambda m: aP(q, m), i, MAXP, lambda m: D) - sum_where(nr(q), lambda m: aR(q, m), i, MAXR, lambda m: D)


S = z3.Function("S", I, I, R)            # S(rl, i)  = sum_{q<rl} contrib(q, i)
J = z3.Function("J", I, I, I, R)         # J(rl,i,j) = sum_{q<rl} dcontrib(q, i, j)
touched = z3.Function("touched", I, I, I, B)   # touched(rl,i,j): some q<rl appended a term to jac entry (i,j)


def om_term(j, f, i):
    return z3.If(i == om_slot(j), User(om_fact(j, f)) * prod_Y(om_nd(j, f), lambda m: om_dep(j, f, m), MAXD), z3.RealVal(0))


def dom_term(j, f, i, jj):
    d = sum_where(om_nd(j, f), lambda m: om_dep(j, f, m), jj, MAXD,
                  lambda m: User(om_fact(j, f)) * prod_Y(om_nd(j, f), lambda m2: om_dep(j, f, m2), MAXD, skip=m))
    return z3.If(i == om_slot(j), d, z3.RealVal(0))


OM2 = z3.Function("OM2", I, I, I, R)       # OM2(j,F,i)   = sum_{f<F} om_term(j,f,i)
OM1 = z3.Function("OM1", I, I, R)          # OM1(Jn,i)    = sum_{j<Jn} OM2(j, om_nf(j), i)
DOM2 = z3.Function("DOM2", I, I, I, I, R)
DOM1 = z3.Function("DOM1", I, I, I, R)
HS = z3.Function("HS", I, R)               # sum_{h<H} kh[h] * prod
DHS = z3.Function("DHS", I, I, R)
CS = z3.Function("CS", I, R)
DCS = z3.Function("DCS", I, I, R)
LM = z3.Function("lastmatch", I, I, I)
NZ = z3.Function("nz", I, B)               # nz(t): jacrhs[t] is not the literal "0.0"
CNT = z3.Function("cnt", I, I)             # number of nz positions before t     # LM(i, Jn): last rate-modifier entry j < Jn with key == idxfromfile(i), else -1


def heat_term(h):
    return Kh(h) * prod_Y(nhr(h), lambda m: aH(h, m), MAXR)


def dheat_term(h, j):
    return sum_where(nhr(h), lambda m: aH(h, m), j, MAXR, lambda m: Kh(h) * prod_Y(nhr(h), lambda m2: aH(h, m2), MAXR, skip=m))


def cool_term(c):
    return Kc(c) * prod_Y(ncr(c), lambda m: aC(c, m), MAXR)


def dcool_term(c, j):
    return sum_where(ncr(c), lambda m: aC(c, m), j, MAXR, lambda m: Kc(c) * prod_Y(ncr(c), lambda m2: aC(c, m2), MAXR, skip=m))


CONTRIB = z3.Function("contrib", I, I, R)
DCONTRIB = z3.Function("dcontrib", I, I, I, R)
OMT = z3.Function("om_term", I, I, I, R)
DOMT = z3.Function("dom_term", I, I, I, I, R)
HT = z3.Function("heat_term", I, R)
DHT = z3.Function("dheat_term", I, I, R)
CT = z3.Function("cool_term", I, R)
DCT = z3.Function("dcool_term", I, I, R)


def make_defs():
    """definitions of the spec functions (predecessor form)"""
    from pyvc.smt import Defs
    D = Defs()
    zero = z3.RealVal(0)
    D.define(CONTRIB, lambda a, b: contrib(a, b))
    D.define(DCONTRIB, lambda a, b, c: dcontrib(a, b, c))
    D.define(OMT, lambda a, b, c: om_term(a, b, c))
    D.define(DOMT, lambda a, b, c, d: dom_term(a, b, c, d))
    D.define(HT, lambda a: heat_term(a))
    D.define(DHT, lambda a, b: dheat_term(a, b))
    D.define(CT, lambda a: cool_term(a))
    D.define(DCT, lambda a, b: dcool_term(a, b))
    D.define(S, lambda a, b: z3.If(a <= 0, zero, S(a - 1, b) + CONTRIB(a - 1, b)), True)
    D.define(J, lambda a, b, c: z3.If(a <= 0, zero, J(a - 1, b, c) + DCONTRIB(a - 1, b, c)), True)
    D.define(OM2, lambda a, c, b: z3.If(c <= 0, zero, OM2(a, c - 1, b) + OMT(a, c - 1, b)), True)
    D.define(OM1, lambda a, b: z3.If(a <= 0, zero, OM1(a - 1, b) + OM2(a - 1, om_nf(a - 1), b)), True)
    D.define(DOM2, lambda a, c, b, d: z3.If(c <= 0, zero, DOM2(a, c - 1, b, d) + DOMT(a, c - 1, b, d)), True)
    D.define(DOM1, lambda a, b, d: z3.If(a <= 0, zero, DOM1(a - 1, b, d) + DOM2(a - 1, om_nf(a - 1), b, d)), True)
    D.define(HS, lambda a: z3.If(a <= 0, zero, HS(a - 1) + HT(a - 1)), True)
    D.define(DHS, lambda a, b: z3.If(a <= 0, zero, DHS(a - 1, b) + DHT(a - 1, b)), True)
    D.define(CS, lambda a: z3.If(a <= 0, zero, CS(a - 1) + CT(a - 1)), True)
    D.define(DCS, lambda a, b: z3.If(a <= 0, zero, DCS(a - 1, b) + DCT(a - 1, b)), True)
    D.define(LM, lambda a, b: z3.If(b <= 0, z3.IntVal(-1), z3.If(mkey(b - 1) == idxf(a), b - 1, LM(a, b - 1))), True)
    return D


# ---------------------------------------------------------------- rate statement codec
class RateStmtCodec(Codec):
    """a statement that (conditionally) assigns one element of the rate array `arr`:
    (target index, assigned value, guard)"""

    def __init__(self, arr):
        self.arr = arr
        self.name = f"ratestmt:{arr}"
        self.sorts = (I, R, B)

    def enc(self, interp, v):
        if isinstance(v, SStr) and len(v.segs) == 1 and isinstance(v.segs[0], Hole) and v.segs[0].kind == "code" \
                and v.segs[0].nt == "RateStmt":
            return v.segs[0].den
        stmts = cfrag.parse_stmts(v)
        if len(stmts) != 1:
            raise CTypeError(f"expected one statement, got {len(stmts)}")
        st = stmts[0]
        guard = z3.BoolVal(True)
        if isinstance(st, cfrag.IfStmt):
            if len(st.body) != 1 or not isinstance(st.body[0], cfrag.Assign):
                raise CTypeError("guarded rate statement must contain exactly one assignment")
            guard, st = st.cond, st.body[0]
        if not isinstance(st, cfrag.Assign) or st.arr != self.arr or st.index is None:
            raise CTypeError(f"statement does not assign {self.arr}[...]")
        return (st.index, st.value, guard)

    def dec(self, interp, terms):
        return SStr([Hole("code", nt="RateStmt", den=tuple(terms), minlen=8)])


RateExpr = {"k": z3.Function("rate_k", I, R), "kh": z3.Function("rate_kh", I, R), "kc": z3.Function("rate_kc", I, R)}
RateWin = {"k": z3.Function("win_k", I, B), "kh": z3.Function("win_kh", I, B), "kc": z3.Function("win_kc", I, B)}


def lam(sort_fn):
    i = z3.Int("li")
    return z3.Lambda([i], sort_fn(i))


class OdeCtx(VerifContext):
    """context for symbolic execution of _prepare_ode_content"""

    def __init__(self, props=(), thermal=None):
        super().__init__(props)
        self.thermal = thermal
        self.defs = make_defs()
        self.axioms = self.defs.axioms()
        self.spec_defined = {"S", "J", "OM1", "OM2", "DOM1", "DOM2", "HS", "DHS", "CS", "DCS", "lastmatch", "cnt",
                             "contrib", "dcontrib", "om_term", "dom_term", "heat_term", "dheat_term", "cool_term",
                             "dcool_term"}
        self.spec_names.update(
            S=lambda a, b: wrap_term(S(term_of(a), term_of(b))),
            J=lambda a, b, c: wrap_term(J(term_of(a), term_of(b), term_of(c))),
            OM1=lambda a, b: wrap_term(OM1(term_of(a), term_of(b))),
            OM2=lambda a, b, c: wrap_term(OM2(term_of(a), term_of(b), term_of(c))),
            DOM1=lambda a, b, c: wrap_term(DOM1(term_of(a), term_of(b), term_of(c))),
            DOM2=lambda a, b, c, d: wrap_term(DOM2(term_of(a), term_of(b), term_of(c), term_of(d))),
            HS=lambda a: wrap_term(HS(term_of(a))), CS=lambda a: wrap_term(CS(term_of(a))),
            DHS=lambda a, b: wrap_term(DHS(term_of(a), term_of(b))),
            DCS=lambda a, b: wrap_term(DCS(term_of(a), term_of(b))),
            LM=lambda a, b: wrap_term(LM(term_of(a), term_of(b))),
            N_SPEC=SInt(n_spec), N_REAC=SInt(n_reac), N_MOD=SInt(n_mod), N_OMOD=SInt(n_omod),
            N_HEAT=SInt(n_heat), N_COOL=SInt(n_cool),
            stmt_target=self._stmt_part(0), stmt_value=self._stmt_part(1), stmt_guard=self._stmt_part(2),
            rate_orig=lambda sym, i: wrap_term(RateExpr[sym](term_of(i))),
            win_orig=lambda sym, i: wrap_term(RateWin[sym](term_of(i))),
            user_val=lambda j: wrap_term(User(mval(term_of(j)))),
            om_nf=lambda j: wrap_term(om_nf(term_of(j))),
            cnt=lambda t: wrap_term(CNT(term_of(t))),
            thermal_wrap=lambda x: wrap_term((c_gamma - 1) * term_of(x) / c_kerg / c_npar),
        )
        self.call_contracts["naunet.templateloader.TemplateLoader._assign_rates"] = self.c_assign_rates
        self.call_contracts["naunet.species.Species"] = self.c_species_ctor
        for v, t in [("spjacrptr", "list[int]"), ("spjaccval", "list[int]"), ("spjacdata", "list[code:Sum]")]:
            self.var_types[(Q, v)] = t
        self.install_loop_specs()

    def _stmt_part(self, k):
        def f(lst, i):
            return wrap_term(z3.Select(lst.arrays[k], term_of(i)))
        return f

    # ------------------------------------------------------------ object model
    def obj_getattr(self, interp, obj, name):
        c, q = obj.cls, obj.id
        if c == "NetworkInfo":
            if name == "species":
                return SList(ObjCodec("Species"), (lam(lambda i: i),), n_spec)
            if name == "reactions":
                return SList(ObjCodec("Reaction"), (lam(lambda i: i),), n_reac)
            if name == "heating":
                return SList(ObjCodec("Heating"), (lam(lambda i: i),), n_heat)
            if name == "cooling":
                return SList(ObjCodec("Cooling"), (lam(lambda i: i),), n_cool)
            if name == "grains":
                return SObj("GrainList", z3.IntVal(0))
        if c == "Species" and name == "alias":
            slot = obj.fields.get("slot", q)
            return SStr([Hole("ident", val=alias_of(slot), extra={"slot": slot})])
        if c == "Reaction":
            if name in ("reactants", "products"):
                n, a, mx = (nr, aR, MAXR) if name == "reactants" else (np_, aP, MAXP)
                interp.assume(z3.And(n(q) >= 0, n(q) <= mx))
                # requires (from the property's quantifier): a reaction with products has >= 1 real reactant
                interp.assume(z3.Or(nr(q) >= 1, np_(q) == 0))
                for m in range(mx):
                    interp.assume(z3.And(a(q, m) >= 0, a(q, m) < n_spec))
                m = z3.Int("rm")
                return FList(n(q), m, SObj("Species", z3.IntVal(-1), {"slot": a(q, m)}))
            if name == "idxfromfile":
                return SInt(idxf(q))
        if c in ("Heating", "Cooling") and name == "reactants":
            n, a = (nhr, aH) if c == "Heating" else (ncr, aC)
            # requires: a thermal process has 1..3 reactants (all processes of naunet.thermalprocess have >= 2)
            interp.assume(z3.And(n(q) >= 1, n(q) <= MAXR))
            for m in range(MAXR):
                interp.assume(z3.And(a(q, m) >= 0, a(q, m) < n_spec))
            m = z3.Int("rm")
            return FList(n(q), m, SObj("Species", z3.IntVal(-1), {"slot": a(q, m)}))
        if c == "OdeModEntry":
            raise Unsupported("attribute of ode modifier entry")
        raise Unsupported(f"attribute {c}.{name} not modelled")

    def obj_getitem(self, interp, obj, idx):
        if obj.cls == "OdeModEntry" and idx in ("factors", "reactants"):
            j = obj.id
            interp.assume(om_nf(j) >= 0)
            f = z3.Int("of")
            if idx == "factors":
                return FList(om_nf(j), f, SStr([Hole("user", val=om_fact(j, f))]))
            m = z3.Int("od")
            inner = FList(om_nd(j, f), m, SObj("SpeciesName", z3.IntVal(-1), {"slot": om_dep(j, f, m), "j": j}))
            return FList(om_nf(j), f, inner)
        raise Unsupported(f"subscript {obj.cls}[{idx!r}]")

    def obj_truth(self, obj):
        return True

    def slist_index(self, interp, lst, x):
        if isinstance(lst.codec, ObjCodec) and lst.codec.cls == "Species" and isinstance(x, SObj) and x.cls == "Species":
            # contract of list.index under Network.species' postconditions (duplicate free w.r.t. Species.__eq__,
            # contains every reactant / product / modifier species): the unique slot of x's class
            slot = x.fields.get("slot", x.id)
            return wrap_term(slot)
        raise Unsupported("list.index on this symbolic list")

    def c_species_ctor(self, interp, args, kwargs):
        name = args[0]
        if isinstance(name, SObj) and name.cls == "SpeciesName":
            slot = name.fields["slot"]
            interp.assume(z3.And(slot >= 0, slot < n_spec))   # requires: modifier species belong to the network
            return SObj("Species", z3.IntVal(-1), {"slot": slot})
        if isinstance(name, str):
            from naunet.species import Species
            return interp.native(Species, args, kwargs)
        raise Unsupported("Species() of this symbolic name")

    def c_assign_rates(self, interp, args, kwargs):
        """assumed contract of _assign_rates (proved on its own in contracts/rates.py, C06):
        element i is `if (win(i)) sym[i] = rate(i);`"""
        slf, sym, reactions = args[0], args[1], args[2]
        if not isinstance(sym, str) or sym not in RateExpr:
            raise Unsupported("rate symbol")
        n = reactions.length if isinstance(reactions, (SList, FList)) else z3.IntVal(len(reactions))
        return SList(RateStmtCodec(sym), (lam(lambda i: i), lam(lambda i: RateExpr[sym](i)), lam(lambda i: RateWin[sym](i))), n)

    def on_assign(self, interp, env, name, v):
        fn = env.func.__qualname__ if env.func else None
        if fn == Q and name == "n_eqns" and isinstance(v, SInt):
            c = interp.fresh("n_eqns", I)
            interp.assume(c == v.t)
            interp.assume(c >= 1)     # max(..., 1)
            interp.strides = [c]
            return SInt(c)
        return super().on_assign(interp, env, name, v)

    def length_bound(self, interp, n):
        # requires (property quantifier): an ODE-modifier term lists at most MAXD dependency species
        if z3.is_app(n) and n.decl().name() == "odemod_ndeps":
            j, f = n.arg(0), n.arg(1)
            interp.assume(z3.And(n >= 0, n <= MAXD))
            for m in range(MAXD):
                interp.assume(z3.And(om_dep(j, f, m) >= 0, om_dep(j, f, m) < n_spec))

    def prefer_flist(self, interp, e, env, view):
        # lists whose length is bounded by a small constant on this path are expanded (complete)
        from pyvc.loops import MAX_FORK_LEN
        self.length_bound(interp, view.length)
        return interp.feas.feasible(view.length > MAX_FORK_LEN)

    def fresh_custom(self, interp, name, v, spec, env):
        if isinstance(v, (str, SStr, list, FList, tuple)) or v is None or isinstance(v, SObj):
            return v   # loop-local temporaries: re-assigned in every iteration before use
        return super().fresh_custom(interp, name, v, spec, env)

    # ------------------------------------------------------------ loop contracts
    def install_loop_specs(self):
        L = self.loop_specs
        C01, C02, C03, C13 = ("C01", "C04"), ("C02",), ("C03",), ("C13",)
        shape = [("length(rhs) == n_eqns and length(jacrhs) == n_eqns * n_eqns", ()),
                 ("n_eqns >= 1 and n_spec == N_SPEC and n_eqns >= n_spec and n_eqns <= n_spec + 1", ())]
        L[(Q, "idx, reac")] = LoopSpec("ratemod/reactions", "_i", [
            ("length(rateeqns) == N_REAC", ()),
            ("forall(lambda i: implies(0 <= i and i < N_REAC, stmt_target(rateeqns, i) == i))", C13 + C03 + C01),
            ("forall(lambda i: implies(0 <= i and i < _i and LM(i, N_MOD) >= 0, stmt_value(rateeqns, i) == user_val(LM(i, N_MOD)) and stmt_guard(rateeqns, i)))", C13),
            ("forall(lambda i: implies((0 <= i and i < _i and LM(i, N_MOD) < 0) or (_i <= i and i < N_REAC), stmt_value(rateeqns, i) == rate_orig('k', i) and stmt_guard(rateeqns, i) == win_orig('k', i)))", C13),
        ])
        L[(Q, "key, value")] = LoopSpec("ratemod/keys", "_j", [
            ("length(rateeqns) == N_REAC", ()),
            ("forall(lambda i: implies(0 <= i and i < N_REAC, stmt_target(rateeqns, i) == i))", C13 + C03 + C01),
            ("forall(lambda i: implies(0 <= i and i < idx and LM(i, N_MOD) >= 0, stmt_value(rateeqns, i) == user_val(LM(i, N_MOD)) and stmt_guard(rateeqns, i)))", C13),
            ("forall(lambda i: implies((0 <= i and i < idx and LM(i, N_MOD) < 0) or (idx < i and i < N_REAC), stmt_value(rateeqns, i) == rate_orig('k', i) and stmt_guard(rateeqns, i) == win_orig('k', i)))", C13),
            ("implies(LM(idx, _j) >= 0, stmt_value(rateeqns, idx) == user_val(LM(idx, _j)) and stmt_guard(rateeqns, idx))", C13),
            ("implies(LM(idx, _j) < 0, stmt_value(rateeqns, idx) == rate_orig('k', idx) and stmt_guard(rateeqns, idx) == win_orig('k', idx))", C13),
        ])
        zero_tail = [
            ("forall(lambda i: implies(n_spec <= i and i < n_eqns, den(rhs, i) == 0))", C01),
            ("forall(lambda i, j: implies(0 <= i and i < n_eqns and 0 <= j and j < n_eqns and (i >= n_spec or j >= n_spec), den(jacrhs, i * n_eqns + j) == 0 and is00(jacrhs, i * n_eqns + j)))", C02),
        ]
        zero_ok = ("forall(lambda t: implies(0 <= t and t < n_eqns * n_eqns and is00(jacrhs, t), den(jacrhs, t) == 0))", C02 + C03)
        L[(Q, "rl, react")] = LoopSpec("ode/reactions", "_rl", shape + [
            ("forall(lambda i: implies(0 <= i and i < n_spec, den(rhs, i) == S(_rl, i)))", C01),
            ("forall(lambda i, j: implies(0 <= i and i < n_spec and 0 <= j and j < n_spec, den(jacrhs, i * n_eqns + j) == J(_rl, i, j)))", C02),
            zero_ok] + zero_tail)
        # ODE modifiers (C13: adds, to the named species only, factor * product of the listed abundances)
        L[(Q, "sname, expr")] = LoopSpec("odemod/entries", "_m", shape + [
            ("forall(lambda i: implies(0 <= i and i < n_spec, den(rhs, i) == S(N_REAC, i) + OM1(_m, i)))", C01 + C13),
            ("forall(lambda i, j: implies(0 <= i and i < n_spec and 0 <= j and j < n_spec, den(jacrhs, i * n_eqns + j) == J(N_REAC, i, j) + DOM1(_m, i, j)))", C02 + C13),
            zero_ok] + zero_tail)
        L[(Q, "fact, dep")] = LoopSpec("odemod/terms", "_f", shape + [
            ("forall(lambda i: implies(0 <= i and i < n_spec, den(rhs, i) == S(N_REAC, i) + OM1(_m, i) + OM2(_m, _f, i)))", C01 + C13),
            ("forall(lambda i, j: implies(0 <= i and i < n_spec and 0 <= j and j < n_spec, den(jacrhs, i * n_eqns + j) == J(N_REAC, i, j) + DOM1(_m, i, j) + DOM2(_m, _f, i, j)))", C02 + C13),
            zero_ok] + zero_tail)
        species_rows = [
            ("forall(lambda i: implies(0 <= i and i < n_spec, den(rhs, i) == S(N_REAC, i) + OM1(N_OMOD, i)))", C01 + C13),
            ("forall(lambda i, j: implies(0 <= i and i < n_spec and 0 <= j and j < n_spec, den(jacrhs, i * n_eqns + j) == J(N_REAC, i, j) + DOM1(N_OMOD, i, j)))", C02 + C13),
            zero_ok,
            ("forall(lambda i: implies(has_thermal and 0 <= i and i < n_eqns, den(jacrhs, i * n_eqns + n_spec) == 0 and is00(jacrhs, i * n_eqns + n_spec)))", C02),
            ("implies(has_thermal, n_eqns == n_spec + 1)", ()),
        ]
        L[(Q, "hidx, h")] = LoopSpec("thermal/heating", "_h", shape + species_rows + [
            ("implies(has_thermal, den(rhs, n_spec) == HS(_h))", C01),
            ("forall(lambda j: implies(has_thermal and 0 <= j and j < n_spec, den(jacrhs, n_spec * n_eqns + j) == DHS(_h, j)))", C02),
        ])
        L[(Q, "cidx, c")] = LoopSpec("thermal/cooling", "_c", shape + species_rows + [
            ("implies(has_thermal, den(rhs, n_spec) == HS(N_HEAT) - CS(_c))", C01),
            ("forall(lambda j: implies(has_thermal and 0 <= j and j < n_spec, den(jacrhs, n_spec * n_eqns + j) == DHS(N_HEAT, j) - DCS(_c, j)))", C02),
        ])
        L[(Q, "si")] = LoopSpec("thermal/jacwrap", "_s", shape + species_rows + [
            ("den(rhs, n_spec) == thermal_wrap(HS(N_HEAT) - CS(N_COOL))", C01),
            ("forall(lambda j: implies(0 <= j and j < _s, den(jacrhs, n_spec * n_eqns + j) == thermal_wrap(DHS(N_HEAT, j) - DCS(N_COOL, j))))", C02),
            ("forall(lambda j: implies(_s <= j and j < n_spec, den(jacrhs, n_spec * n_eqns + j) == DHS(N_HEAT, j) - DCS(N_COOL, j)))", C02),
        ])
        # CSR construction (C03).  Ghost state (appended alongside the real lists by statement hooks):
        #   src[p]  flat position t = row*n_eqns+col of stored entry p,  srow[p] its row
        #   cnt(t)  number of non-"0.0" entries of jacrhs before flat position t  (spec function)
        def csr(front):
            return [(c.replace("FRONT", front), pr) for c, pr in [
                ("nnz == length(spjaccval) and nnz == length(spjacdata) and nnz == length(src) and nnz == length(srow) and nnz >= 0", C03),
                ("forall(lambda r: implies(0 <= r and r < length(spjacrptr), spjacrptr[r] == cnt(r * n_eqns) and 0 <= spjacrptr[r] and spjacrptr[r] <= nnz))", C03),
                ("forall(lambda p: implies(0 <= p and p < nnz, 0 <= src[p] and src[p] < FRONT and not is00(jacrhs, src[p]) and cnt(src[p]) == p))", C03),
                ("forall(lambda p: implies(0 <= p and p < nnz, srow[p] * n_eqns + spjaccval[p] == src[p] and 0 <= spjaccval[p] and spjaccval[p] < n_eqns and 0 <= srow[p] and srow[p] < length(spjacrptr)))", C03),
                ("forall(lambda p: implies(0 <= p and p < nnz, den(spjacdata, p) == den(jacrhs, src[p]) and not is00(spjacdata, p)))", C03),
                ("forall(lambda p, q: implies(0 <= p and p < q and q < nnz, src[p] < src[q]))", C03),
                ("forall(lambda p, r: implies(0 <= p and p < nnz and 0 <= r and r < length(spjacrptr), (spjacrptr[r] <= p) == (r <= srow[p])))", C03),
                ("forall(lambda r1, r2: implies(0 <= r1 and r1 <= r2 and r2 < length(spjacrptr), spjacrptr[r1] <= spjacrptr[r2]))", C03),
                ("forall(lambda t: implies(0 <= t and t < FRONT and not is00(jacrhs, t), 0 <= cnt(t) and cnt(t) < nnz and src[cnt(t)] == t))", C03),
            ]]
        L[(Q, "row")] = LoopSpec("csr/rows", "_r", [
            ("length(jacrhs) == n_eqns * n_eqns and n_eqns >= 1", ()),
            ("length(spjacrptr) == _r", C03),
            ("nnz == cnt(_r * n_eqns)", C03),
        ] + csr("(_r * n_eqns)"), modifies=("src", "srow"))
        L[(Q, "col")] = LoopSpec("csr/cols", "_c", [
            ("length(jacrhs) == n_eqns * n_eqns and n_eqns >= 1", ()),
            ("length(spjacrptr) == row + 1", C03),
            ("nnz == cnt(row * n_eqns + _c)", C03),
        ] + csr("(row * n_eqns + _c)"), modifies=("src", "srow"))
        self.return_hooks[Q] = self.post
        self.stmt_hooks[(Q, "nnz = 0")] = self.h_csr_start
        self.stmt_hooks[(Q, "spjaccval.append(col)")] = self.h_csr_append

    # ------------------------------------------------------------ postconditions (from the property statements)
    POST = [
        # C13 / C06: rate statements
        ("rate/targets", ("C13", "C03", "C01"), "forall(lambda i: implies(0 <= i and i < N_REAC, stmt_target(result.rateeqns, i) == i))"),
        ("rate/overridden", ("C13",), "forall(lambda i: implies(0 <= i and i < N_REAC and LM(i, N_MOD) >= 0, stmt_value(result.rateeqns, i) == user_val(LM(i, N_MOD)) and stmt_guard(result.rateeqns, i)))"),
        ("rate/untouched", ("C13",), "forall(lambda i: implies(0 <= i and i < N_REAC and LM(i, N_MOD) < 0, stmt_value(result.rateeqns, i) == rate_orig('k', i) and stmt_guard(result.rateeqns, i) == win_orig('k', i)))"),
        ("rate/length", ("C13", "C03"), "length(result.rateeqns) == N_REAC and length(result.hrateeqns) == N_HEAT and length(result.crateeqns) == N_COOL"),
        # C02: Jacobian entries (flat row-major layout row*nrow+col)
        ("jac/shape", ("C02", "C03"), "result.jac.nrow == n_eqns and length(result.jac.rhs) == n_eqns * n_eqns and n_eqns == ite(N_SPEC + ite(has_thermal, 1, 0) > 1, N_SPEC + ite(has_thermal, 1, 0), 1)"),
        ("jac/species-entries", ("C02",), "forall(lambda i, j: implies(0 <= i and i < N_SPEC and 0 <= j and j < N_SPEC, den(result.jac.rhs, i * n_eqns + j) == J(N_REAC, i, j) + DOM1(N_OMOD, i, j)))"),
        ("jac/thermal-row", ("C02",), "forall(lambda j: implies(has_thermal and 0 <= j and j < N_SPEC, den(result.jac.rhs, N_SPEC * n_eqns + j) == thermal_wrap(DHS(N_HEAT, j) - DCS(N_COOL, j))))"),
        ("jac/omitted-are-zero", ("C02", "C03"), "forall(lambda t: implies(0 <= t and t < n_eqns * n_eqns and is00(result.jac.rhs, t), den(result.jac.rhs, t) == 0))"),
        # C03: CSR well-formedness, as lemmas over the abstract view (src/srow/cnt)
        ("csr/sizes", ("C03",), "length(result.jac.rows) == n_eqns + 1 and result.jac.nnz == length(result.jac.cols) and result.jac.nnz == length(result.jac.vals) and result.jac.nnz >= 0"),
        ("csr/rows-start-at-0", ("C03",), "result.jac.rows[0] == 0"),
        ("csr/rows-nondecreasing", ("C03",), "forall(lambda r: implies(0 <= r and r < n_eqns, result.jac.rows[r] <= result.jac.rows[r + 1]))"),
        ("csr/rows-end-at-nnz", ("C03",), "result.jac.rows[n_eqns] == result.jac.nnz"),
        ("csr/cols-in-range", ("C03",), "forall(lambda p: implies(0 <= p and p < result.jac.nnz, 0 <= result.jac.cols[p] and result.jac.cols[p] < n_eqns))"),
        ("csr/cols-increasing-in-row", ("C03",), "forall(lambda r, p, q: implies(0 <= r and r < n_eqns and result.jac.rows[r] <= p and p < q and q < result.jac.rows[r + 1], result.jac.cols[p] < result.jac.cols[q]))"),
        ("csr/entry-is-dense-entry", ("C03",), "forall(lambda r, p: implies(0 <= r and r < n_eqns and result.jac.rows[r] <= p and p < result.jac.rows[r + 1], not is00(result.jac.rhs, r * n_eqns + result.jac.cols[p]) and den(result.jac.vals, p) == den(result.jac.rhs, r * n_eqns + result.jac.cols[p])))"),
        ("csr/every-nonzero-stored", ("C03",), "forall(lambda r, c: implies(0 <= r and r < n_eqns and 0 <= c and c < n_eqns and not is00(result.jac.rhs, r * n_eqns + c), result.jac.rows[r] <= cnt(r * n_eqns + c) and cnt(r * n_eqns + c) < result.jac.rows[r + 1] and result.jac.cols[cnt(r * n_eqns + c)] == c))"),
    ]

    def post(self, interp, env, value):
        for name, props, clause in self.POST:
            interp.prove(interp.spec_eval(clause, env, {"result": value}), "post/" + name, props, detail=clause)
        self.post_fex(interp, env, value)

    def post_fex(self, interp, env, value):
        """C01: every element of result.fex is `ydot[slot] = <mass action + modifiers>;` (thermal: the
        temperature equation)"""
        fex = value.fex
        has_thermal = env.lookup("has_thermal")
        props = ("C01", "C04", "C13")
        if not isinstance(fex, FList):
            interp.fail("post/fex/shape", props, f"fex is {type(fex).__name__}")
            return
        interp.prove(fex.length == n_spec + (1 if has_thermal else 0), "post/fex/length", props)
        k = fex.ivar
        try:
            st = cfrag.parse_stmts(fex.template)
        except CTypeError as e:
            interp.fail("post/fex/typing", props, f"{fex.template!r}: {e}")
            return
        ok = len(st) == 1 and isinstance(st[0], cfrag.Assign) and st[0].arr == "ydot" and st[0].index is not None
        if not ok:
            interp.fail("post/fex/statement-shape", props, f"{fex.template!r}")
            return
        rng = z3.And(k >= 0, k < n_spec)
        interp.prove(z3.ForAll([k], z3.Implies(rng, st[0].index == k)), "post/fex/lhs-slot", props)
        interp.prove(z3.ForAll([k], z3.Implies(rng, st[0].value == S(n_reac, k) + OM1(n_omod, k))), "post/fex/mass-action", props)
        if has_thermal:
            ov = [(i, v) for i, v in fex.overlay]
            if len(ov) != 1:
                interp.fail("post/fex/thermal-shape", ("C01",), f"{len(ov)} overlay entries")
                return
            pos, val = ov[0]
            try:
                st = cfrag.parse_stmts(val)
            except CTypeError as e:
                interp.fail("post/fex/typing", ("C01",), f"{val!r}: {e}")
                return
            ok = len(st) == 1 and isinstance(st[0], cfrag.Assign) and st[0].arr == "ydot" and st[0].index is not None
            if not ok:
                interp.fail("post/fex/statement-shape", ("C01",), f"{val!r}")
                return
            interp.prove(z3.And(pos == n_spec, st[0].index == n_spec), "post/fex/thermal-slot", ("C01",))
            interp.prove(st[0].value == (c_gamma - 1) * (HS(n_heat) - CS(n_cool)) / c_kerg / c_npar,
                         "post/fex/thermal-equation", ("C01",))
        elif fex.overlay:
            interp.fail("post/fex/unexpected-overlay", ("C01",), "extra equation without thermal processes")

    # ------------------------------------------------------------ ghost code
    def h_csr_start(self, interp, env):
        jr = env.lookup("jacrhs")
        arr = jr.arrays[1]
        self.defs.define(NZ, lambda t, arr=arr: z3.Not(z3.Select(arr, t)))
        self.defs.define(CNT, lambda t: z3.If(t <= 0, z3.IntVal(0), CNT(t - 1) + z3.If(NZ(t - 1), 1, 0)), True)
        env.set("src", self.to_slist(interp, [], IntCodec()))
        env.set("srow", self.to_slist(interp, [], IntCodec()))

    def h_csr_append(self, interp, env):
        from pyvc import models
        row, col, n = env.lookup("row"), env.lookup("col"), env.lookup("n_eqns")
        models.slist_method(interp, env.lookup("src"), "append", [row * n + col], {})
        models.slist_method(interp, env.lookup("srow"), "append", [row], {})


# ---------------------------------------------------------------- unit: whole function
def make_ctx(props=()):
    return OdeCtx(props)


def entry(it):
    import naunet.templateloader as tlm
    fn = tlm.TemplateLoader._prepare_ode_content
    slf = object.__new__(tlm.TemplateLoader)
    netinfo = SObj("NetworkInfo", z3.IntVal(0))
    # requires
    # (kerg is Boltzmann's constant; npar = GetNumDens(y) > 0 for a positive abundance vector)
    for t in (n_spec >= 0, n_reac >= 1, n_heat >= 0, n_cool >= 0, n_mod >= 0, n_omod >= 0, IDX_TGAS == n_spec,
              c_kerg > 0, c_npar > 0):
        it.assume(t)
    rm = SDict(lambda ip, k: SInt(mkey(k)), lambda ip, k: SStr([Hole("user", val=mval(k))]), n_mod)
    om = SDict(lambda ip, k: SObj("SpeciesName", z3.IntVal(-1), {"slot": om_slot(k)}),
               lambda ip, k: SObj("OdeModEntry", k), n_omod)
    res = it.call_function(fn, [slf, netinfo, {}, rm, om], {})
    post(it, res)


def post(it, res):
    pass


def _register():
    from pyvc.units import Unit, register
    import naunet.templateloader as tlm
    register(Unit("prepare_ode_content", __name__, make_ctx, entry,
                  functions=[tlm.TemplateLoader._prepare_ode_content], props=("C01", "C02", "C03", "C04", "C13")))


_register()
