"""Frame obligations on process-wide state (C17; relied on by every per-network property).

The properties are stated per network description; they can only hold if no state other than the inventoried one is shared
between Network / Reaction / Species objects or survives from one call to the next.  Two structural obligations over the package's
AST (re-read on every run), both decidable without a solver:

  F1  no function stores or mutates a parameter whose default value is a mutable object (list / dict / set display or constructor):
      such a default is one object shared by every call that omits the argument;
  F2  the mutable class-level and module-level objects that the code assigns to or mutates after import are exactly the inventory
      below (the state the other contracts and the bounded history oracles know about); memoising decorators (lru_cache, cache)
      on package functions are process-wide state as well and are not part of the inventory.

A class-level table that is only read (type tables, element lists, grammars) is not state in this sense and is not restricted."""
from __future__ import annotations
import ast, os, pathlib

INVENTORY = {
    ("naunet/species.py", "Species", "_known_elements"), ("naunet/species.py", "Species", "_known_pseudoelements"), ("naunet/species.py", "Species", "_replacement"),
    ("naunet/chemistrydata/__init__.py", "<module>", "user_binding_energy"), ("naunet/chemistrydata/__init__.py", "<module>", "user_photon_yield"),
    ("naunet/chemistrydata/__init__.py", "<module>", "user_enthalpy"),
    ("naunet/reactions/kromereaction.py", "KROMEReaction", "reacformat"), ("naunet/reactions/kromereaction.py", "KROMEReaction", "_user_commons"),
    ("naunet/reactions/kromereaction.py", "KROMEReaction", "_user_vars"),
    ("naunet/thermalprocess.py", "<module>", "supported_heating_process"), ("naunet/thermalprocess.py", "<module>", "supported_cooling_process"),
    ("naunet/network.py", "<module>", "supported_reaction_class"), ("naunet/network.py", "<module>", "supported_grain_model"),
    ("naunet/console/commands/command.py", "Command", "loggers"),
}
MUTATORS = {"append", "extend", "insert", "remove", "pop", "clear", "update", "add", "discard", "setdefault", "sort", "reverse", "popitem", "move_to_end"}


def _is_mutable_literal(d):
    return isinstance(d, (ast.List, ast.Dict, ast.Set, ast.ListComp, ast.DictComp, ast.SetComp)) or \
        (isinstance(d, ast.Call) and isinstance(d.func, ast.Name) and d.func.id in ("list", "dict", "set", "OrderedDict", "defaultdict", "Counter", "deque"))


def _is_class_ref(e):
    """an expression that denotes a class object: cls, a capitalised name, type(x), x.__class__"""
    if isinstance(e, ast.Name):
        return e.id == "cls" or e.id[:1].isupper()
    if isinstance(e, ast.Call) and isinstance(e.func, ast.Name) and e.func.id == "type" and len(e.args) == 1:
        return True
    return isinstance(e, ast.Attribute) and e.attr == "__class__"


def _root():
    import naunet
    return pathlib.Path(naunet.__file__).parent


def _files():
    root = _root()
    for p in sorted(root.rglob("*.py")):
        rel = "naunet/" + str(p.relative_to(root))
        if rel.startswith("naunet/examples/") or rel.startswith("naunet/templates/"):
            continue
        yield rel, ast.parse(p.read_text())


def _item(name, ok, detail=""):
    return {"name": name, "status": "proved" if ok else "refuted", "backend": "ast-scan", "seconds": 0.0, "detail": detail}


def state_frame_items(tier):
    out = []
    bad_defaults, state, memo = [], set(), []
    mutated = set()       # attribute / global names that are assigned or mutated somewhere after definition
    trees = list(_files())
    for rel, tree in trees:
        for fn in ast.walk(tree):
            if isinstance(fn, (ast.FunctionDef, ast.AsyncFunctionDef)):
                for dec in fn.decorator_list:
                    nm = ast.unparse(dec)
                    if nm.split("(")[0].split(".")[-1] in ("lru_cache", "cache", "cached_property") and "cached_property" not in nm:
                        memo.append(f"{rel}:{fn.name} @{nm}")
                a = fn.args
                pos = a.posonlyargs + a.args
                pairs = list(zip(pos[len(pos) - len(a.defaults):], a.defaults)) + [(k, d) for k, d in zip(a.kwonlyargs, a.kw_defaults) if d is not None]
                for arg, d in pairs:
                    if not _is_mutable_literal(d):
                        continue
                    name = arg.arg
                    leaks = []
                    for n in ast.walk(fn):
                        if isinstance(n, ast.Assign) and any(isinstance(t, ast.Attribute) for t in n.targets):
                            v = n.value
                            # stored as it is (possibly behind `x if ... else ...` / `x or ...`), not through a copy
                            cands = [v] + ([v.body, v.orelse] if isinstance(v, ast.IfExp) else []) + (list(v.values) if isinstance(v, ast.BoolOp) else [])
                            if any(isinstance(c, ast.Name) and c.id == name for c in cands):
                                leaks.append(f"stored in {ast.unparse(n.targets[0])}")
                        if isinstance(n, ast.Call) and isinstance(n.func, ast.Attribute) and n.func.attr in MUTATORS and isinstance(n.func.value, ast.Name) and n.func.value.id == name:
                            leaks.append(f"mutated by .{n.func.attr}()")
                        if isinstance(n, (ast.Assign, ast.AugAssign)):
                            for t in (n.targets if isinstance(n, ast.Assign) else [n.target]):
                                if isinstance(t, ast.Subscript) and isinstance(t.value, ast.Name) and t.value.id == name:
                                    leaks.append("item assignment")
                    if leaks:
                        bad_defaults.append(f"{rel}:{fn.name}({name}={ast.unparse(d)}): {', '.join(sorted(set(leaks)))}")
        # definitions of class-level / module-level mutable objects
        for node in ast.walk(tree):
            if isinstance(node, ast.ClassDef):
                for st in node.body:
                    tg, val = (st.targets[0], st.value) if isinstance(st, ast.Assign) else ((st.target, st.value) if isinstance(st, ast.AnnAssign) and st.value is not None else (None, None))
                    if tg is not None and isinstance(tg, ast.Name) and _is_mutable_literal(val):
                        state.add((rel, node.name, tg.id))
        for st in tree.body:
            if isinstance(st, ast.Assign) and isinstance(st.targets[0], ast.Name) and (_is_mutable_literal(st.value) or isinstance(st.value, ast.Call)):
                state.add((rel, "<module>", st.targets[0].id))      # (an object built by a call counts when it is mutated later)
        # mutations anywhere in the package
        for n in ast.walk(tree):
            if isinstance(n, (ast.Assign, ast.AugAssign)):
                for t in (n.targets if isinstance(n, ast.Assign) else [n.target]):
                    if isinstance(t, ast.Attribute) and isinstance(t.value, ast.Name) and t.value.id in ("cls",) or (isinstance(t, ast.Attribute) and isinstance(t.value, ast.Name) and t.value.id[:1].isupper()):
                        mutated.add(t.attr)
                    if isinstance(t, ast.Subscript):
                        b = t.value
                        if isinstance(b, ast.Attribute):
                            mutated.add(b.attr)
                        elif isinstance(b, ast.Name):
                            mutated.add(b.id)
            if isinstance(n, ast.Call) and isinstance(n.func, ast.Attribute) and n.func.attr in MUTATORS:
                b = n.func.value
                if isinstance(b, ast.Attribute):
                    mutated.add(b.attr)
                elif isinstance(b, ast.Name):
                    mutated.add(b.id)
            if isinstance(n, ast.Global):
                mutated.update(n.names)
    # F2b: a class attribute (re)bound through the class object inside a function is process-wide state whatever its initial value
    # (a `None` placeholder filled in later is a cache): cls.X = .., ClassName.X = .., type(self).X = .., self.__class__.X = .., setattr(cls, ..)
    inv_attrs = {a for (_, _, a) in INVENTORY}
    class_writes = []
    for rel, tree in trees:
        for fn in ast.walk(tree):
            if not isinstance(fn, (ast.FunctionDef, ast.AsyncFunctionDef, ast.Lambda)):
                continue
            for n in ast.walk(fn):
                tgts = []
                if isinstance(n, ast.Assign):
                    tgts = list(n.targets)
                elif isinstance(n, (ast.AugAssign, ast.AnnAssign)):
                    tgts = [n.target]
                elif isinstance(n, ast.Call) and isinstance(n.func, ast.Name) and n.func.id == "setattr" and n.args and _is_class_ref(n.args[0]):
                    class_writes.append((rel, getattr(fn, "name", "<lambda>"), f"setattr({ast.unparse(n.args[0])}, ..)", None))
                for t in tgts:
                    for el in (t.elts if isinstance(t, (ast.Tuple, ast.List)) else [t]):
                        if isinstance(el, ast.Attribute) and _is_class_ref(el.value):
                            class_writes.append((rel, getattr(fn, "name", "<lambda>"), ast.unparse(el), el.attr))
    new_writes = sorted({(r, f, w) for (r, f, w, a) in class_writes if a not in inv_attrs})
    out.append(_item("frame/class-attributes-rebound-after-import-are-the-inventoried-state", not new_writes,
                     "; ".join(f"{r}:{f}: {w}" for r, f, w in new_writes)[:600] or f"{len(class_writes)} class-level rebinding sites, all of inventoried attributes"))
    out.append(_item("frame/no-shared-mutable-default-argument", not bad_defaults, "; ".join(bad_defaults)[:600] or "no parameter with a mutable default is stored or mutated"))
    out.append(_item("frame/no-memoising-decorator-on-package-functions", not memo, "; ".join(memo)[:400]))
    # class-level reassignment through cls.X = ... also defines state even if the class body has no literal
    new_state = sorted((r, c, a) for (r, c, a) in state if a in mutated and (r, c, a) not in INVENTORY and not a.isupper()
                       and c not in ("InitCommand", "RenderCommand", "ExampleCommand", "ExtendCommand", "NewCommand") and a not in ("options", "arguments"))
    out.append(_item("frame/process-wide-mutable-state-is-the-inventoried-one", not new_state,
                     "; ".join(f"{r}: {c}.{a}" for r, c, a in new_state)[:600] or f"{len(state)} class/module-level mutable objects, {len(INVENTORY)} inventoried as state"))
    return out


FRESH_CALLS = {"list", "sorted", "tuple"}


def _fresh(expr, fn, cls, depth=0):
    """'fresh' - the expression builds a new list on every evaluation; 'alias' - it can be an object the caller (or another
    object) also holds; 'unknown' otherwise.  fn: enclosing function (for locals / parameters), cls: enclosing class (helpers)."""
    if isinstance(expr, (ast.ListComp, ast.List)):
        return "fresh"
    if isinstance(expr, ast.Call) and isinstance(expr.func, ast.Name) and expr.func.id in FRESH_CALLS:
        return "fresh"
    if isinstance(expr, ast.IfExp):
        a, b = _fresh(expr.body, fn, cls, depth), _fresh(expr.orelse, fn, cls, depth)
        return "fresh" if a == b == "fresh" else ("alias" if "alias" in (a, b) else "unknown")
    if isinstance(expr, ast.BinOp) and isinstance(expr.op, ast.Add):
        return "fresh" if "fresh" in (_fresh(expr.left, fn, cls, depth), _fresh(expr.right, fn, cls, depth)) else "unknown"
    if isinstance(expr, ast.Subscript) and isinstance(expr.slice, ast.Slice):
        return "fresh"
    if isinstance(expr, ast.Name):
        params = {a.arg for a in fn.args.args + fn.args.kwonlyargs + fn.args.posonlyargs} | ({fn.args.vararg.arg} if fn.args.vararg else set())
        binds = [n.value for n in ast.walk(fn) if isinstance(n, ast.Assign) and any(isinstance(t, ast.Name) and t.id == expr.id for t in n.targets)]
        if expr.id in params and not binds:
            return "alias"
        if binds and expr.id not in params:
            rs = {_fresh(b, fn, cls, depth) for b in binds}
            return "fresh" if rs == {"fresh"} else ("alias" if "alias" in rs else "unknown")
        return "alias" if expr.id in params else "unknown"
    if isinstance(expr, ast.Call) and isinstance(expr.func, ast.Attribute) and isinstance(expr.func.value, ast.Name) and expr.func.value.id == "self" and depth < 3:
        for c in cls:
            for m in c.body:
                if isinstance(m, ast.FunctionDef) and m.name == expr.func.attr:
                    rets = [r.value for r in ast.walk(m) if isinstance(r, ast.Return) and r.value is not None]
                    rs = {_fresh(r, m, cls, depth + 1) for r in rets}
                    return "fresh" if rets and rs == {"fresh"} else ("alias" if "alias" in rs else "unknown")
        return "unknown"
    if isinstance(expr, ast.Attribute):
        return "alias"
    return "unknown"


def ownership_items(tier):
    """F3 (C04/C01/C15): a reaction owns its reactant / product lists - every assignment to self.reactants / self.products in the
    package stores a list built by the assignment itself, never an object the caller passed in or another object holds (a caller
    editing its own list afterwards would otherwise rewrite a reaction that is already part of a network)."""
    out = []
    classes = []
    trees = list(_files())
    for rel, tree in trees:
        classes += [n for n in ast.walk(tree) if isinstance(n, ast.ClassDef)]
    n_sites, bad, unk = 0, [], []
    for rel, tree in trees:
        for c in [n for n in ast.walk(tree) if isinstance(n, ast.ClassDef)]:
            for fn in [m for m in c.body if isinstance(m, ast.FunctionDef)]:
                for st in ast.walk(fn):
                    if isinstance(st, ast.Assign):
                        for t in st.targets:
                            if isinstance(t, ast.Attribute) and isinstance(t.value, ast.Name) and t.value.id == "self" and t.attr in ("reactants", "products", "_reactants", "_products") \
                                    and not (isinstance(st.value, ast.Call) and isinstance(st.value.func, ast.Name) and st.value.func.id == "set"):
                                n_sites += 1
                                r = _fresh(st.value, fn, [c] + classes)
                                if r == "alias":
                                    bad.append(f"{rel}:{st.lineno} {c.name}.{fn.name}: self.{t.attr} = {ast.unparse(st.value)[:60]}")
                                elif r == "unknown":
                                    unk.append(f"{rel}:{st.lineno} {c.name}.{fn.name}: self.{t.attr} = {ast.unparse(st.value)[:60]}")
    it = _item("frame/reaction-owns-its-species-lists", not bad and not unk and n_sites > 0,
               "; ".join(bad + unk)[:600] or f"{n_sites} assignments to reactants/products, each stores a list built in place")
    if not bad and unk:
        it["status"] = "unknown"
    out.append(it)
    return out


def shared_default_items(tier):
    """F5 (C13/C14/C17): a mutable object defined in a class body is one object for all instances.  No class of the package hands
    such an object out through `self` (return self.X in a method / property) or mutates it through `self` unless every __init__
    path of the class rebinds self.X first - otherwise two networks / reactions built in one process share a table."""
    out, bad, n = [], [], 0
    for rel, tree in _files():
        for c in [x for x in ast.walk(tree) if isinstance(x, ast.ClassDef)]:
            lits = {}
            for st in c.body:
                tg, val = (st.targets[0], st.value) if isinstance(st, ast.Assign) else ((st.target, st.value) if isinstance(st, ast.AnnAssign) and st.value is not None else (None, None))
                if tg is not None and isinstance(tg, ast.Name) and _is_mutable_literal(val) and not tg.id.isupper():
                    lits[tg.id] = st.lineno
            if not lits:
                continue
            init = next((m for m in c.body if isinstance(m, ast.FunctionDef) and m.name == "__init__"), None)
            always = set()
            if init is not None:
                # attributes rebound unconditionally at the top level of __init__ (not inside if / for / try)
                for st in init.body:
                    if isinstance(st, ast.Assign):
                        for t in st.targets:
                            if isinstance(t, ast.Attribute) and isinstance(t.value, ast.Name) and t.value.id == "self":
                                always.add(t.attr)
            for name, line in lits.items():
                n += 1
                if name in always or (rel, c.name, name) in INVENTORY:
                    continue
                uses = []
                for m in [x for x in c.body if isinstance(x, ast.FunctionDef)]:
                    for node in ast.walk(m):
                        if isinstance(node, ast.Return) and isinstance(node.value, ast.Attribute) and isinstance(node.value.value, ast.Name) and node.value.value.id == "self" and node.value.attr == name:
                            uses.append(f"{m.name} returns self.{name}")
                        if isinstance(node, ast.Call) and isinstance(node.func, ast.Attribute) and node.func.attr in MUTATORS and isinstance(node.func.value, ast.Attribute) \
                                and isinstance(node.func.value.value, ast.Name) and node.func.value.value.id == "self" and node.func.value.attr == name:
                            uses.append(f"{m.name} calls self.{name}.{node.func.attr}()")
                        if isinstance(node, (ast.Assign, ast.AugAssign)):
                            for t in (node.targets if isinstance(node, ast.Assign) else [node.target]):
                                if isinstance(t, ast.Subscript) and isinstance(t.value, ast.Attribute) and isinstance(t.value.value, ast.Name) and t.value.value.id == "self" and t.value.attr == name:
                                    uses.append(f"{m.name} stores into self.{name}[...]")
                if uses:
                    bad.append(f"{rel}:{line} {c.name}.{name} is a class-level mutable object and {uses[0]} (not rebound on every __init__ path)")
    out.append(_item("frame/no-class-level-mutable-object-used-as-instance-state", not bad, "; ".join(bad)[:600] or f"{n} class-level mutable objects, none handed out or mutated through self without being rebound in __init__"))
    return out


def table_setter_items(tier):
    """F4 (C08/C17): Species.set_known_elements / set_known_pseudoelements clear the class-level list and refill it from their argument,
    so their precondition is that the argument is not that list itself.  Every call site in the package must pass something that
    cannot be the live table: not the result of Species.known_elements() / known_pseudoelements() (the getters return the table, not
    a copy) and not the class attribute, directly or through a local name bound to one of them."""
    sites, bad = 0, []

    def live(expr, fn, seen=()):
        if isinstance(expr, ast.Call) and isinstance(expr.func, ast.Attribute) and expr.func.attr in ("known_elements", "known_pseudoelements") and not expr.args:
            return True
        if isinstance(expr, ast.Attribute) and expr.attr in ("_known_elements", "_known_pseudoelements") and isinstance(expr.value, ast.Name) and expr.value.id in ("Species", "cls"):
            return True
        if isinstance(expr, ast.Name) and expr.id not in seen:
            binds = [n.value for n in ast.walk(fn) if isinstance(n, ast.Assign) and any(isinstance(t, ast.Name) and t.id == expr.id for t in n.targets)]
            return any(live(b, fn, seen + (expr.id,)) for b in binds)
        return False
    for rel, tree in _files():
        for fn in [n for n in ast.walk(tree) if isinstance(n, (ast.FunctionDef, ast.AsyncFunctionDef))]:
            for c in ast.walk(fn):
                if isinstance(c, ast.Call) and isinstance(c.func, ast.Attribute) and c.func.attr in ("set_known_elements", "set_known_pseudoelements") and c.args:
                    sites += 1
                    if live(c.args[0], fn):
                        bad.append(f"{rel}:{c.lineno} {fn.name}: {ast.unparse(c)[:80]} is called with the live table")
    return [_item("frame/table-setters-never-receive-the-live-table", not bad and sites > 0, "; ".join(bad)[:500] or f"{sites} call sites of the table setters")]


if __name__ == "__main__":
    for it in ownership_items("quick") + table_setter_items("quick") + shared_default_items("quick"):
        print(it["status"], it["name"], it["detail"][:300])
    for it in state_frame_items("quick"):
        print(it["status"], it["name"], it["detail"][:300])


# assigns clauses (C13 / C14): the attributes of `self` a Network operation may write.  Everything else - in particular the rate / ODE
# modifier tables, the heating / cooling lists, the allowed and required species - is framed out: it has the value it had at entry.
ASSIGNS = {
    "remove_reaction": {"reaction_list", "_reactants", "_products"},
    "_add_reaction": {"reaction_list", "_skipped_reactions", "_reactants", "_products"},
    "find_duplicate_reaction": set(),
    "find_source_sink": set(),
    "where_reaction": set(),
    "where_species": set(),
}
PURE_SELF_CALLS = {"_add_reaction": {"_reaction_factory"}, "where_species": set(), "remove_reaction": set()}
# the generator object keeps nothing from one rendering to the next: what a template receives is prepared from this call's network
LOADER_ASSIGNS = {"render": set(), "_render": set(), "_prepare_ode_content": set(), "_prepare_renorm_content": set(), "_assign_rates": set()}
LOADER_PURE = {"render": {"_prepare_ode_content", "_prepare_renorm_content", "_render"}, "_prepare_ode_content": {"_assign_rates"}}


def _self_root(e):
    """attribute name X when the expression is rooted at self.X (self.X, self.X[..], self.X.y, ...)"""
    while isinstance(e, (ast.Attribute, ast.Subscript)):
        if isinstance(e, ast.Attribute) and isinstance(e.value, ast.Name) and e.value.id == "self":
            return e.attr
        e = e.value
    return None


def assigns_items(tier):
    """A1: each listed Network operation stores to / mutates only the attributes of its assigns clause; it calls no other method of
    `self` (a callee could write anything) except the ones listed as pure, and never uses setattr / __dict__ on self."""
    return _assigns("naunet/network.py", "Network", ASSIGNS, PURE_SELF_CALLS)


def loader_assigns_items(tier):
    """A2 (C01-C03, C13, C16, C17): TemplateLoader.render and the content builders write no attribute of the loader, so a second
    rendering with the same loader object is prepared from its own network, not from anything an earlier rendering left behind."""
    return _assigns("naunet/templateloader.py", "TemplateLoader", LOADER_ASSIGNS, LOADER_PURE)


def _assigns(relfile, clsname, table, pure):
    out = []
    tree = next(t for rel, t in _files() if rel == relfile)
    cls = next(c for c in ast.walk(tree) if isinstance(c, ast.ClassDef) and c.name == clsname)
    PURE_SELF_CALLS = pure
    for fname, allowed in sorted(table.items()):
        fns = [m for m in cls.body if isinstance(m, ast.FunctionDef) and m.name == fname and not any("setter" in ast.unparse(d) for d in m.decorator_list)]
        if not fns:
            out.append(_item(f"frame/assigns/{clsname}.{fname}/function-found", False, f"not found in {clsname}"))
            continue
        fn = fns[0]
        bad = []
        for n in ast.walk(fn):
            tgts = []
            if isinstance(n, ast.Assign):
                tgts = list(n.targets)
            elif isinstance(n, (ast.AugAssign, ast.AnnAssign)):
                tgts = [n.target]
            elif isinstance(n, ast.Delete):
                tgts = list(n.targets)
            for t in tgts:
                for el in (t.elts if isinstance(t, (ast.Tuple, ast.List)) else [t]):
                    r = _self_root(el)
                    if r is not None and r not in allowed:
                        bad.append(f"line {n.lineno}: writes self.{r}")
            if isinstance(n, ast.Call):
                f = n.func
                if isinstance(f, ast.Attribute) and f.attr in MUTATORS:
                    r = _self_root(f.value)
                    if r is not None and r not in allowed:
                        bad.append(f"line {n.lineno}: self.{r}...{f.attr}()")
                if isinstance(f, ast.Attribute) and isinstance(f.value, ast.Name) and f.value.id == "self" and f.attr not in PURE_SELF_CALLS.get(fname, set()) and not f.attr[:1].isupper():
                    # a method call on self (properties are attribute reads and are not calls)
                    bad.append(f"line {n.lineno}: calls self.{f.attr}() (not in the operation's list of pure helpers)")
                if isinstance(f, ast.Name) and f.id in ("setattr", "delattr", "vars") and n.args and isinstance(n.args[0], ast.Name) and n.args[0].id == "self":
                    bad.append(f"line {n.lineno}: {f.id}(self, ..)")
            if isinstance(n, ast.Attribute) and n.attr == "__dict__" and isinstance(n.value, ast.Name) and n.value.id == "self":
                bad.append(f"line {n.lineno}: self.__dict__")
        out.append(_item(f"frame/assigns/{clsname}.{fname}/writes-only-{'+'.join(sorted(allowed)) or 'nothing'}", not bad, "; ".join(bad)[:500] or "assigns clause respected"))
    return out
