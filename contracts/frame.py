"""Frame obligations on process-wide state (C17; relied on by every per-network property).

The properties are stated per network description; they can only hold if no state other than the inventoried one is shared
between Network / Reaction / Species objects or survives from one call to the next.  Two structural obligations over the package's
AST (re-read on every run), both decidable without a solver:

  F1  no function stores or mutates a parameter whose default value is a mutable object (list / dict / set display or constructor):
      such a default is one object shared by every call that omits the argument;
  F2  the mutable class-level and module-level objects that the code assigns to or mutates after import are exactly the inventory
      below (the state the other contracts and the bounded history oracles know about); memoising decorators (lru_cache, cache)
      on package functions are process-wide state as well and are not part of the inventory.

A class-level table that is only read (type tables, element lists, grammars) is not state in this sense and is not restricted."""
from __future__ import annotations
import ast, os, pathlib

INVENTORY = {
    ("naunet/species.py", "Species", "_known_elements"), ("naunet/species.py", "Species", "_known_pseudoelements"), ("naunet/species.py", "Species", "_replacement"),
    ("naunet/chemistrydata/__init__.py", "<module>", "user_binding_energy"), ("naunet/chemistrydata/__init__.py", "<module>", "user_photon_yield"),
    ("naunet/chemistrydata/__init__.py", "<module>", "user_enthalpy"),
    ("naunet/reactions/kromereaction.py", "KROMEReaction", "reacformat"), ("naunet/reactions/kromereaction.py", "KROMEReaction", "_user_commons"),
    ("naunet/reactions/kromereaction.py", "KROMEReaction", "_user_vars"),
    ("naunet/thermalprocess.py", "<module>", "supported_heating_process"), ("naunet/thermalprocess.py", "<module>", "supported_cooling_process"),
    ("naunet/network.py", "<module>", "supported_reaction_class"), ("naunet/network.py", "<module>", "supported_grain_model"),
    ("naunet/console/commands/command.py", "Command", "loggers"),
}
MUTATORS = {"append", "extend", "insert", "remove", "pop", "clear", "update", "add", "discard", "setdefault", "sort", "reverse", "popitem", "move_to_end"}


def _is_mutable_literal(d):
    return isinstance(d, (ast.List, ast.Dict, ast.Set, ast.ListComp, ast.DictComp, ast.SetComp)) or \
        (isinstance(d, ast.Call) and isinstance(d.func, ast.Name) and d.func.id in ("list", "dict", "set", "OrderedDict", "defaultdict", "Counter", "deque"))


def _root():
    import naunet
    return pathlib.Path(naunet.__file__).parent


def _files():
    root = _root()
    for p in sorted(root.rglob("*.py")):
        rel = "naunet/" + str(p.relative_to(root))
        if rel.startswith("naunet/examples/") or rel.startswith("naunet/templates/"):
            continue
        yield rel, ast.parse(p.read_text())


def _item(name, ok, detail=""):
    return {"name": name, "status": "proved" if ok else "refuted", "backend": "ast-scan", "seconds": 0.0, "detail": detail}


def state_frame_items(tier):
    out = []
    bad_defaults, state, memo = [], set(), []
    mutated = set()       # attribute / global names that are assigned or mutated somewhere after definition
    trees = list(_files())
    for rel, tree in trees:
        for fn in ast.walk(tree):
            if isinstance(fn, (ast.FunctionDef, ast.AsyncFunctionDef)):
                for dec in fn.decorator_list:
                    nm = ast.unparse(dec)
                    if nm.split("(")[0].split(".")[-1] in ("lru_cache", "cache", "cached_property") and "cached_property" not in nm:
                        memo.append(f"{rel}:{fn.name} @{nm}")
                a = fn.args
                pos = a.posonlyargs + a.args
                pairs = list(zip(pos[len(pos) - len(a.defaults):], a.defaults)) + [(k, d) for k, d in zip(a.kwonlyargs, a.kw_defaults) if d is not None]
                for arg, d in pairs:
                    if not _is_mutable_literal(d):
                        continue
                    name = arg.arg
                    leaks = []
                    for n in ast.walk(fn):
                        if isinstance(n, ast.Assign) and any(isinstance(t, ast.Attribute) for t in n.targets):
                            v = n.value
                            # stored as it is (possibly behind `x if ... else ...` / `x or ...`), not through a copy
                            cands = [v] + ([v.body, v.orelse] if isinstance(v, ast.IfExp) else []) + (list(v.values) if isinstance(v, ast.BoolOp) else [])
                            if any(isinstance(c, ast.Name) and c.id == name for c in cands):
                                leaks.append(f"stored in {ast.unparse(n.targets[0])}")
                        if isinstance(n, ast.Call) and isinstance(n.func, ast.Attribute) and n.func.attr in MUTATORS and isinstance(n.func.value, ast.Name) and n.func.value.id == name:
                            leaks.append(f"mutated by .{n.func.attr}()")
                        if isinstance(n, (ast.Assign, ast.AugAssign)):
                            for t in (n.targets if isinstance(n, ast.Assign) else [n.target]):
                                if isinstance(t, ast.Subscript) and isinstance(t.value, ast.Name) and t.value.id == name:
                                    leaks.append("item assignment")
                    if leaks:
                        bad_defaults.append(f"{rel}:{fn.name}({name}={ast.unparse(d)}): {', '.join(sorted(set(leaks)))}")
        # definitions of class-level / module-level mutable objects
        for node in ast.walk(tree):
            if isinstance(node, ast.ClassDef):
                for st in node.body:
                    tg, val = (st.targets[0], st.value) if isinstance(st, ast.Assign) else ((st.target, st.value) if isinstance(st, ast.AnnAssign) and st.value is not None else (None, None))
                    if tg is not None and isinstance(tg, ast.Name) and _is_mutable_literal(val):
                        state.add((rel, node.name, tg.id))
        for st in tree.body:
            if isinstance(st, ast.Assign) and isinstance(st.targets[0], ast.Name) and (_is_mutable_literal(st.value) or isinstance(st.value, ast.Call)):
                state.add((rel, "<module>", st.targets[0].id))      # (an object built by a call counts when it is mutated later)
        # mutations anywhere in the package
        for n in ast.walk(tree):
            if isinstance(n, (ast.Assign, ast.AugAssign)):
                for t in (n.targets if isinstance(n, ast.Assign) else [n.target]):
                    if isinstance(t, ast.Attribute) and isinstance(t.value, ast.Name) and t.value.id in ("cls",) or (isinstance(t, ast.Attribute) and isinstance(t.value, ast.Name) and t.value.id[:1].isupper()):
                        mutated.add(t.attr)
                    if isinstance(t, ast.Subscript):
                        b = t.value
                        if isinstance(b, ast.Attribute):
                            mutated.add(b.attr)
                        elif isinstance(b, ast.Name):
                            mutated.add(b.id)
            if isinstance(n, ast.Call) and isinstance(n.func, ast.Attribute) and n.func.attr in MUTATORS:
                b = n.func.value
                if isinstance(b, ast.Attribute):
                    mutated.add(b.attr)
                elif isinstance(b, ast.Name):
                    mutated.add(b.id)
            if isinstance(n, ast.Global):
                mutated.update(n.names)
    out.append(_item("frame/no-shared-mutable-default-argument", not bad_defaults, "; ".join(bad_defaults)[:600] or "no parameter with a mutable default is stored or mutated"))
    out.append(_item("frame/no-memoising-decorator-on-package-functions", not memo, "; ".join(memo)[:400]))
    # class-level reassignment through cls.X = ... also defines state even if the class body has no literal
    new_state = sorted((r, c, a) for (r, c, a) in state if a in mutated and (r, c, a) not in INVENTORY and not a.isupper()
                       and c not in ("InitCommand", "RenderCommand", "ExampleCommand", "ExtendCommand", "NewCommand") and a not in ("options", "arguments"))
    out.append(_item("frame/process-wide-mutable-state-is-the-inventoried-one", not new_state,
                     "; ".join(f"{r}: {c}.{a}" for r, c, a in new_state)[:600] or f"{len(state)} class/module-level mutable objects, {len(INVENTORY)} inventoried as state"))
    return out


if __name__ == "__main__":
    for it in state_frame_items("quick"):
        print(it["status"], it["name"], it["detail"][:300])
