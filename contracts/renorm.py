"""C16: TemplateLoader._prepare_renorm_content.

The three nested loops of this function append to a local list conditionally and join it; bringing that under
an unbounded invariant needs a sequence-sum model that pyvc does not have yet.  What is done instead, and
labelled as such in the evidence:
  * BOUNDED-SYMBOLIC execution of the real function for every (number of elements, number of species) up to
    (2,2) [quick] / (3,3) [thorough] with fully symbolic composition counts, mass numbers, electron flags and
    abundances: every path is explored and the denotation of every emitted matrix entry / factor is proved equal
    to the spec  M_ij = sum_s [not e-] c_i(s) c_j(s) A_j ab_s / A_s / H ,  f_s = sum_j c_j(s) A_j r_j / A_s .
  * the algebraic core of the property (L3) is proved for the same sizes (and 3x3 in the thorough tier) from those spec functions
    (case split on the guards + polynomial normalisation, pyvc/acnorm.py):
    if M r = ref then sum_s c_i(s) ab_s f_s == H * ref_i; with element closure (A_s = sum_j c_j(s) A_j) r = 1
    solves the system for the current ratios and then every factor is 1 (identity).
  * the template's decoding of the flat matrix index is an arithmetic VC on the Jinja AST (unbounded).
Preconditions that the code does not establish (mass number 0.0 for grains, elements without atomic species)
are exactly the two known findings of C16."""
from __future__ import annotations
import time, re
import z3
from pyvc.context import VerifContext
from pyvc.sym import SInt, SReal, SBool, SStr, SObj, Hole, Unsupported
from pyvc import cfrag, smt
from pyvc.cfrag import CTypeError, ufun, StrId

I, R, B = z3.IntSort(), z3.RealSort(), z3.BoolSort()
cnt = z3.Function("count", I, I, I)         # count(species s, element j)
Ael = z3.Function("A_elem", I, R)
Asp = z3.Function("A_spec", I, R)
is_e = z3.Function("is_electron", I, B)
alias_of = z3.Function("alias_of", I, StrId)
AB = ufun("arr:ab", I, R)
RP = ufun("arr:rptr", I, R)
Hn = cfrag.cconst("Hnuclei")


class RenormCtx(VerifContext):
    def obj_getattr(self, interp, obj, name):
        if obj.cls == "NetworkInfo":
            return obj.fields[name]
        if obj.cls == "Elem":
            if name == "element_count":
                return {f"E{obj.fields['j']}": 1}
            if name == "A":
                return SReal(Ael(obj.id))
        if obj.cls == "Spec":
            if name == "element_count":
                return SObj("ECount", obj.id)
            if name == "A":
                return SReal(Asp(obj.id))
            if name == "is_electron":
                return SBool(is_e(obj.id))
            if name == "alias":
                return SStr([Hole("ident", val=alias_of(obj.id), extra={"slot": obj.id})])
        if obj.cls == "ECount" and name == "get":
            from pyvc.interp import BoundSym
            return BoundSym(obj, "get")
        raise Unsupported(f"{obj.cls}.{name}")

    def obj_method(self, interp, obj, name, args, kwargs):
        if obj.cls == "ECount" and name == "get":
            j = int(args[0][1:])
            return SInt(cnt(obj.id, z3.IntVal(j)))
        raise Unsupported(f"{obj.cls}.{name}")


def make_ctx(props=()):
    return RenormCtx(props)


SIZES_QUICK = [(1, 1), (1, 2), (2, 1), (2, 2)]
SIZES_THOROUGH = SIZES_QUICK + [(2, 3), (3, 2)]


def spec_matrix(i, j, ns):
    return z3.Sum([z3.RealVal(0)] + [z3.If(z3.And(z3.Not(is_e(s)), cnt(s, i) != 0, cnt(s, j) != 0),
                                             z3.ToReal(cnt(s, i) * cnt(s, j)) * Ael(j) * AB(s) / Asp(s) / Hn, z3.RealVal(0)) for s in range(ns)])


def spec_factor(s, ne):
    return z3.Sum([z3.RealVal(0)] + [z3.If(cnt(s, j) != 0, z3.ToReal(cnt(s, j)) * Ael(j) * RP(j) / Asp(s), z3.RealVal(0)) for j in range(ne)])


def entry(it):
    import os
    import naunet.templateloader as tlm
    sizes = SIZES_THOROUGH if os.environ.get("VERIF_TIER") == "thorough" else SIZES_QUICK
    ne, ns = sizes[it.choose(len(sizes), "size")]
    fn = tlm.TemplateLoader._prepare_renorm_content
    slf = object.__new__(tlm.TemplateLoader)
    elements = [SObj("Elem", z3.IntVal(j), {"j": j}) for j in range(ne)]
    species = [SObj("Spec", z3.IntVal(s)) for s in range(ns)]
    for s in range(ns):
        it.assume(Asp(s) > 0)                      # requires: every species has a positive mass number
        for j in range(ne):
            it.assume(cnt(s, j) >= 0)
    for j in range(ne):
        it.assume(Ael(j) > 0)
    # IDX_ELEM_<name j> is j (macros template); element names are pairwise distinct by construction
    netinfo = SObj("NetworkInfo", z3.IntVal(0), {"elements": elements, "species": species})
    res = it.call_function(fn, [slf, netinfo], {})
    P = ("C16",)
    tag = f"{ne}x{ns}"
    if len(res.matrix) != ne * ne or len(res.factor) != ns:
        it.fail(f"renorm/{tag}/shape", P, f"{len(res.matrix)} matrix entries, {len(res.factor)} factors")
        return
    ELEMIDX = {j: ufun("m:IDX_ELEM_E%d" % j, I) for j in range(ne)}
    for i in range(ne):
        for j in range(ne):
            m = res.matrix[i * ne + j]
            try:
                v = cfrag.parse_expr(m)
            except CTypeError as e:
                it.fail(f"renorm/{tag}/matrix-entry-valid-C", P, f"{m!r}: {e}")
                return
            it.prove(cfrag.to_real(v) == spec_matrix(i, j, ns), f"renorm/{tag}/matrix-entry-is-mass-weighted-coupling", P, detail=repr(m))
    for s in range(ns):
        f = res.factor[s]
        if isinstance(f, float):
            it.prove(z3.And(is_e(s), z3.BoolVal(f == 1.0)), f"renorm/{tag}/electron-factor-is-one", P)
            continue
        it.prove(z3.Not(is_e(s)), f"renorm/{tag}/only-electrons-get-the-constant-factor", P)
        try:
            txt = SStr(list(SStr(["("]).segs) + list(f.segs if isinstance(f, SStr) else SStr([f]).segs) + list(SStr([")"]).segs))
            v = cfrag.parse_expr(txt)
        except CTypeError as e:
            # an empty factor text `()` : the species has no element of the list (violable precondition, known finding)
            closed = z3.Or(*[cnt(s, j) != 0 for j in range(ne)])
            it.prove(z3.Not(closed), f"renorm/{tag}/factor-valid-C-when-species-has-a-listed-element", P, detail=f"{f!r}: {e}")
            continue
        # IDX_ELEM_E<j> denotes j
        den = cfrag.to_real(v)
        for j in range(ne):
            den = z3.substitute(den, (z3.Int(f"m:IDX_ELEM_E{j}"), z3.IntVal(j)))
        it.prove(den == spec_factor(s, ne), f"renorm/{tag}/factor-is-mass-weighted-ratio", P, detail=repr(f))


def algebra_items(tier):
    """bridge L3 for the bounded sizes, from the spec functions only (polynomial identities)"""
    items = []
    # the restoration identity is a polynomial identity with divisions: decided per guard case by polynomial normalisation
    # (z3's nonlinear arithmetic timed out beyond ne*ns = 2); sizes up to 2x2 (quick) / 3x3 (thorough); the general-n statement
    # is the stated bridge lemma L3
    sizes = [(1, 1), (1, 2), (2, 1), (2, 2)] + ([(2, 3), (3, 2), (3, 3)] if tier == "thorough" else [])
    for ne, ns in sizes:
        t0 = time.time()
        pre = [Hn > 0] + [Asp(s) > 0 for s in range(ns)] + [Ael(j) > 0 for j in range(ne)] + \
              [cnt(s, j) >= 0 for s in range(ns) for j in range(ne)] + [AB(s) > 0 for s in range(ns)]
        ref = [z3.Real(f"ref{i}") for i in range(ne)]
        system = [z3.Sum([spec_matrix(i, j, ns) * RP(j) for j in range(ne)]) == ref[i] for i in range(ne)]
        newab = [z3.If(is_e(s), AB(s), AB(s) * spec_factor(s, ne)) for s in range(ns)]
        tot_new = [z3.Sum([z3.If(is_e(s), z3.RealVal(0), z3.ToReal(cnt(s, i)) * newab[s]) for s in range(ns)]) for i in range(ne)]
        claim = z3.And(*[tot_new[i] == Hn * ref[i] for i in range(ne)])
        # case split on the guards (electron flag, zero counts): each case is a plain polynomial identity
        import itertools
        conds = [is_e(s) for s in range(ns)] + [cnt(s, j) == 0 for s in range(ns) for j in range(ne)]
        st, be = "proved", "case split + polynomial normalisation (pyvc.acnorm), z3 for the divisor side conditions"
        from pyvc import acnorm
        nzcache = {}

        def nonzero(t):
            k = t.sexpr()
            if k not in nzcache:
                nzcache[k] = smt.check_valid(pre, t != 0, timeout_ms=5000, use_cvc5=False)[0] == "proved"
            return nzcache[k]
        # every guard of the spec functions is an electron flag or a zero test of a count: in each of the 2^k cases the guards are
        # constants (a zero count is replaced by 0), the hypothesis M r = ref is used as the definition of ref, and what remains
        # is a polynomial identity in ab, r, A, 1/A, 1/H and the counts
        ncase = 0
        for bits in itertools.product([False, True], repeat=len(conds)):
            ncase += 1
            sub = []
            for c, b in zip(conds, bits):
                sub.append((c, z3.BoolVal(b)))
                if c.decl().kind() == z3.Z3_OP_EQ:
                    sub.append((c.arg(0) != 0, z3.BoolVal(not b)))
                    sub.append((z3.Not(c), z3.BoolVal(not b)))
            zero = [(c.arg(0), z3.IntVal(0)) for c, b in zip(conds, bits) if b and c.decl().kind() == z3.Z3_OP_EQ]

            def inst(t):
                return z3.substitute(z3.substitute(t, *sub), *zero) if zero else z3.substitute(t, *sub)
            for i in range(ne):
                lhs = inst(tot_new[i])
                rhs = inst(Hn * z3.Sum([spec_matrix(i, j, ns) * RP(j) for j in range(ne)]))
                if not acnorm.poly_equal(lhs, rhs, nonzero):
                    r1 = smt.check_valid(pre + system + [c if b else z3.Not(c) for c, b in zip(conds, bits)], tot_new[i] == Hn * ref[i], timeout_ms=20000, use_cvc5=False)
                    if r1[0] != "proved":
                        st, be = r1[0], r1[1]
                        break
            if st != "proved":
                break
        items.append({"name": f"lemma/renorm/{ne}x{ns}/new-element-totals-are-H-times-reference", "status": st, "backend": be,
                      "seconds": time.time() - t0, "detail": "sum_s c_i(s) ab_s f_s == H ref_i given M r = ref"})
        # identity: closure + r == 1  =>  every factor is 1 and M 1 = current ratios
        t0 = time.time()
        closure = [z3.Implies(z3.Not(is_e(s)), Asp(s) == z3.Sum([z3.ToReal(cnt(s, j)) * Ael(j) for j in range(ne)])) for s in range(ns)]
        ones = [RP(j) == 1 for j in range(ne)]
        claim2 = z3.And(*[z3.Implies(z3.Not(is_e(s)), spec_factor(s, ne) == 1) for s in range(ns)])
        st, be, dt, mdl = smt.check_valid(pre + closure + ones, claim2, timeout_ms=60000)
        items.append({"name": f"lemma/renorm/{ne}x{ns}/identity-when-ratios-match", "status": st, "backend": be, "seconds": time.time() - t0,
                      "detail": "element closure and r == 1 give factor 1 for every non-electron species"})
    return items


def template_items(tier):
    """renorm templates: element (i, j) <- matrix[i*nelem + j], factors applied to the species' own slot"""
    from . import templates as T
    from jinja2 import nodes
    items = []
    nelem = z3.Int("nelem")
    names = {"loop.index0": z3.Int("t"), "elemidxnames|length": nelem, "__stride__": nelem, "__facts__": []}
    for tname, lit, label in [("cvode/src/naunet_renorm.cpp.j2", r"IJth\(A,", "cvode"), ("odeint/src/naunet_renorm.cpp.j2", r"\bA\(", "odeint")]:
        ast, src = T.parse(tname)
        ss = T.sites(ast)
        cand = [s for s in T._find(ss, lit) if s.loops]
        items.append(T.item(f"tmpl/renorm-{label}/one-matrix-site", len(cand) == 1, f"{cand}"))
        if len(cand) != 1:
            continue
        s = cand[0]
        items.append(T.item(f"tmpl/renorm-{label}/iterates-renorm.matrix", s.loop_iters()[-1:] == ["renorm.matrix"], str(s.loop_iters())))
        # every entry of the coupling matrix is assigned, the zero ones too: the matrix handed to InitRenorm is not guaranteed to be
        # zero-filled (boost::numeric::ublas::matrix leaves fresh storage uninitialised)
        inner = [g for g in s.guards if "renorm" in T.etext(g[0] if isinstance(g, tuple) else g) or True]
        items.append(T.item(f"tmpl/renorm-{label}/every-matrix-entry-assigned-unconditionally", len(s.guards) == 0,
                            f"guards around the assignment: {[T.etext(g[0] if isinstance(g, tuple) else g) for g in s.guards]}"))
        ex = s.exprs
        ok = len(ex) == 3 and isinstance(ex[0], nodes.Getitem) and isinstance(ex[1], nodes.Getitem) and \
            T.etext(ex[0].node) == "elemidxnames" and T.etext(ex[1].node) == "elemidxnames"
        items.append(T.item(f"tmpl/renorm-{label}/site-shape", ok, f"{s!r}"))
        if not ok:
            continue
        items.append(T.decode_vc(f"tmpl/renorm-{label}/row-col-decode-flat-index", s, ex[0].arg, ex[1].arg, "nelem", names))
        lv = s.loops[-1][0].name
        items.append(T.item(f"tmpl/renorm-{label}/value-is-entry-text", __import__("re").fullmatch(rf"{lv}\|stmwrap\(\d+, \d+\)", T.etext(ex[2])) is not None, T.etext(ex[2])))
        nm = s.sets.get("elemidxnames")
        want = "network.elements|map(attribute='element_count')|map('first')|map('prefix', 'IDX_ELEM_')|list"
        items.append(T.item(f"tmpl/renorm-{label}/index-names-follow-network.elements", nm is not None and T.etext(nm) == want, T.etext(nm) if nm is not None else "unbound"))
        fac = [x for x in ss if "ab[" in x.literal and x.loops]
        ok = len(fac) == 1 and fac[0].loop_iters()[-1] == "zip(network.species, renorm.factor)" and \
            [T.etext(e) for e in fac[0].exprs] == ["specidx", "specidx", "fac"] and T.etext(fac[0].sets.get("specidx")) == "spec.alias|prefix('IDX_')"
        items.append(T.item(f"tmpl/renorm-{label}/factor-applied-to-own-slot", ok, f"{fac}"))
    return items


def _register():
    from pyvc.units import Unit, register
    import naunet.templateloader as tlm
    register(Unit("prepare_renorm_content", __name__, make_ctx, entry, functions=[tlm.TemplateLoader._prepare_renorm_content],
                  props=("C16",), timeout_ms=60000))


_register()


def _preprocess(text, defined):
    """#ifdef / #ifndef / #else / #endif with a known macro set (no #if expressions: fails closed)"""
    out, stack = [], []
    for line in text.splitlines():
        t = line.strip()
        m = re.match(r"#\s*(ifdef|ifndef)\s+(\w+)", t)
        if m:
            stack.append((m.group(2) in defined) == (m.group(1) == "ifdef"))
            continue
        if re.match(r"#\s*else\b", t):
            stack[-1] = not stack[-1]
            continue
        if re.match(r"#\s*endif\b", t):
            stack.pop()
            continue
        if t.startswith("#"):
            raise ValueError(f"preprocessor line outside the fragment: {t}")
        if all(stack):
            out.append(line)
    return "\n".join(out)


def hnuclei_items(tier):
    """GetHNuclei of the rendered physics source returns the total of element H - GetElementAbund(y, IDX_ELEM_H) - and nothing
    else, also when the network has deuterium as an element of its own (the reference ratios and the matrix are both normalised by
    this value; the reference side divides by ref[IDX_ELEM_H]).  The body is taken from the rendered file, preprocessed with the
    macros the rendered header defines, and executed by the mini C front end with GetElementAbund uninterpreted."""
    from .native_ode import render, mk_reaction, fresh_species_state, parse_macros, function_body, strip_comments
    from naunet.network import Network
    from pyvc import cmini, smt
    import time
    items = []
    fresh_species_state()
    net = Network([mk_reaction(["H", "D"], ["HD"]), mk_reaction(["HD", "H+"], ["H2", "D+"]), mk_reaction(["D+", "e-"], ["D"]), mk_reaction(["H", "H"], ["H2"]), mk_reaction(["H+", "e-"], ["H"])])
    for backend in [("cvode", "dense", "cpu"), ("odeint", "rosenbrock4", "cpu")]:
        pre = f"physics/{backend[0]}/GetHNuclei"
        t0 = time.time()
        files = render(net, *backend, jac_pattern=False)
        mac = parse_macros(files["include/naunet_macros.h"])
        has = "IDX_ELEM_H" in mac and "IDX_ELEM_D" in mac
        items.append({"name": f"{pre}/network-has-H-and-D-as-elements", "status": "proved" if has else "unknown", "backend": "render", "seconds": 0.0, "detail": f"{sorted(k for k in mac if k.startswith('IDX_ELEM_'))}"})
        try:
            raw = function_body(strip_comments(files["src/naunet_physics.cpp"]), r"double\s+GetHNuclei\s*\(\s*double\s*\*\s*y\s*\)\s*\{")
            body = _preprocess(raw, set(mac))
            stmts = cmini.parse_body(cmini.strip(body))
            y = z3.Const("y", z3.ArraySort(z3.IntSort(), z3.RealSort()))
            GEA = z3.Function("GetElementAbund", z3.ArraySort(z3.IntSort(), z3.RealSort()), z3.IntSort(), z3.RealSort())
            consts = {k: z3.Int(k) for k in mac if k.startswith("IDX_ELEM_")}
            ex = cmini.Exec(consts, {"GetElementAbund": lambda ex_, st_, args: GEA(st_.a[args[0][1]], ex_.ev(args[1], st_))}, max_unroll=0)
            st = ex.run(stmts, cmini.State({}, {"y": y}))
            hyp = [z3.Distinct(*consts.values())] if len(consts) > 1 else []
            status, be, secs, model = smt.check_valid(hyp, z3.And(st.returned, st.retval == GEA(y, consts["IDX_ELEM_H"])), timeout_ms=10000)
            items.append({"name": f"{pre}/returns-the-total-of-element-H", "status": status, "backend": f"cmini+{be}", "seconds": time.time() - t0,
                          "detail": f"retval = {z3.simplify(st.retval)}" + (f"; countermodel {str(model)[:200]}" if model is not None else "")})
        except Exception as e:
            items.append({"name": f"{pre}/returns-the-total-of-element-H", "status": "unknown", "backend": "cmini", "seconds": time.time() - t0, "detail": f"outside the fragment: {type(e).__name__}: {e}"})
    return items


def driver_items(tier):
    """Naunet::Renorm of the rendered cvode / odeint sources: the driver solves M r = ab_ref_ for a *separate* solution vector and
    applies r; the stored reference ratios are read only (so that a second Renorm call uses the same reference).
    A small ownership analysis of the rendered statements under ASSUMED contracts of the library calls:
      N_VMake_Serial(n, p, ctx) wraps the storage p;  N_VNew_Serial allocates fresh storage;  N_VGetArrayPointer(v) is v's storage;
      SUNLinSolSolve(LS, A, x, b, tol) writes x's storage only and reads b;  lu_substitute(A, pm, v) overwrites v in place;
      InitRenorm(ab, A) writes A;  RenormAbundance(r, ab) writes ab and reads r."""
    from .native_ode import render, networks
    from pyvc import cmini
    import re
    items = []

    def item(name, ok, detail=""):
        return {"name": name, "status": "proved" if ok else "refuted", "backend": "ownership-scan", "seconds": 0.0, "detail": detail}
    label, fac = next(x for x in networks("quick", 0) if x[0] == "H2-formation")
    for backend in [("cvode", "dense", "cpu"), ("odeint", "rosenbrock4", "cpu")]:
        pre = f"driver/{backend[0]}"
        files = render(fac(), *backend, jac_pattern=False)
        text = cmini.strip(files["src/naunet.cpp"])
        m = re.search(r"int\s+Naunet::Renorm\s*\([^)]*\)\s*\{", text)
        if not m:
            items.append(item(f"{pre}/Renorm-found", False, "no Naunet::Renorm in the rendered driver"))
            continue
        depth, j = 1, m.end()
        while j < len(text) and depth:
            depth += {"{": 1, "}": -1}.get(text[j], 0)
            j += 1
        body = text[m.end():j - 1]
        store, written, facts = {}, [], {}
        for name, ptr in re.findall(r"N_Vector\s+(\w+)\s*=\s*N_VMake_Serial\(\s*\w+\s*,\s*(\w+)\s*,", body):
            store[name] = ptr
        for name in re.findall(r"N_Vector\s+(\w+)\s*=\s*N_VNew_Serial\(", body):
            store[name] = "fresh:" + name
        for name in re.findall(r"vector_type\s+(\w+)\s*\(", body):
            store[name] = "fresh:" + name
        for name, v in re.findall(r"\*\s*(\w+)\s*=\s*N_VGetArrayPointer\(\s*(\w+)\s*\)", body):
            store[name] = store.get(v, "unknown:" + v)
        for lhs in re.findall(r"\b(\w+)\s*\[[^\]]*\]\s*=(?!=)", body):
            written.append(store.get(lhs, lhs))
        if backend[0] == "cvode":
            sol = re.search(r"SUNLinSolSolve\(\s*\w+\s*,\s*\w+\s*,\s*(\w+)\s*,\s*(\w+)\s*,", body)
            if not sol:
                items.append(item(f"{pre}/solve-call-found", False, "no SUNLinSolSolve(LS, A, x, b, tol)"))
                continue
            x, b = sol.groups()
            written.append(store.get(x, "unknown:" + x))
            items.append(item(f"{pre}/right-hand-side-is-the-stored-reference", store.get(b) == "ab_ref_", f"b = {b} -> {store.get(b)}"))
            items.append(item(f"{pre}/solution-vector-has-its-own-storage", store.get(x, "").startswith("fresh:") and x != b, f"x = {x} -> {store.get(x)}, b = {b}"))
            solvec = store.get(x)
        else:
            sol = re.search(r"lu_substitute\(\s*\w+\s*,\s*\w+\s*,\s*(\w+)\s*\)", body)
            if not sol:
                items.append(item(f"{pre}/solve-call-found", False, "no lu_substitute(A, pm, v)"))
                continue
            x = sol.group(1)
            written.append(store.get(x, "unknown:" + x))
            copy = re.search(rf"for\s*\(\s*int\s+(\w+)\s*=\s*0;\s*\1\s*<\s*NELEMENTS;\s*\1\+\+\s*\)\s*\{{\s*{x}\[\1\]\s*=\s*ab_ref_\[\1\];\s*\}}", body)
            items.append(item(f"{pre}/right-hand-side-is-a-copy-of-the-stored-reference", copy is not None and store.get(x, "").startswith("fresh:"), f"{x} -> {store.get(x)}"))
            solvec = store.get(x)
        app = re.search(r"RenormAbundance\(\s*(\w+)\s*,\s*ab\s*\)", body)
        items.append(item(f"{pre}/factors-computed-from-the-solution", app is not None and store.get(app.group(1), app.group(1)) == solvec,
                          f"RenormAbundance({app.group(1) if app else '?'}, ab)"))
        items.append(item(f"{pre}/frame-stored-reference-not-modified", "ab_ref_" not in written, f"storage written by Renorm: {sorted(set(written))}"))
        m2 = re.search(r"int\s+Naunet::SetReferenceAbund\s*\([^)]*\)\s*\{", text)
        if m2:
            depth, j2 = 1, m2.end()
            while j2 < len(text) and depth:
                depth += {"{": 1, "}": -1}.get(text[j2], 0)
                j2 += 1
            sbody = text[m2.end():j2 - 1]
            asg = re.findall(r"\bab_ref_\s*\[([^\]]*)\]\s*([-+*/]?=)(?!=)\s*([^;]*);", sbody)
            ok = bool(asg) and all(op == "=" and "ab_ref_" not in rhs for _, op, rhs in asg)
            shape = all(re.fullmatch(r"ref\[i\]\s*/\s*ref\[IDX_ELEM_H\]|GetElementAbund\(ref,\s*i\)\s*/\s*Hnuclei", rhs.strip()) for _, _, rhs in asg)
            items.append(item(f"{pre}/reference-ratios-computed-from-the-argument-only", ok, f"{asg}"))
            items.append(item(f"{pre}/reference-ratios-are-element-over-hydrogen", ok and shape and len(asg) == 2, f"{[r for _, _, r in asg]}"))
        else:
            items.append(item(f"{pre}/SetReferenceAbund-found", False, "no Naunet::SetReferenceAbund in the rendered driver (network with H)"))
        ini = re.search(r"InitRenorm\(\s*ab\s*,\s*(\w+)\s*\)", body)
        items.append(item(f"{pre}/matrix-built-from-the-current-abundances", ini is not None and (sol.start() > ini.start()), ""))
    return items
