"""Bounded native checks (labelled *bounded*, never counted as proved) for the generated ODE system:
small networks are built through the real API, rendered with the real TemplateLoader for every back end, and
the emitted text is parsed and evaluated with exact rational arithmetic (contracts/ceval.py).
Also the replay vehicle: a violation is a concrete network + back end + the emitted statement that is wrong."""
from __future__ import annotations
import os, re, random, shutil, tempfile, logging, io, contextlib, itertools
from fractions import Fraction
from pathlib import Path
from . import ceval

BACKENDS = [("cvode", "dense", "cpu"), ("cvode", "sparse", "cpu"), ("cvode", "cusparse", "gpu"), ("odeint", "rosenbrock4", "cpu")]


def _quiet():
    logging.disable(logging.CRITICAL)


def fresh_species_state():
    from naunet.species import Species
    from naunet import chemistrydata
    Species.reset()
    chemistrydata.user_binding_energy.clear()
    chemistrydata.user_photon_yield.clear()


def render(net, solver, method, device, jac_pattern=True):
    """render with the real TemplateLoader into a temp dir; returns {relative file name: text}"""
    from naunet.templateloader import TemplateLoader
    _quiet()
    d = tempfile.mkdtemp(prefix="vf_render_")
    try:
        with contextlib.redirect_stdout(io.StringIO()):
            tl = TemplateLoader(solver, method, device)
            tl.render("vfproj", net, path=Path(d), jac_pattern=jac_pattern)
        out = {}
        for root, _, files in os.walk(d):
            for f in files:
                p = os.path.join(root, f)
                out[os.path.relpath(p, d)] = open(p, errors="replace").read()
        return out
    finally:
        shutil.rmtree(d, ignore_errors=True)


# ------------------------------------------------------------------ parsing of emitted files
def parse_macros(text):
    defs = {}
    lines = text.splitlines()
    i = 0
    active = [True]

    def cval(expr):
        e = re.sub(r"//.*", "", expr).strip()
        ints = {}
        for name in set(re.findall(r"[A-Za-z_][A-Za-z0-9_]*", e)):
            if name in defs:
                ints[name] = cval(defs[name])
        return int(ceval.value(ceval.parse_expr(e), ceval.Env(ints=ints)))

    for ln in lines:
        s = ln.strip()
        if s.startswith("#if "):
            try:
                active.append(active[-1] and bool(cval(s[4:])))
            except Exception:
                active.append(False)
        elif s.startswith("#ifdef"):
            active.append(active[-1] and s.split()[1] in defs)
        elif s.startswith("#ifndef"):
            active.append(active[-1] and s.split()[1] not in defs)
        elif s.startswith("#else"):
            prev = active.pop()
            active.append(active[-1] and not prev)
        elif s.startswith("#endif"):
            if len(active) > 1:
                active.pop()
        elif s.startswith("#define") and active[-1]:
            m = re.match(r"#define\s+(\S+)\s*(.*)", s)
            if m:
                name, val = m.group(1), re.sub(r"//.*", "", m.group(2)).strip()
                if name in defs and name.startswith("IDX_"):
                    defs.setdefault("__redefined__", []).append(name)
                defs[name] = val
    out = {}
    for k, v in defs.items():
        if k == "__redefined__":
            out[k] = v
            continue
        if v == "":
            continue
        try:
            out[k] = cval(v)
        except Exception:
            pass
    return out


def function_body(text, header_regex):
    m = re.search(header_regex, text)
    if not m:
        return ""
    i = text.index("{", m.end() - 1) if text[m.end() - 1] != "{" else m.end() - 1
    depth, j = 0, i
    while j < len(text):
        if text[j] == "{":
            depth += 1
        elif text[j] == "}":
            depth -= 1
            if depth == 0:
                return text[i + 1:j]
        j += 1
    return text[i + 1:]


def strip_comments(t):
    t = re.sub(r"/\*.*?\*/", " ", t, flags=re.S)
    return re.sub(r"//[^\n]*", " ", t)


def statements(body, lhs_pat):
    """[(match groups of lhs..., rhs text)] for `lhs = rhs;` statements whose lhs matches lhs_pat"""
    out = []
    for m in re.finditer(lhs_pat + r"\s*=(?!=)\s*([^;]*);", strip_comments(body), flags=re.S):
        out.append(m.groups())
    return out


# ------------------------------------------------------------------ small-scope networks
def mk_reaction(reactants, products, alpha=1.0, beta=0.0, gamma=0.0, idx=-1, tmin=-1.0, tmax=-1.0, rtype=None):
    from naunet.reactions.reaction import Reaction
    from naunet.reactiontype import ReactionType
    return Reaction(list(reactants), list(products), tmin, tmax, alpha, beta, gamma,
                    rtype or ReactionType.GAS_TWOBODY, idx)


def networks(tier, seed):
    """yield (label, factory) ; factory() -> Network (fresh global species state)"""
    from naunet.network import Network

    def N(label, reacs, **kw):
        def f():
            fresh_species_state()
            net = Network([mk_reaction(*r[:2], **(r[2] if len(r) > 2 else {})) for r in reacs] or None, **kw)
            net._vf_declared_names = {n for r in reacs for n in list(r[0]) + list(r[1]) if n not in ("CR", "CRP", "PHOTON", "CRPHOT", "Photon")} | set(kw.get("required_species", []))
            net._vf_declared_reactions = [([n for n in r[0] if n not in ("CR", "CRP", "PHOTON", "CRPHOT", "Photon")], list(r[1])) for r in reacs]
            return net
        return label, f

    yield N("empty", [])
    yield N("isolated-only", [], required_species=["He", "CO"])
    yield N("H2-formation", [(["H", "H"], ["H2"], dict(alpha=2.0)), (["H2", "CR"], ["H", "H"], dict(alpha=3.0))],
            required_species=["He"])
    yield N("catalysts", [(["H2", "e-"], ["H", "H", "e-"], dict(alpha=1.5)), (["H", "e-"], ["H+", "e-", "e-"], dict(alpha=0.5)),
                          (["H+", "E"], ["H"], dict(alpha=0.25))])
    yield N("three-body", [(["H", "H", "H"], ["H2", "H"], dict(alpha=1.0)), (["H", "H", "H2"], ["H2", "H2"], dict(alpha=2.0)),
                           (["H2", "H"], ["H", "H", "H"], dict(alpha=4.0))])
    yield N("duplicates", [(["C", "H"], ["CH"], dict(alpha=1.0, idx=1)), (["H", "C"], ["CH"], dict(alpha=7.0, idx=2)),
                           (["CH", "O"], ["CO", "H"], dict(alpha=3.0, idx=2, tmin=10.0, tmax=100.0)),
                           (["CH", "O"], ["CO", "H"], dict(alpha=5.0, idx=3, tmin=100.0, tmax=1000.0))])
    yield N("many-products", [(["CH5+", "e-"], ["C", "H2", "H", "H", "H"], dict(alpha=1.0)), (["C", "H2"], ["CH", "H"], dict(alpha=2.0))])
    yield N("ice", [(["#H", "#H"], ["#H2"], dict(alpha=1.0)), (["H"], ["#H"], dict(alpha=2.0)), (["GRAIN0", "e-"], ["GRAIN-"], dict(alpha=3.0)),
                    (["GRAIN-", "H+"], ["GRAIN0", "H"], dict(alpha=4.0))])
    yield N("charge-ladder", [(["GRAIN0", "e-"], ["GRAIN-"], dict(alpha=1.0)), (["GRAIN-", "e-"], ["GRAIN--"], dict(alpha=2.0)),
                              (["GRAIN--", "H+"], ["GRAIN-", "H"], dict(alpha=3.0)), (["C", "C++"], ["C+", "C+"], dict(alpha=4.0)),
                              (["GRAIN0", "H+"], ["GRAIN+", "H"], dict(alpha=7.0)), (["GRAIN+", "GRAIN-"], ["GRAIN0", "GRAIN0"], dict(alpha=8.0)),
                              (["C-", "C+"], ["C", "C"], dict(alpha=5.0)), (["C--", "C++"], ["C", "C"], dict(alpha=6.0))])
    yield N("long-chains", [(["C11", "H"], ["HC11"], dict(alpha=1.0)), (["HC11", "N"], ["HC11N"], dict(alpha=2.0)), (["C", "C10H2"], ["C11", "H2"], dict(alpha=5.0)),
                            (["C10H2", "C2H"], ["C12H3"], dict(alpha=3.0)), (["C12H3", "O"], ["C11", "HCO", "H2"], dict(alpha=4.0))])
    # names that differ only in letter case are different species (para-H2 next to the phosphorus hydrides)
    yield N("case-neighbours", [(["pH2", "H+"], ["oH2", "H+"], dict(alpha=1.0)), (["P", "oH2"], ["PH2"], dict(alpha=2.0)), (["PH2", "H"], ["PH", "pH2"], dict(alpha=3.0)),
                                (["PH", "H"], ["P", "oH2"], dict(alpha=4.0)), (["pH3+", "e-"], ["pH2", "H"], dict(alpha=5.0)), (["PH2", "H+"], ["PH3+"], dict(alpha=6.0)),
                                (["PH3+", "e-"], ["PH2", "H"], dict(alpha=7.0))])
    # species whose index macros are so long that a single three-body term does not fit on an emitted line
    yield N("long-aliases", [(["CH3CH2CH2CH2CH2CH2OH", "HCCCCCCCCCN", "CH3CH2CH2CH2OCH3"], ["CH3CH2CH2CH2CH2CH2OH", "HCCCCCCCCCN", "CH3CH2CH2CH2OCH3"][:1] + ["HCCCCCCCCCN", "CH3CH2CH2CH2OCH3"], dict(alpha=1.0)),
                             (["CH3CH2CH2CH2CH2CH2OH", "CH3CH2CH2CH2CH2CH2OH", "H"], ["CH3CH2CH2CH2CH2CH2OH", "CH3CH2CH2CH2CH2CH2O", "H2"], dict(alpha=2.0)),
                             (["CH3CH2CH2CH2CH2CH2O", "H2"], ["CH3CH2CH2CH2CH2CH2OH", "H"], dict(alpha=3.0))])
    cool_reacs = [(["H", "e-"], ["H+", "e-", "e-"], dict(alpha=1.0)), (["He", "e-"], ["He+", "e-", "e-"], dict(alpha=2.0)),
                  (["He+", "e-"], ["He++", "e-", "e-"], dict(alpha=3.0)), (["H+", "e-"], ["H"], dict(alpha=4.0))]
    yield N("cooling-1", cool_reacs, cooling=["CIC_HI"])
    yield N("cooling-4", cool_reacs, cooling=["CIC_HI", "CIC_HeI", "CIC_He_2S", "RC_HII"])
    yield N("rate-mod", [(["C", "H"], ["CH"], dict(alpha=1.0, idx=5)), (["CH", "H"], ["C", "H2"], dict(alpha=2.0, idx=7)),
                         (["H2", "C"], ["CH", "H"], dict(alpha=3.0, idx=5))], rate_modifier={5: "1.5 * kmod", 9: "2.0"})
    yield N("partly-indexed-rate-mod", [(["C", "H"], ["CH"], dict(alpha=1.0, idx=1)), (["CH", "H"], ["C", "H2"], dict(alpha=2.0, idx=2)),
                                        (["H2", "C"], ["CH", "H"], dict(alpha=3.0)), (["CH", "C"], ["C2", "H"], dict(alpha=4.0))],
            rate_modifier={2: "9.5", 3: "7.5"})
    yield N("rate-mod-zero", [(["C", "H"], ["CH"], dict(alpha=1.0, idx=5)), (["CH", "H"], ["C", "H2"], dict(alpha=2.0, idx=7)),
                              (["H2", "C"], ["CH", "H"], dict(alpha=3.0, idx=9))], rate_modifier={5: 0.0, 7: "2.0", 9: 0})
    yield N("unindexed-rate-mod", [(["C", "H"], ["CH"], dict(alpha=1.0)), (["CH", "H"], ["C", "H2"], dict(alpha=2.0))],
            rate_modifier={1: "3.5"})
    yield N("ode-mod-1", [(["H", "H"], ["H2"], dict(alpha=1.0)), (["H2", "C"], ["CH", "H"], dict(alpha=2.0))],
            ode_modifier={"H2": {"factors": ["-fdiss + 0.5"], "reactants": [["H2"]]},
                          "H": {"factors": ["2.0 * fdiss", "-fdep"], "reactants": [["H2"], ["H"]]}})
    yield N("ode-mod-multi", [(["H", "H"], ["H2"], dict(alpha=1.0)), (["H2", "C"], ["CH", "H"], dict(alpha=2.0))],
            ode_modifier={"H2": {"factors": ["fform"], "reactants": [["H", "H"]]},
                          "CH": {"factors": ["-f3"], "reactants": [["H", "C", "H2"]]}})
    # balanced networks read from files of every line-oriented format, with three-reactant lines (the reader's column handling is part
    # of what conservation rests on)
    def from_file(fmt, el_e):
        def f():
            from . import native_net as NN
            fresh_species_state()
            e = el_e
            specs = [(["H", "H", "H2"], ["H2", "H2"]), (["H", "H", "H"], ["H2", "H"]), (["H+", e, e], ["H", e]), (["H2", "He+"], ["He", "H+", "H"]),
                     (["He+", e], ["He"]), (["H", "He+"], ["H+", "He"])]
            if fmt == "umist":
                specs = [s for s in specs if len(s[0]) <= 2 and len(s[1]) <= 4]
            ars = [NN.AR(r, p, 1.0 + k, 0.0, 0.0, 10, 41000, k + 1, {"kida": 3, "umist": "NN", "leeds": 1, "uclchem": "MA"}[fmt]) for k, (r, p) in enumerate(specs)]
            net = NN.load([NN.ENC[fmt](a) for a in ars], fmt)
            net._vf_declared_names = {("e-" if n in ("E-", "e-", "E") else n) for r, p in specs for n in r + p}
            net._vf_declared_reactions = [([("e-" if n in ("E-", "E") else n) for n in r], [("e-" if n in ("E-", "E") else n) for n in p]) for r, p in specs]
            return net
        return f
    for fmt_, e_ in (("uclchem", "E-"), ("kida", "e-"), ("leeds", "e-"), ("umist", "e-")):
        yield f"file-{fmt_}", from_file(fmt_, e_)

    def upper_replacement():
        # an upper-case element list with a replacement table (UCLCHEM style): counts after a renamed element, ions, ice
        fresh_species_state()
        from naunet.species import Species
        from naunet.network import Network as Net
        Species.set_known_elements(["H", "HE", "C", "O", "SI", "CL", "MG", "E"])
        Species.set_known_pseudoelements(["CRP", "PHOTON"])
        Species._replacement = {"HE": "He", "SI": "Si", "CL": "Cl", "MG": "Mg", "E": "e"}
        rs = [(["SI", "SI"], ["SI2"]), (["SI2", "H"], ["SI2H"]), (["CL", "CL"], ["CL2"]), (["HCL", "H"], ["H2", "CL"]), (["MG", "H+"], ["MG+", "H"]),
              (["MG+", "E-"], ["MG"]), (["HE+", "SI2"], ["HE", "SI+", "SI"]), (["SI+", "E-"], ["SI"]), (["CL2", "H"], ["HCL", "CL"])]
        net = Net([mk_reaction(a, b, alpha=float(k + 1)) for k, (a, b) in enumerate(rs)], elements=["H", "HE", "C", "O", "SI", "CL", "MG", "E"], pseudo_elements=["CRP", "PHOTON"])
        ren = lambda n: re.sub(r"HE|SI|CL|MG", lambda m: {"HE": "He", "SI": "Si", "CL": "Cl", "MG": "Mg"}[m.group()], n).replace("E-", "e-")
        net._vf_declared_names = {ren(n) for a, b in rs for n in a + b}
        return net
    yield "upper-case-replacement", upper_replacement

    def spellings():
        fresh_species_state()
        from naunet.species import Species
        from naunet.network import Network as Net
        def S(n, **kw):
            return Species(n, **kw)
        reacs = [mk_reaction([S("H"), S("e-")], [S("H+"), S("E"), S("e-")], alpha=1.0),
                 mk_reaction([S("H+"), S("E")], [S("H")], alpha=2.0),
                 mk_reaction([S("CO")], [S("#CO")], alpha=3.0),
                 mk_reaction([S("GCO", surface_prefix="G")], [S("CO")], alpha=4.0),
                 mk_reaction([S("oH2D+"), S("e-")], [S("H"), S("H"), S("D")], alpha=5.0),
                 mk_reaction([S("H2"), S("D")], [S("HD"), S("H")], alpha=6.0)]
        return Net(reacs)
    yield "spellings", spellings

    def isotopologues():
        # rare isotopes spelled with a leading mass number: the main and the rare isotopologue, as gas and as ice, are four species
        fresh_species_state()
        from naunet.species import Species
        from naunet.network import Network as Net
        els = [e for e in Species.default_elements] + ["13C", "15N", "18O"]
        Species.set_known_elements(list(els))
        from naunet import chemistrydata
        chemistrydata.update_binding_energy({"#13CO": 1150.0, "#C18O": 1150.0, "#15NH2": 3960.0, "#NH2": 3960.0})
        rs = [(["C", "O"], ["CO"]), (["13C", "O"], ["13CO"]), (["CO"], ["#CO"]), (["13CO"], ["#13CO"]), (["#CO"], ["CO"]), (["#13CO"], ["13CO"]),
              (["13C+", "CO"], ["C+", "13CO"]), (["C+", "e-"], ["C"]), (["13C+", "e-"], ["13C"]), (["C", "18O"], ["C18O"]), (["C18O"], ["#C18O"]),
              (["N", "H2"], ["NH2"]), (["15N", "H2"], ["15NH2"]), (["NH2"], ["#NH2"]), (["15NH2"], ["#15NH2"]), (["#15NH2", "#13CO"], ["15NH2", "#13CO"]),
              (["#13CO", "#NH2"], ["13CO", "NH2"])]
        net = Net([mk_reaction(a, b, alpha=float(k + 1)) for k, (a, b) in enumerate(rs)], elements=list(els))
        net._vf_declared_names = {n for a, b in rs for n in a + b}
        net._vf_declared_reactions = [(list(a), list(b)) for a, b in rs]
        return net
    yield "isotopologue-ices", isotopologues

    def caller_owned_lists():
        # reactions built through the API from lists the caller keeps and edits for the next reaction: a reaction is what was passed
        # when it was created
        fresh_species_state()
        from naunet.species import Species
        from naunet.network import Network as Net
        from naunet.reactions.reaction import Reaction
        from naunet.reactiontype import ReactionType
        declared, reacs = [], []
        lhs, rhs = [Species("H2"), Species("e-")], [Species("H"), Species("H"), Species("e-")]
        for k, (first, prod) in enumerate([("H2", ["H", "H"]), ("HD", ["H", "D"]), ("D2", ["D", "D"])]):
            lhs[0] = Species(first)
            rhs[0], rhs[1] = Species(prod[0]), Species(prod[1])
            reacs.append(Reaction(lhs, rhs, -1.0, -1.0, float(k + 1), 0.0, 0.0, ReactionType.GAS_TWOBODY, -1))
            declared.append(([first, "e-"], prod + ["e-"]))
        names = ["H+", "H2"]
        reacs.append(Reaction(names, ["H3+"], -1.0, -1.0, 7.0, 0.0, 0.0, ReactionType.GAS_TWOBODY, -1))
        declared.append((["H+", "H2"], ["H3+"]))
        names[0] = "D+"
        names.append("He")
        reacs.append(Reaction(names[:2], ["H2D+"], -1.0, -1.0, 8.0, 0.0, 0.0, ReactionType.GAS_TWOBODY, -1))
        declared.append((["D+", "H2"], ["H2D+"]))
        lhs.clear()
        rhs.clear()
        net = Net(reacs)
        net._vf_declared_names = {n for a, b in declared for n in a + b}
        net._vf_declared_reactions = declared
        return net
    yield "caller-owned-lists", caller_owned_lists
    rnd = random.Random(1234 + seed)
    alphabet = ["H", "H2", "C", "CH", "O", "CO", "e-", "H+", "C+", "He"]
    nrand = 6 if tier == "quick" else 40
    for n in range(nrand):
        reacs = []
        for q in range(rnd.randint(1, 6)):
            nr_ = rnd.choice([1, 2, 2, 2, 3])
            np__ = rnd.choice([0, 1, 1, 2, 2, 3, 4])
            reacs.append(([rnd.choice(alphabet) for _ in range(nr_)], [rnd.choice(alphabet) for _ in range(np__)],
                          dict(alpha=float(rnd.randint(1, 9)), idx=rnd.choice([-1, q, q, 3]))))
        kw = {}
        if rnd.random() < 0.3:
            kw["required_species"] = rnd.sample(alphabet, 2)
        yield N(f"random-{n}", reacs, **kw)


# ------------------------------------------------------------------ evaluation
class Rendered:
    def __init__(self, net, backend):
        self.net, self.backend = net, backend
        solver, method, device = backend
        self.files = render(net, solver, method, device)
        self.macros = parse_macros(self.files["include/naunet_macros.h"])
        self.species = list(net.species)
        self.reactions = list(net.reactions)
        ext = "cu" if device == "gpu" else "cpp"
        self.ext = ext
        if solver == "cvode":
            self.fex_text = self.files[f"src/naunet_fex.{ext}"]
            self.jac_text = self.files[f"src/naunet_jac.{ext}"]
        else:
            self.fex_text = self.jac_text = self.files["src/naunet_ode.cpp"]
        self.rates_text = self.files.get(f"src/naunet_rates.{ext}", self.files.get("src/naunet_rates.cpp", self.files.get("src/naunet_ode.cpp", "")))

    # ydot statements: [(index expr text, rhs text)]
    def fex_statements(self):
        solver, method, _ = self.backend
        if method == "cusparse":
            body = function_body(self.fex_text, r"__global__\s+void\s+FexKernel\s*\([^)]*\)\s*\{")
            st = statements(body, r"ydot\[([^\]]+)\]")
            return [(re.sub(r"^\s*yistart\s*\+\s*", "", i), r.replace("y_cur[", "y[")) if re.match(r"^\s*yistart\s*\+", i)
                    else ("__NO_YISTART__" + i, r) for i, r in st]
        if solver == "cvode":
            body = function_body(self.fex_text, r"int\s+Fex\s*\([^)]*\)\s*\{")
        else:
            body = function_body(self.fex_text, r"void\s+Fex::operator\(\)\s*\([^)]*\)\s*\{")
        return statements(body, r"ydot\[([^\]]+)\]")

    def jac_entries(self):
        """{(row, col): rhs text} of the Jacobian the back end fills, plus csr dict for sparse variants"""
        solver, method, _ = self.backend
        txt = self.jac_text
        csr = None
        if method == "dense":
            body = function_body(txt, r"int\s+Jac\s*\([^)]*\)\s*\{")
            ent = {}
            for r, c, rhs in statements(body, r"IJth\(jmatrix,\s*(-?\d+),\s*(-?\d+)\)"):
                ent.setdefault((int(r), int(c)), []).append(rhs)
            return ent, None
        if solver == "odeint":
            body = function_body(txt, r"void\s+Jac::operator\(\)\s*\([^)]*\)\s*\{")
            ent = {}
            for r, c, rhs in statements(body, r"\bj\((-?\d+),\s*(-?\d+)\)"):
                ent.setdefault((int(r), int(c)), []).append(rhs)
            return ent, None
        if method == "sparse":
            body = function_body(txt, r"int\s+Jac\s*\([^)]*\)\s*\{")
            rows = {int(i): int(v) for i, v in statements(body, r"rowptrs\[(\d+)\]")}
            cols = {int(i): int(v) for i, v in statements(body, r"colvals\[(\d+)\]")}
            data = {}
            for i, rhs in statements(body, r"\bdata\[(\d+)\]"):
                data.setdefault(int(i), []).append(rhs)
        else:
            init = function_body(txt, r"int\s+InitJac\s*\([^)]*\)\s*\{")
            m1 = re.search(r"rowptrs\[[^\]]*\]\s*=\s*\{([^}]*)\}", init, flags=re.S)
            m2 = re.search(r"colvals\[[^\]]*\]\s*=\s*\{([^}]*)\}", init, flags=re.S)
            rows = dict(enumerate(int(x) for x in re.findall(r"-?\d+", m1.group(1)))) if m1 else {}
            cols = dict(enumerate(int(x) for x in re.findall(r"-?\d+", m2.group(1)))) if m2 else {}
            body = function_body(txt, r"__global__\s+void\s+JacKernel\s*\([^)]*\)\s*\{")
            data = {}
            for i, rhs in statements(body, r"\bdata\[jistart \+ (\d+)\]"):
                data.setdefault(int(i), []).append(rhs.replace("y_cur[", "y["))
        csr = {"rows": rows, "cols": cols, "data": data}
        return None, csr


def eval_numdens(phys_text, macros, yvals):
    """value of the rendered GetNumDens on a concrete vector (mini C front end, loops unrolled); None when the body is
    outside the fragment (the deductive obligation tmpl/physics/GetNumDens reports that as undecided)"""
    import z3
    from pyvc import cmini
    body = function_body(strip_comments(phys_text), r"double\s+GetNumDens\s*\([^)]*\)\s*\{")
    if not body:
        return None
    try:
        stmts = cmini.parse_body(cmini.strip(body))
        arr = z3.K(z3.IntSort(), z3.RealVal(0))
        for i, v in enumerate(yvals):
            arr = z3.Store(arr, i, z3.RealVal(str(v)))
        consts = {k: z3.IntVal(v) for k, v in macros.items() if isinstance(v, int) and not isinstance(v, bool)}
        ex = cmini.Exec(consts, {}, max_unroll=100000)
        st = ex.run(stmts, cmini.State({}, {"y": arr}))
        r = z3.simplify(st.retval)
        if z3.is_rational_value(r):
            return Fraction(r.numerator_as_long(), r.denominator_as_long())
    except Exception:
        return None
    return None


def rnd_env(macros, rnd, n_eq, nreac, extra_idents=()):
    yv = [Fraction(rnd.randint(1, 9), rnd.randint(1, 7)) for _ in range(max(n_eq, 1) + 2)]
    kv = [Fraction(rnd.randint(1, 9), rnd.randint(1, 5)) for _ in range(nreac + 2)]
    khv = [Fraction(rnd.randint(1, 9), rnd.randint(1, 5)) for _ in range(16)]
    kcv = [Fraction(rnd.randint(1, 9), rnd.randint(1, 5)) for _ in range(16)]
    idents = {"gamma": Fraction(5, 3), "kerg": Fraction(3, 7), "npar": Fraction(11, 2)}
    for n in extra_idents:
        idents[n] = Fraction(rnd.randint(1, 9), rnd.randint(2, 5))
    return yv, kv, khv, kcv, idents


def make_env(macros, yv, kv, khv, kcv, idents, wrt=None, bounds=None):
    def arr(vals, name, size):
        def f(i):
            if bounds is not None and not (0 <= i < size):
                bounds.append((name, i, size))
            if not (0 <= i < len(vals)):
                raise IndexError(f"{name}[{i}]")
            if name == "y" and wrt is not None and i == wrt:
                return ceval.Dual(vals[i], 1)
            return vals[i]
        return f
    neq = macros.get("NEQUATIONS", 1)
    ints = {k: v for k, v in macros.items() if isinstance(v, int)}
    return ceval.Env(arrays={"y": arr(yv, "y", neq), "k": arr(kv, "k", macros.get("NREACTIONS", 1)),
                             "kh": arr(khv, "kh", macros.get("NHEATPROCS", 0)), "kc": arr(kcv, "kc", macros.get("NCOOLPROCS", 0))},
                     idents=idents, ints=ints)


def expected_rhs(net, yv, kv, khv, kcv, idents, ode_modifier):
    """mass action law recomputed from the reaction list (species identity by naunet's Species ==, slots by the
    emitted IDX macros are cross-checked separately)"""
    species = list(net.species)
    n = len(species)
    out = [Fraction(0)] * (n + 1)
    idents_ = [indep_identity(sp.name) for sp in species]

    class _Slots:
        """slot of a species by an independent reading of its name (falls back to naunet's == for spellings outside the mini grammar)"""

        def index(self, s):
            ident = indep_identity(s.name)
            if ident is not None and not (s.name.startswith("G") and s.is_surface):
                hit = [i for i, x in enumerate(idents_) if x == ident and not (species[i].name.startswith("G") and species[i].is_surface)]
                if len(hit) == 1:
                    return hit[0]
            return species.index(s)
    slots_of = _Slots()
    declared = getattr(net, "_vf_declared_reactions", None)
    if declared is not None and len(declared) == len(net.reactions):
        # the network description itself (names as written), not the parsed reaction objects
        def by_name(nm):
            ident = indep_identity(nm)
            hit = [i for i, x in enumerate(idents_) if x == ident and ident is not None]
            return hit[0] if len(hit) == 1 else None
        for r, (rn, pn) in enumerate(declared):
            rs_, ps_ = [by_name(x) for x in rn], [by_name(x) for x in pn]
            if None in rs_ or None in ps_:
                declared = None
                break
        if declared is not None:
            out = [Fraction(0)] * (n + 1)
            for r, (rn, pn) in enumerate(declared):
                if not rn and not pn:
                    continue
                flux = kv[r]
                for x in rn:
                    flux *= yv[by_name(x)]
                for x in rn:
                    out[by_name(x)] -= flux
                for x in pn:
                    out[by_name(x)] += flux
            return out
    for r, reac in enumerate(net.reactions):
        slots = [slots_of.index(s) for s in reac.reactants]
        flux = kv[r]
        for s in slots:
            flux *= yv[s]
        if not reac.reactants and not reac.products:
            continue
        for s in slots:
            out[s] -= flux
        for p in reac.products:
            out[slots_of.index(p)] += flux
    return out


def identifiers(expr_text):
    return set(re.findall(r"[A-Za-z_][A-Za-z0-9_]*", expr_text))


def check_network(label, net, tier, seed, want):
    """-> list of violation dicts for the properties in `want` (subset of {'C01','C02','C03','C04','C13'})"""
    from naunet.species import Species
    viol = []

    def V(prop, what, **kw):
        d = {"property": prop, "network": label, "what": what}
        d.update(kw)
        d["signature"] = f"{prop}:{label}:{kw.get('backend', '')}:{what.split(':')[0]}"
        viol.append(d)

    rnd = random.Random(99 + seed)
    dense_cache = {}
    # the index a rate-modifier key refers to is the one visible BEFORE rendering: the index read from the file, or the position
    # when no reaction of the network carries an index (documented re-indexing); an unindexed reaction of a partly indexed network is
    # never targeted
    _idx0 = [r.idxfromfile for r in net.reactions]
    key_of = list(range(len(_idx0))) if all(i == -1 for i in _idx0) else [(i if i != -1 else None) for i in _idx0]
    if "C13" in want and (net.rate_modifier or {}) and _idx0 and all(i != -1 for i in _idx0):
        # export of a fully indexed network: in the exported project every modifier key still names the reactions it named in the network
        # (the exchange file keeps the indices, the project file keeps the keys)
        import copy as _copy
        d_ = tempfile.mkdtemp(prefix="vf_c13exp_")
        try:
            from naunet.network import Network as _NetX
            import tomlkit as _tk
            src = [(r.idxfromfile, sorted(s.name for s in r.reactants), sorted(s.name for s in r.products)) for r in net.reactions]
            with contextlib.redirect_stdout(io.StringIO()):
                net.export("proj", prefix=d_)
            keys = [int(k) for k in _tk.loads(open(os.path.join(d_, "proj", "naunet_config.toml")).read())["chemistry"]["rate_modifier"]]
            fresh_keep = (list(Species.known_elements()), list(Species.known_pseudoelements()))
            back = _NetX(filelist=os.path.join(d_, "proj", "reactions.naunet"), fileformats="naunet", **({"elements": list(net._known_elements), "pseudo_elements": list(net._known_pseudo_elements)} if net._known_elements else {}))
            got = [(r.idxfromfile, sorted(s.name for s in r.reactants), sorted(s.name for s in r.products)) for r in back.reaction_list]
            for k in sorted(set(keys) | set(net.rate_modifier)):
                a_ = sorted((x[1], x[2]) for x in src if x[0] == k)
                b_ = sorted((x[1], x[2]) for x in got if x[0] == k)
                if a_ != b_:
                    V("C13", f"exported-project-modifier-target: rate-modifier key {k} names {a_} in the network but {b_} in the exported project (reactions.naunet + naunet_config.toml)")
                    break
        except Exception as e:
            V("C13", f"export-raises: {type(e).__name__}: {e}")
        finally:
            shutil.rmtree(d_, ignore_errors=True)
    if "C13" in want and ((net.rate_modifier or {}) or (net.ode_modifier or {})):
        # both kinds of modifier reach the project file unchanged (the path `naunet render` reads them back from)
        try:
            import tomlkit
            from naunet.configuration import NetworkConfiguration
            chem = tomlkit.loads(NetworkConfiguration("p", net).content)["chemistry"]
            got_rm = {str(k): (v if isinstance(v, str) else float(v)) for k, v in chem["rate_modifier"].items()}
            want_rm = {str(k): (v if isinstance(v, str) else float(v)) for k, v in (net.rate_modifier or {}).items()}
            if got_rm != want_rm:
                V("C13", f"project-file-rate-modifier: network has {want_rm}, project file holds {got_rm}")
            got_om = {k: {"factors": [str(x) for x in v["factors"]], "reactants": [list(x) for x in v["reactants"]]} for k, v in chem["ode_modifier"].items()}
            want_om = {k: {"factors": [str(x) for x in v["factors"]], "reactants": [list(x) for x in v["reactants"]]} for k, v in (net.ode_modifier or {}).items()}
            if got_om != want_om:
                V("C13", f"project-file-ode-modifier: network has {want_om}, project file holds {got_om}")
        except Exception as e:
            V("C13", f"project-file-raises: {type(e).__name__}: {e}")
    for backend in BACKENDS:
        bname = "/".join(backend[:2])
        try:
            R = Rendered(net, backend)
        except Exception as e:
            for p_ in sorted(want):
                V(p_, f"render-failed: {type(e).__name__}: {e}", backend=bname)
            continue
        mac = R.macros
        species, nspec = R.species, len(R.species)
        thermal = bool(net.heating or net.cooling)
        neq_expected = max(nspec + (1 if thermal else 0), 1)
        # ---- macros (C03/C09 sizing)
        if "C03" in want:
            if mac.get("NEQUATIONS") != neq_expected:
                V("C03", f"NEQUATIONS: macro {mac.get('NEQUATIONS')} != {neq_expected}", backend=bname)
            if mac.get("NREACTIONS") != len(net.reactions):
                V("C03", f"NREACTIONS: macro {mac.get('NREACTIONS')} != {len(net.reactions)}", backend=bname)
            if mac.get("NSPECIES") != nspec:
                V("C03", f"NSPECIES: macro {mac.get('NSPECIES')} != {nspec}", backend=bname)
        slot_of = {}
        for i, sp in enumerate(species):
            v = mac.get(f"IDX_{sp.alias}")
            slot_of[i] = v
            if v != i and ("C01" in want or "C03" in want):
                V("C01", f"IDX-macro: IDX_{sp.alias} is {v}, species position {i}", backend=bname)
        if mac.get("__redefined__") and "C01" in want:
            V("C01", f"IDX-redefined: {mac['__redefined__']}", backend=bname)
        # ---- rate slots (C03): every k[i] written by EvalRates addresses a slot of the array, each slot is written
        if "C03" in want or "C01" in want:
            tg = [int(i) for i, _ in statements(strip_comments(R.rates_text), r"\bk\[(\d+)\]")]
            nre = len(R.reactions)
            bad = sorted({i for i in tg if not (0 <= i < nre)})
            if bad:
                V("C03" if "C03" in want else "C01", f"rate-subscript-out-of-range: EvalRates writes k{bad[:4]} but k has {nre} elements", backend=bname)
            miss = sorted(set(range(nre)) - set(tg))
            if miss and tg:
                V("C03" if "C03" in want else "C01", f"rate-slot-never-written: k{miss[:4]} is not assigned by EvalRates", backend=bname)
        # ---- rate overrides (C13): k[i] of a reaction carrying a modified index is the user's text, every other k[i] the reaction's own rate
        if "C13" in want and (net.rate_modifier or {}):
            norm = lambda t: re.sub(r"\s+", "", t)
            body = strip_comments(R.rates_text)
            last = {}
            for i, rhs in statements(body, r"\bk\[(\d+)\]"):
                last[int(i)] = rhs
            for i, reac in enumerate(R.reactions):
                if i not in last:
                    V("C13", f"rate-statement-missing: no assignment to k[{i}] in EvalRates", backend=bname)
                    continue
                key = key_of[i] if i < len(key_of) else reac.idxfromfile
                if key is not None and key in net.rate_modifier:
                    if norm(last[i]) != norm(str(net.rate_modifier[key])):
                        V("C13", f"rate-override-not-applied: reaction {i} carries index {key} (modifier {net.rate_modifier[key]!r}) but k[{i}] = {last[i].strip()[:80]!r}", backend=bname)
                else:
                    try:
                        own = reac.rateexpr(net.grains[0] if getattr(net, "grains", None) else None)
                    except Exception:
                        continue
                    if norm(last[i]) != norm(own):
                        V("C13", f"rate-of-untargeted-reaction-changed: reaction {i} (index {key}) k[{i}] = {last[i].strip()[:80]!r}, own rate {own[:80]!r}", backend=bname)
        # ---- right-hand side
        try:
            fst = R.fex_statements()
        except Exception as e:
            V("C01", f"fex-unparsable: {e}", backend=bname)
            continue
        user_syms = set()
        om = net.ode_modifier or {}
        rm = net.rate_modifier or {}
        for ent in om.values():
            for f in ent["factors"]:
                user_syms |= identifiers(f)
        user_syms -= {"y", "k"}
        yv, kv, khv, kcv, idents = rnd_env(mac, rnd, neq_expected, len(net.reactions), sorted(user_syms))
        bounds = []
        env = make_env(mac, yv, kv, khv, kcv, idents, bounds=bounds)
        got = {}
        for idx_text, rhs in fst:
            try:
                if idx_text.startswith("__NO_YISTART__"):
                    raise ceval.CSyntaxError("kernel statement does not address ydot[yistart + ...]")
                slot = int(ceval.value(ceval.parse_expr(idx_text), env))
                val = ceval.value(ceval.parse_expr(rhs), env)
            except Exception as e:
                V("C01", f"fex-statement-invalid: ydot[{idx_text}] = {rhs[:80]!r}: {type(e).__name__}: {e}", backend=bname)
                continue
            if slot in got:
                V("C01", f"fex-duplicate-assignment: ydot[{slot}]", backend=bname)
            got[slot] = (val, rhs)
            if not (0 <= slot < neq_expected) and "C03" in want:
                V("C03", f"ydot-subscript-out-of-range: {slot} >= {neq_expected}", backend=bname)
        exp = expected_rhs(net, yv, kv, khv, kcv, idents, om)
        # modifiers (C13): species named gets + fact * prod deps
        modexp = [Fraction(0)] * (nspec + 1)
        for sname, ent in om.items():
            si = species.index(Species(sname, **net._species_kwargs))
            for fact, deps in zip(ent["factors"], ent["reactants"]):
                t = ceval.value(ceval.parse_expr(fact), ceval.Env(idents=idents))
                for d in deps:
                    t *= yv[species.index(Species(d, **net._species_kwargs))]
                modexp[si] += t
        if "C01" in want or "C13" in want or "C04" in want:
            for i in range(nspec):
                if i not in got:
                    V("C01", f"fex-missing: no ydot statement for species slot {i} ({species[i].name})", backend=bname)
                    continue
                if got[i][0] != exp[i] + modexp[i]:
                    which = "C13" if (modexp[i] != 0 and "C13" in want) else "C01"
                    V(which if which in want else "C01", f"fex-value: d[{species[i].name}]/dt emitted {got[i][1][:120]!r} evaluates to {got[i][0]}, "
                      f"mass action (+modifiers) gives {exp[i] + modexp[i]}", backend=bname)
        if thermal and "C01" in want:
            tslot = nspec
            hsum = Fraction(0)
            for h, proc in enumerate(net.heating):
                t = khv[h]
                for s in proc.reactants:
                    t *= yv[species.index(s)]
                hsum += t
            csum = Fraction(0)
            cnames = list(getattr(net, "_cooling_names", []) or [])
            for c, proc in enumerate(net.cooling):
                t = kcv[c]
                # colliding partners from the literature (Cen 1992), not from the object under test
                partners = COLLIDERS.get(cnames[c]) if c < len(cnames) else None
                if partners is not None:
                    for nm in partners:
                        hit = [i for i, sp in enumerate(species) if indep_identity(sp.name) == indep_identity(nm)]
                        if len(hit) != 1:
                            V("C01", f"thermal-partner-slot: {cnames[c]} needs {nm}, found {len(hit)} slots", backend=bname)
                            t = None
                            break
                        t *= yv[hit[0]]
                    if t is None:
                        continue
                else:
                    for s in proc.reactants:
                        t *= yv[species.index(s)]
                csum += t
            # particle density of the temperature equation: npar is bound to GetNumDens of the state vector and GetNumDens,
            # as rendered, adds up the species abundances only (the temperature slot is not a particle)
            fbody = strip_comments(R.fex_text)
            mnp = re.search(r"\bnpar\s*=\s*([^;]+);", fbody)
            if not mnp:
                V("C01", "particle-density-binding: the equation body never defines npar", backend=bname)
            elif re.sub(r"\s+", "", mnp.group(1)) not in ("GetNumDens(y)", "GetNumDens(y_cur)"):
                V("C01", f"particle-density-binding: npar = {mnp.group(1).strip()!r}, expected GetNumDens of the state vector", backend=bname)
            nd = eval_numdens(R.files.get(f"src/naunet_physics.{R.ext}", ""), mac, yv[:neq_expected])
            if nd is not None and nd != sum(yv[:nspec], Fraction(0)):
                V("C01", f"particle-density: GetNumDens(y) = {nd} for y = {[str(x) for x in yv[:neq_expected]]} (last slot is the temperature), "
                  f"sum of the {nspec} species abundances is {sum(yv[:nspec], Fraction(0))}", backend=bname)
            want_t = (idents["gamma"] - 1) * (hsum - csum) / idents["kerg"] / idents["npar"]
            if tslot not in got:
                V("C01", "fex-missing: temperature equation", backend=bname)
            elif got[tslot][0] != want_t:
                V("C01", f"thermal-equation: emitted {got[tslot][1][:120]!r} = {got[tslot][0]} expected {want_t}", backend=bname)
        if "C04" in want:
            viol.extend(conservation(label, net, R, got, yv, env, bname))
        if "C03" in want:
            for (nm, i, size) in bounds:
                V("C03", f"subscript-out-of-bounds: {nm}[{i}] with declared size {size}", backend=bname)
        # ---- Jacobian
        if not ({"C02", "C03"} & set(want)):
            continue
        try:
            dense, csr = R.jac_entries()
        except Exception as e:
            V("C02", f"jac-unparsable: {e}", backend=bname)
            continue
        n = neq_expected
        entries = {}
        if csr is not None:
            rows, cols, data = csr["rows"], csr["cols"], csr["data"]
            nnz = mac.get("NNZ")
            if "C03" in want:
                if sorted(rows) != list(range(n + 1)):
                    V("C03", f"csr-rowptrs-assigned: indices {sorted(rows)[:12]} expected 0..{n}", backend=bname)
                if sorted(cols) != list(range(nnz or 0)) or sorted(data) != list(range(nnz or 0)):
                    V("C03", f"csr-sizes: colvals idx {len(cols)}, data idx {len(data)}, NNZ {nnz}", backend=bname)
                if rows and (rows.get(0) != 0 or any(rows.get(r, 0) > rows.get(r + 1, -1) for r in range(n)) or rows.get(n) != nnz):
                    V("C03", f"csr-rowptrs-malformed: {[rows.get(r) for r in range(n + 1)]} NNZ={nnz}", backend=bname)
                if any(len(v) != 1 for v in data.values()):
                    V("C03", "csr-data-assigned-twice", backend=bname)
            for r in range(n):
                lo, hi = rows.get(r, 0), rows.get(r + 1, 0)
                prev = -1
                for p in range(lo, hi):
                    c = cols.get(p)
                    if c is None or not (0 <= c < n) or c <= prev:
                        if "C03" in want:
                            V("C03", f"csr-columns: row {r} position {p} column {c} (previous {prev})", backend=bname)
                        if c is None:
                            continue
                    prev = c
                    if p in data:
                        entries[(r, c)] = data[p][0]
        else:
            for (r, c), v in dense.items():
                if len(v) != 1 and "C03" in want:
                    V("C03", f"jac-entry-assigned-twice: ({r},{c})", backend=bname)
                if not (0 <= r < n and 0 <= c < n):
                    if "C03" in want:
                        V("C03", f"jac-subscript-out-of-range: ({r},{c}) in {n}x{n}", backend=bname)
                    continue
                entries[(r, c)] = v[0]
        dense_cache[bname] = entries
        if "C02" in want:
            # entry (i,j) == d(emitted rhs_i)/dy_j, omitted entries identically zero (checked at a random point)
            rhs_ast = {}
            for idx_text, rhs in fst:
                try:
                    slot = int(ceval.value(ceval.parse_expr(idx_text.replace("__NO_YISTART__", "")), env))
                    rhs_ast[slot] = ceval.parse_expr(rhs)
                except Exception:
                    pass
            for i in range(n):
                for j in range(nspec):
                    envd = make_env(mac, yv, kv, khv, kcv, idents, wrt=j)
                    try:
                        d = ceval.value_and_deriv(rhs_ast[i], envd)[1] if i in rhs_ast else Fraction(0)
                    except Exception as e:
                        continue
                    if (i, j) in entries:
                        try:
                            v = ceval.value(ceval.parse_expr(entries[(i, j)]), env)
                        except Exception as e:
                            V("C02", f"jac-entry-invalid: ({i},{j}) {entries[(i, j)][:100]!r}: {type(e).__name__}: {e}", backend=bname)
                            continue
                        if v != d:
                            V("C02", f"jac-value: entry ({i},{j}) emitted {entries[(i, j)][:100]!r} = {v}, derivative of emitted rhs = {d}", backend=bname)
                    elif d != 0:
                        V("C02", f"jac-missing: entry ({i},{j}) omitted but derivative is {d}", backend=bname)
        if "C03" in want and "jac_pattern.dat" in R.files:
            pat = [ln.split() for ln in R.files["jac_pattern.dat"].splitlines() if ln.strip()]
            marked = {(r, c) for r, row in enumerate(pat) for c, x in enumerate(row) if x == "1"}
            if marked != set(entries):
                V("C03", f"pattern-file: marks {sorted(marked)[:8]}... stored {sorted(entries)[:8]}...", backend=bname)
    if "C03" in want and len(dense_cache) > 1:
        names = list(dense_cache)
        base = dense_cache[names[0]]
        rnd2 = random.Random(5)
        for nm in names[1:]:
            other = dense_cache[nm]
            if set(other) != set(base):
                V("C03", f"layouts-disagree: {names[0]} stores {len(base)} entries, {nm} stores {len(other)}; "
                  f"difference {sorted(set(base) ^ set(other))[:6]}", backend=nm)
                continue
            for key in base:
                a = re.sub(r"\s+", "", base[key])
                b = re.sub(r"\s+", "", other[key])
                if a != b:
                    V("C03", f"layouts-disagree: value at {key}: {base[key][:60]!r} vs {other[key][:60]!r}", backend=nm)
    return viol


COLLIDERS = {"CIC_HI": ["H", "e-"], "CIC_HeI": ["He", "e-"], "CIC_HeII": ["He+", "e-"], "CIC_He_2S": ["He+", "e-", "e-"],
             "RC_HII": ["H+", "e-"], "RC_HeI": ["He+", "e-"], "RC_HeII": ["He+", "e-"], "RC_HeIII": ["He++", "e-"],
             "CEC_HI": ["H", "e-"], "CEC_HeII": ["He+", "e-"]}
_ELEMS = ["GRAIN", "13C", "15N", "18O", "He", "Si", "Mg", "Fe", "Na", "Cl", "H", "D", "C", "N", "O", "S", "P", "F"]


def indep_identity(name):
    """(phase, composition, charge) of a species name, parsed independently of naunet (None if the spelling is outside this
    mini grammar: [#|G-before-capital] (Element [count])+ [+...|-...], the electron spelled e- / E / E-)"""
    if name in ("e-", "E", "E-", "e"):
        return ("gas", (("e", 1),), -1)
    m = re.fullmatch(r"(#?)(.*?)(\+*|-*)", name)
    phase, body, chg = m.group(1), m.group(2), m.group(3)
    charge = len(chg) if chg.startswith("+") else -len(chg)
    comp, i = {}, 0
    while i < len(body):
        for e in _ELEMS:
            if body.startswith(e, i):
                i += len(e)
                mm = re.match(r"\d+", body[i:])
                if mm and any(body.startswith(iso, i) for iso in ("13C", "15N", "18O")):
                    mm = None      # the digits are the mass number of the next (rare isotope) element, not a count
                n = int(mm.group()) if mm else 1
                if mm:
                    i += mm.end()
                if e == "GRAIN":
                    comp["GRAIN"] = comp.get("GRAIN", 0) + 1      # the number after GRAIN is a group label, not a count
                else:
                    comp[e] = comp.get(e, 0) + n
                break
        else:
            return None
    if not comp:
        return None
    return ("ice" if phase else "gas", tuple(sorted(comp.items())), charge)


def conservation(label, net, R, got, yv, env, bname):
    """balanced network => weighted sums of the emitted derivatives vanish; GetElementAbund == sum count*y"""
    out = []

    def V(what):
        out.append({"property": "C04", "network": label, "what": what, "backend": bname,
                    "signature": f"C04:{label}:{bname}:{what.split(':')[0]}"})
    species = R.species
    elems = sorted({e for sp in species for e in sp.element_count})
    comp = {i: dict(sp.element_count) for i, sp in enumerate(species)}
    charge = {i: sp.charge for i, sp in enumerate(species)}
    # independent reading of the names: the tool's own composition / charge must agree with it, and species that differ in it must
    # not share a slot (the weights below would otherwise follow a defect of the parser instead of exposing it)
    declared = getattr(net, "_vf_declared_names", None)
    for i, sp in enumerate(species):
        ident = indep_identity(sp.name)
        if ident is None or sp.name.startswith("G") and sp.is_surface:
            continue
        want_comp = {k: v for k, v in ident[1] if k not in ("e",)}
        have_comp = {k: v for k, v in comp[i].items() if v}
        if ident[1] != (("e", 1),) and have_comp != want_comp:
            V(f"composition: {sp.name} is read as {have_comp}, the name says {want_comp}")
        if charge[i] != ident[2]:
            V(f"charge: {sp.name} is read with charge {charge[i]}, the name says {ident[2]}")
    if declared:
        idents = {}
        for nm in declared:
            ident = indep_identity(nm)
            if ident is not None and not nm.startswith("G"):
                idents.setdefault(ident, set()).add(nm)
        slots = {}
        for nm in declared:
            ident = indep_identity(nm)
            if ident is None or nm.startswith("G"):
                continue
            hit = [i for i, sp in enumerate(species) if indep_identity(sp.name) == ident]
            if len(hit) != 1:
                V(f"slots: species {nm} of the network description has {len(hit)} slots among {[s.name for s in species]}")

    def total(sp_list, key):
        if key == "charge":
            return sum(s.charge for s in sp_list)
        return sum(s.element_count.get(key, 0) for s in sp_list)
    decl_r = getattr(net, "_vf_declared_reactions", None)

    def dtotal(names_, key):
        tot = 0
        for nm in names_:
            ident = indep_identity(nm)
            if ident is None:
                return None
            tot += ident[2] if key == "charge" else dict(ident[1]).get(key, 0)
        return tot
    for key in elems + ["charge"]:
        if key in ("e", "E"):
            continue          # electrons are covered by the charge balance; "e" is not a chemical element
        balanced = all(total(r.reactants, key) == total(r.products, key) for r in net.reactions)
        if decl_r is not None:
            db = [(dtotal(rn, key), dtotal(pn, key)) for rn, pn in decl_r]
            if all(a is not None and b is not None for a, b in db):
                balanced = all(a == b for a, b in db)      # what the network description says, independent of the readers
        if not balanced or (net.ode_modifier or {}):
            continue
        tot = Fraction(0)
        for i in range(len(species)):
            if i in got:
                w = charge[i] if key == "charge" else comp[i].get(key, 0)
                tot += w * got[i][0]
        if tot != 0:
            V(f"not-conserved: {key}: weighted sum of emitted derivatives is {tot}")
    # one ODE variable per chemical species irrespective of spelling
    for i, a in enumerate(species):
        for j in range(i + 1, len(species)):
            if a == species[j]:
                V(f"two-slots-one-species: {a.name} and {species[j].name}")
    phys = R.files.get(f"src/naunet_physics.{R.ext}", R.files.get("src/naunet_physics.cpp", ""))
    body = function_body(phys, r"double\s+GetElementAbund\s*\([^)]*\)\s*\{")
    for m in re.finditer(r"if\s*\(elemidx == (IDX_ELEM_\w+)\)\s*\{\s*return\s+([^;]*);", strip_comments(body), flags=re.S):
        ename = m.group(1)[len("IDX_ELEM_"):]
        try:
            val = ceval.value(ceval.parse_expr(m.group(2)), env)
        except Exception as e:
            V(f"GetElementAbund-invalid: {ename}: {e}")
            continue
        exp = sum(Fraction(sp.element_count.get(ename, 0)) * yv[i] for i, sp in enumerate(species))
        if val != exp:
            V(f"GetElementAbund-value: {ename}: emitted {val} expected {exp}")
    return out


def oracle_for(prop):
    def oracle(tier, seed):
        _quiet()
        cases, viol, samples = 0, [], []
        for label, factory in networks(tier, seed):
            try:
                net = factory()
            except Exception as e:
                viol.append({"property": prop, "network": label, "what": f"network-construction: {e}",
                             "signature": f"{prop}:{label}::network-construction"})
                continue
            v = check_network(label, net, tier, seed, {prop})
            cases += len(BACKENDS)
            viol.extend(x for x in v if x["property"] == prop)
            if len(samples) < 5:
                samples.append({"network": label, "species": [s.name for s in net.species],
                                "reactions": [f"{r:minimal}" for r in net.reaction_list][:6]})
        if prop == "C13":
            try:
                fresh_species_state()
                from naunet.network import Network
                reacs = [(["C", "H"], ["CH"], dict(alpha=1.0)), (["CH", "H"], ["C", "H2"], dict(alpha=2.0))]
                base = Network([mk_reaction(*r[:2], **r[2]) for r in reacs])
                fresh_species_state()
                odd = Network([mk_reaction(*r[:2], **r[2]) for r in reacs], ode_modifier={"OH": {"factors": ["2.5"], "reactants": [["H"]]}})
                cases += 1
                try:
                    fo = Rendered(odd, BACKENDS[0]).fex_statements()
                except Exception:
                    fo = None        # refused: fine
                if fo is not None:
                    fb = Rendered(base, BACKENDS[0]).fex_statements()
                    norm = lambda st: sorted((i.strip(), " ".join(r.split())) for i, r in st)
                    if norm(fo) != norm(fb):
                        viol.append({"property": "C13", "network": "modifier-for-absent-species", "what": "absent-target: an ODE modifier naming OH (not a species of the network) was accepted and changed the equations "
                                     + str([x for x in norm(fo) if x not in norm(fb)][:2]), "signature": "C13:modifier-for-absent-species::absent-target"})
            except Exception as e:
                viol.append({"property": "C13", "network": "modifier-for-absent-species", "what": f"raises: {type(e).__name__}: {e}", "signature": "C13:modifier-for-absent-species::raises"})
            # two networks in one process, both built without modifiers; modifiers are then added to the first one in place (through the
            # tables its properties hand out): the second one still has none
            try:
                fresh_species_state()
                reacs = [(["C", "H"], ["CH"], dict(alpha=1.0, idx=1)), (["CH", "H"], ["C", "H2"], dict(alpha=2.0, idx=2)), (["H", "H"], ["H2"], dict(alpha=3.0, idx=3))]
                na = Network([mk_reaction(*r[:2], **r[2]) for r in reacs])
                nb = Network([mk_reaction(*r[:2], **r[2]) for r in reacs])
                before = Rendered(nb, BACKENDS[0])
                ref_f, ref_k = sorted(before.fex_statements()), strip_comments(before.rates_text)
                na.rate_modifier[2] = "7.5e-12"
                na.ode_modifier["H2"] = {"factors": ["-fdiss"], "reactants": [["H2"]]}
                cases += 1
                after = Rendered(nb, BACKENDS[0])
                if sorted(after.fex_statements()) != ref_f or strip_comments(after.rates_text) != ref_k or nb.rate_modifier or nb.ode_modifier:
                    viol.append({"property": "C13", "network": "two-networks-one-edited", "what": f"untargeted-network-changed: modifiers added to one network show up in another: rate_modifier {dict(nb.rate_modifier)}, ode_modifier {dict(nb.ode_modifier)}",
                                 "signature": "C13:two-networks-one-edited::untargeted-network-changed"})
                fa = Rendered(na, BACKENDS[0])
                if "7.5e-12" not in strip_comments(fa.rates_text) or not any("fdiss" in r for _, r in fa.fex_statements()):
                    viol.append({"property": "C13", "network": "two-networks-one-edited", "what": "in-place-edit-lost: modifiers added to a network in place do not reach its sources",
                                 "signature": "C13:two-networks-one-edited::in-place-edit-lost"})
            except Exception as e:
                viol.append({"property": "C13", "network": "two-networks-one-edited", "what": f"raises: {type(e).__name__}: {e}", "signature": "C13:two-networks-one-edited::raises"})
            # history: two reactions carry the same file index and a rate modifier names it; one of them is removed - the one that is
            # left is still a targeted reaction and keeps the override (the modifier table is not the removal's to edit)
            try:
                fresh_species_state()
                reacs = [(["C", "H"], ["CH"], dict(alpha=1.0, idx=5)), (["CH", "H"], ["C", "H2"], dict(alpha=2.0, idx=7)), (["H2", "C"], ["CH", "H"], dict(alpha=3.0, idx=5))]
                for how in ("position", "instance"):
                    nr_ = Network([mk_reaction(*r[:2], **r[2]) for r in reacs], rate_modifier={5: "1.25e-11 * kmod5", 7: "2.5e-12"})
                    nr_.remove_reaction(0 if how == "position" else nr_.reaction_list[0])
                    cases += 1
                    txt = strip_comments(Rendered(nr_, BACKENDS[0]).rates_text)
                    if "kmod5" not in txt or "2.5e-12" not in txt:
                        viol.append({"property": "C13", "network": "removal-of-one-of-two-targeted", "what": f"override-lost-after-removal: reactions 0 and 2 share file index 5 (modifier `1.25e-11 * kmod5`); after removing reaction 0 by {how} "
                                     f"the remaining one is rendered without the override (modifier table now {dict(nr_.rate_modifier)})", "signature": "C13:removal-of-one-of-two-targeted::override-lost-after-removal"})
                        break
            except Exception as e:
                viol.append({"property": "C13", "network": "removal-of-one-of-two-targeted", "what": f"raises: {type(e).__name__}: {e}", "signature": "C13:removal-of-one-of-two-targeted::raises"})
        if prop in ("C13", "C03", "C01", "C02"):
            # history: ONE loader object renders a network, a modifier is added to the network, the same loader renders again: the
            # second set of sources is the one a fresh loader writes for the edited network (equations, Jacobian, CSR arrays, NNZ)
            try:
                import tempfile as _tf, shutil as _sh
                from naunet.templateloader import TemplateLoader
                from naunet.network import Network as _NetL
                Network_ = _NetL
                fresh_species_state()
                reacs = [(["C", "H"], ["CH"], dict(alpha=1.0, idx=1)), (["CH", "H"], ["C", "H2"], dict(alpha=2.0, idx=2)), (["H", "H"], ["H2"], dict(alpha=3.0, idx=3))]
                nl = Network_([mk_reaction(*r[:2], **r[2]) for r in reacs])

                def _rd(tl_, net_):
                    d_ = _tf.mkdtemp(prefix="vf_same_loader_")
                    try:
                        with contextlib.redirect_stdout(io.StringIO()):
                            tl_.render("vfproj", net_, path=Path(d_), jac_pattern=True)
                        return {os.path.relpath(os.path.join(r_, f_), d_): open(os.path.join(r_, f_), errors="replace").read() for r_, _, fs_ in os.walk(d_) for f_ in fs_}
                    finally:
                        _sh.rmtree(d_, ignore_errors=True)
                for bk in (("cvode", "sparse", "cpu"), ("cvode", "dense", "cpu")):
                    nl = Network_([mk_reaction(*r[:2], **r[2]) for r in reacs])
                    tl = TemplateLoader(*bk)
                    _rd(tl, nl)
                    nl.rate_modifier[2] = "7.5e-12"
                    nl.ode_modifier["C"] = {"factors": ["-fdiss"], "reactants": [["H2"]]}       # d(C)/d(H2) becomes a new Jacobian entry
                    second = _rd(tl, nl)
                    fresh = _rd(TemplateLoader(*bk), nl)
                    cases += 1
                    diff = sorted(k for k in fresh if k.startswith(("src/", "include/")) and second.get(k) != fresh[k])
                    if diff:
                        viol.append({"property": prop, "network": "same-loader-second-render", "what": f"stale-second-render: a {bk[0]}/{bk[1]} loader that rendered the network before a rate and an ODE modifier were added writes "
                                     f"{diff[:4]} differently from a fresh loader for the edited network", "signature": f"{prop}:same-loader-second-render::stale-second-render"})
                        break
            except Exception as e:
                viol.append({"property": prop, "network": "same-loader-second-render", "what": f"raises: {type(e).__name__}: {e}", "signature": f"{prop}:same-loader-second-render::raises"})
        fresh_species_state()
        return {"cases": cases, "distinct": cases, "violations": viol, "samples": samples,
                "bound": "hand-picked small networks (<= 6 reactions, <= 3 reactants, <= 5 products) + seeded random networks x 4 back ends",
                "rule": "each (network, back end) pair is rendered by the real TemplateLoader and its emitted statements evaluated exactly at a random rational point; all pairs are distinct"}
    return oracle
