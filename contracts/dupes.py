"""C15 (deductive part): Network.find_duplicate_reaction under contract, for reaction lists of any length.

Abstraction.  The i-th element of `check_list` (the reaction itself, the reduced Reaction of mode 'brief', or the formatted
string of the other modes) has a key class  kc(i) = KEYCLS(mode, id of reactions[i])  - an uninterpreted function: "being
equivalent under that mode" is an arbitrary equivalence relation on reactions.  ASSUMED (and the subject of the units
reaction_eq_hash / species_eq_hash and of the bounded oracle): the keys' __eq__ is that equivalence and __hash__ is consistent
with it, so that the first-seen dict behaves as a map from classes (pyvc/dictmodel.py).  Known finding: in the default mode
Reaction.__eq__ treats ReactionType.UNKNOWN as a wildcard and is then not transitive.

Contract of find_duplicate_reaction(mode), mode in {None, 'brief', 'minimal', 'short'}; n = len(reaction_list):
  isdup(j)   :=  exists a < j.  kc(a) == kc(j)
  ensures  dupidx is strictly increasing, within [0, n), and  { dupidx[k] } == { j | isdup(j) }      (precisely, in order)
           dupes[k] == reaction_list[dupidx[k]]
           first == [ reaction_list[j] | j first of its class and the class has a later member ], in increasing j, each once
  frame    reaction_list is not modified
Loop invariants: see install(); ghost state gpos (index -> position in dupidx), gq / grpos (positions of the reported
classes in the dict's key order) only witness the existentials."""
from __future__ import annotations
import z3
from pyvc.context import VerifContext, LoopSpec
from pyvc.sym import SList, FList, SObj, SInt, SBool, ObjCodec, IntCodec, Unsupported, Sym
from pyvc.dictmodel import KDict, GhostMap
from pyvc.ops import wrap_term, term_of

I = z3.IntSort()
KEYCLS = z3.Function("key_class", I, I, I)      # (mode tag, reaction id) -> equivalence class of the comparison key
Q = "Network.find_duplicate_reaction"
P = ("C15", "C06", "C14")
MODES = {None: 0, "brief": 1, "minimal": 2, "short": 3}


class DupCtx(VerifContext):
    def __init__(self, props=()):
        super().__init__(props)
        self.mode_tag = 0
        self.var_types[(Q, "dupes")] = "list[obj:Reaction]"
        self.var_types[(Q, "dupidx")] = "list[int]"
        self.spec_names.update(kc=self._kc, GhostMap=GhostMap)
        self.install()

    # ---- object model
    def set_rep(self, interp, x):
        if isinstance(x, SInt):
            return x.t          # an integer used as a key is its own class
        if isinstance(x, SObj) and x.cls in ("Reaction", "BriefKey", "FormatKey"):
            want = {"Reaction": 0, "BriefKey": 1}.get(x.cls, self.mode_tag)
            if want != self.mode_tag:
                raise Unsupported("key of another comparison mode")
            return KEYCLS(self.mode_tag, x.id)
        raise Unsupported(f"dict key {x!r}")

    def obj_hash(self, interp, obj):
        """hash() of a key object: an arbitrary function of the object that is constant on key classes (consistency with ==) and
        nothing more - in particular NOT injective on classes, so a table keyed by hash values merges unrelated keys"""
        if obj.cls in ("Reaction", "BriefKey", "FormatKey"):
            return wrap_term(z3.Function("hash_of_key_class", I, I)(self.set_rep(interp, obj)))
        raise Unsupported(f"hash of {obj.cls}")

    def _kc(self, x):
        """spec: class of a check_list element"""
        return wrap_term(self.set_rep(None, x))

    def obj_getattr(self, interp, obj, name):
        if obj.cls == "Reaction" and name in ("reactants", "products"):
            return SObj("SpeciesListOf:" + name, obj.id)
        raise Unsupported(f"{obj.cls}.{name}")

    def obj_format(self, interp, obj, spec):
        if obj.cls == "Reaction" and isinstance(spec, str) and MODES.get(spec) == self.mode_tag and self.mode_tag >= 2:
            return SObj("FormatKey", obj.id)
        raise Unsupported(f"format of {obj.cls} with spec {spec!r}")

    def c_reaction(self, interp, args, kwargs):
        """contract of Reaction(re.reactants, re.products): the reduced reaction carrying only the two species lists"""
        if kwargs or len(args) != 2:
            raise Unsupported("Reaction(...) with other arguments than (reactants, products)")
        a, b = args
        if (isinstance(a, SObj) and isinstance(b, SObj) and a.cls == "SpeciesListOf:reactants" and b.cls == "SpeciesListOf:products"
                and a.id.eq(b.id)):
            return SObj("BriefKey", a.id)
        raise Unsupported("Reaction(...) built from something else than one reaction's reactants and products")

    def obj_equals(self, interp, a, b):
        if isinstance(a, SObj) and isinstance(b, SObj) and a.cls == b.cls:
            return wrap_term(a.id == b.id)
        raise Unsupported("== on these abstract objects")

    def prefer_flist(self, interp, e, env, view):
        return True

    def on_assign(self, interp, env, name, v):
        fn = env.func.__qualname__ if env.func else None
        if fn == Q and name == "seen" and isinstance(v, dict) and not v:
            return KDict.empty()
        return super().on_assign(interp, env, name, v)

    def fresh_custom(self, interp, name, v, spec, env):
        if isinstance(v, KDict):
            return KDict.fresh(interp, name)
        if isinstance(v, GhostMap):
            return GhostMap.fresh(interp, name)
        if isinstance(v, (SObj, tuple)) or v is None:
            return v
        from pyvc.dictmodel import DictListRef
        if isinstance(v, DictListRef):
            return v
        return super().fresh_custom(interp, name, v, spec, env)

    # ---- loop contracts
    def install(self):
        self.call_contracts["naunet.reactions.reaction.Reaction"] = self.c_reaction
        inv1 = [
            # the first-seen table: every present class has its members' indices, the first one first
            ("forall(lambda c: implies(seen.present(c), seen.count(c) >= 1 and 0 <= seen.first(c) and seen.first(c) < _i and kc(check_list[seen.first(c)]) == c))", P),
            ("forall(lambda j: implies(0 <= j and j < _i, seen.present(kc(check_list[j])) and seen.first(kc(check_list[j])) <= j))", P),
            ("forall(lambda c: implies(seen.present(c) and seen.count(c) >= 2, seen.first(c) < seen.item(c, 1) and seen.item(c, 1) < _i and kc(check_list[seen.item(c, 1)]) == c))", P),
            ("forall(lambda j: implies(0 <= j and j < _i and seen.first(kc(check_list[j])) < j, seen.count(kc(check_list[j])) >= 2))", P),
            # the report so far
            ("length(dupidx) == length(dupes) and length(check_list) == length(reactions)", P),
            ("forall(lambda k: implies(0 <= k and k < length(dupidx), 0 <= dupidx[k] and dupidx[k] < _i and seen.first(kc(check_list[dupidx[k]])) < dupidx[k] and dupes[k] == reactions[dupidx[k]]))", P),
            ("forall(lambda k: implies(0 <= k and k + 1 < length(dupidx), dupidx[k] < dupidx[k + 1]))", P),
            ("forall(lambda j: implies(0 <= j and j < _i and seen.first(kc(check_list[j])) < j, 0 <= gpos[j] and gpos[j] < length(dupidx) and dupidx[gpos[j]] == j))", P),
            # insertion order of the table
            ("seen.nkeys() >= 0", P),
            ("forall(lambda m: implies(0 <= m and m < seen.nkeys(), seen.present(seen.key(m)) and seen.keypos(seen.key(m)) == m))", P),
            ("forall(lambda c: implies(seen.present(c), 0 <= seen.keypos(c) and seen.keypos(c) < seen.nkeys() and seen.key(seen.keypos(c)) == c))", P),
            ("forall(lambda m, m2: implies(0 <= m and m < m2 and m2 < seen.nkeys(), seen.first(seen.key(m)) < seen.first(seen.key(m2))))", P),
        ]
        self.loop_specs[(Q, "idx, chk")] = LoopSpec("loop:first-seen", "_i", inv1, modifies=("gpos",),
                                                    ghost_init=self.g_init1)
        self.stmt_hooks[(Q, "dupidx.append(*")] = self.h_dup_append
        inv2 = [
            ("length(_comp) == length(gq)", P),
            ("forall(lambda k: implies(0 <= k and k < length(_comp), 0 <= gq[k] and gq[k] < _m and seen.count(seen.key(gq[k])) > 1 and _comp[k] == reactions[seen.first(seen.key(gq[k]))]))", P),
            ("forall(lambda k: implies(0 <= k and k + 1 < length(gq), gq[k] < gq[k + 1]))", P),
            ("forall(lambda m: implies(0 <= m and m < _m and seen.count(seen.key(m)) > 1, 0 <= grpos[m] and grpos[m] < length(_comp) and gq[grpos[m]] == m))", P),
        ]
        self.loop_specs[(Q, "_, idxes")] = LoopSpec("loop:first-of-class", "_m", inv2, modifies=("gq", "grpos"),
                                                    types={"_comp": "list[obj:Reaction]"}, ghost_init=self.g_init2)
        self.stmt_hooks[(Q, "_comp.append(*")] = self.h_first_append
        self.return_hooks[Q] = self.post

    # ---- ghost code
    def g_init1(self, interp, env):
        env.set("gpos", GhostMap())

    def h_dup_append(self, interp, env):
        d = env.lookup("dupidx")
        env.lookup("gpos").put(env.lookup("idx"), d.length - 1)

    def g_init2(self, interp, env):
        fenv = env.parent if env.parent is not None else env
        fenv.set("gq", self.to_slist(interp, [], IntCodec()))
        fenv.set("grpos", GhostMap())

    def h_first_append(self, interp, env):
        from pyvc import models
        m = env.lookup("_m")
        models.slist_method(interp, env.lookup("gq"), "append", [m], {})
        env.lookup("grpos").put(m, env.lookup("_comp").length - 1)

    # ---- postcondition (the property statement)
    def post(self, interp, env, value):
        if not (isinstance(value, tuple) and len(value) == 3):
            interp.fail("post/result-shape", P, f"{value!r}")
            return
        dupes, dupidx, first = value
        if not (isinstance(dupes, SList) and isinstance(dupidx, SList) and isinstance(first, SList)):
            interp.fail("post/result-shape", P, f"{value!r}")
            return
        from pyvc.interp import Env
        e = Env(parent=env, globals=env.globals, func=env.func)
        e.set("r_dupes", dupes); e.set("r_dupidx", dupidx); e.set("r_first", first)
        e.set("n", wrap_term(env.lookup("reactions").length))
        e.set("L0", SList(ObjCodec("Reaction"), (self.L0,), self.n0))
        KC = "kc(check_list[{}])".format
        isdup = lambda j: f"exists(lambda a: 0 <= a and a < {j} and {KC('a')} == {KC(j)})"
        fi = lambda k: f"seen.first(seen.key(gq[{k}]))"
        clauses = [
            ("post/frame-reaction-list-unchanged", "length(reactions) == length(L0) and forall(lambda j: implies(0 <= j and j < n, reactions[j] == L0[j])) and length(check_list) == n"),
            ("post/indices-in-range-and-increasing", "forall(lambda k: implies(0 <= k and k < length(r_dupidx), 0 <= r_dupidx[k] and r_dupidx[k] < n)) and forall(lambda k: implies(0 <= k and k + 1 < length(r_dupidx), r_dupidx[k] < r_dupidx[k + 1]))"),
            ("post/every-reported-reaction-repeats-an-earlier-one", f"forall(lambda k: implies(0 <= k and k < length(r_dupidx), {isdup('r_dupidx[k]')}))"),
            ("post/every-repeat-is-reported", f"forall(lambda j: implies(0 <= j and j < n and {isdup('j')}, exists(lambda k: 0 <= k and k < length(r_dupidx) and r_dupidx[k] == j)))"),
            ("post/reported-reactions-match-their-indices", "length(r_dupes) == length(r_dupidx) and forall(lambda k: implies(0 <= k and k < length(r_dupidx), r_dupes[k] == reactions[r_dupidx[k]]))"),
            ("post/first-members/are-first-of-a-repeated-class",
             f"length(r_first) == length(gq) and forall(lambda k: implies(0 <= k and k < length(r_first), r_first[k] == reactions[{fi('k')}] and 0 <= {fi('k')} and {fi('k')} < n"
             f" and forall(lambda a: implies(0 <= a and a < {fi('k')}, {KC('a')} != {KC(fi('k'))}))"
             f" and exists(lambda b: {fi('k')} < b and b < n and {KC('b')} == {KC(fi('k'))})))"),
            ("post/first-members/in-order-each-once", f"forall(lambda k: implies(0 <= k and k + 1 < length(r_first), {fi('k')} < {fi('k + 1')}))"),
            ("post/first-members/every-repeated-class-is-listed",
             f"forall(lambda j: implies(0 <= j and j < n and forall(lambda a: implies(0 <= a and a < j, {KC('a')} != {KC('j')})) and exists(lambda b: j < b and b < n and {KC('b')} == {KC('j')}),"
             f" exists(lambda k: 0 <= k and k < length(r_first) and {fi('k')} == j)))"),
        ]
        for name, cl in clauses:
            interp.prove(interp.spec_eval(cl, e), name, P, detail=cl)


def make_ctx(props=()):
    return DupCtx(props)


def entry(it):
    from naunet.network import Network
    ctx = it.ctx
    modes = list(MODES)
    which = it.choose(len(modes), "mode")
    mode = modes[which]
    ctx.mode_tag = MODES[mode]
    L0 = z3.Const("L0", z3.ArraySort(I, I))
    n = z3.Int("n_reactions")
    it.assume(n >= 0)
    ctx.L0, ctx.n0 = L0, n
    net = Network.__new__(Network)
    net.reaction_list = SList(ObjCodec("Reaction"), (L0,), n)
    it.call_function(Network.find_duplicate_reaction, [net] + ([] if mode is None else [mode]), {})


def _register():
    from pyvc.units import Unit, register
    from naunet.network import Network
    register(Unit("find_duplicate_reaction", __name__, make_ctx, entry, functions=[Network.find_duplicate_reaction], props=("C15", "C06", "C14"),
                  note="modes None/brief/minimal/short; key equality abstracted as an equivalence (assumption, see reaction_eq_hash)"))


_register()
