"""C09 (bounded native + template-site obligations) and C08 (bounded native) checks on species identifiers / parsing."""
from __future__ import annotations
import re, io, os, itertools, contextlib, tempfile, shutil, random
from pathlib import Path
from .native_ode import render, parse_macros, fresh_species_state, mk_reaction

IDENT = re.compile(r"[A-Za-z_][A-Za-z0-9_]*\Z")


def c09_networks():
    from naunet.network import Network

    def N(label, reacs, **kw):
        def f():
            from naunet.species import Species
            fresh_species_state()
            if kw.get("elements"):
                Species.set_known_elements(list(kw["elements"]))
                Species.set_known_pseudoelements(list(kw.get("pseudo_elements", [])))
            return Network([mk_reaction(*r) for r in reacs], **kw)
        return label, f
    yield N("ions", [(["C", "e-"], ["C-"]), (["C-", "e-"], ["C--"]), (["GRAIN-", "e-"], ["GRAIN--"]), (["C+", "e-"], ["C"]), (["Si++++", "e-"], ["Si+++"]), (["H", "H+"], ["H2+"]), (["He++", "e-"], ["He+"])])
    def late_required():
        fresh_species_state()
        net = Network([mk_reaction(["C", "H"], ["CH"]), mk_reaction(["CH", "H"], ["C", "H2"])])
        _ = net.species, net.elements          # read (and possibly cache) before the edit
        net.required_species = ["CO", "He"]
        return net
    yield "required-set-after-first-use", late_required
    yield N("spin-labels", [(["oH2", "H+"], ["pH2", "H+"]), (["oH2D+", "e-"], ["H", "H", "D"]), (["pH3+", "e-"], ["oH2", "H"])])
    yield N("ice-and-grains", [(["CO"], ["#CO"]), (["#CO"], ["CO"]), (["GRAIN0", "e-"], ["GRAIN-"]), (["GRAIN-", "H+"], ["GRAIN0", "H"]), (["H"], ["#H"])])
    yield N("excited", [(["H2*", "H"], ["H2", "H"]), (["c-C3H2", "H+"], ["C3H3+"])])
    yield N("two-spellings", [(["H", "e-"], ["H+", "E", "e-"]), (["H+", "E"], ["H"])])
    yield N("uppercase-replacement", [(["HE", "H+"], ["HE+", "H"]), (["MG", "H+"], ["MG+", "H"]), (["HE+", "E-"], ["HE"])],
            elements=["H", "HE", "MG", "E"], pseudo_elements=[])
    # upper-case symbols where a charge suffix letter next to a one-letter symbol spells a two-letter symbol of the list (S+ / SI, N+ / NI)
    yield N("uppercase-suffix-neighbours", [(["S+", "E-"], ["S"]), (["SI+", "E-"], ["SI"]), (["N+", "E-"], ["N"]), (["NI", "H+"], ["NI+", "H"]), (["S", "H+"], ["S+", "H"]),
                                            (["SI", "N+"], ["SI+", "N"]), (["#S"], ["S"])],
            elements=["H", "C", "N", "O", "S", "SI", "NI", "E"], pseudo_elements=[])


def oracle_c09(tier, seed):
    from naunet.configuration import NetworkConfiguration
    from naunet.species import Species
    import tomlkit
    viol, cases = [], 0
    for label, fac in c09_networks():
        for backend in [("cvode", "dense", "cpu"), ("odeint", "rosenbrock4", "cpu")]:
            bname = "/".join(backend[:2])

            def V(what):
                viol.append({"property": "C09", "network": label, "backend": bname, "what": what,
                             "signature": f"C09:{label}:{what.split(':')[0]}"})
            try:
                net = fac()
                if label == "uppercase-replacement":
                    Species._replacement = {"HE": "He", "MG": "Mg", "E": "e"}
                    net = fac.__closure__ and net  # (network already parsed before the replacement was installed)
                files = render(net, *backend, jac_pattern=False)
            except Exception as e:
                V(f"render-raises: {type(e).__name__}: {e}")
                continue
            cases += 1
            species = list(net.species)
            n = len(species)
            text = files["include/naunet_macros.h"]
            defs = re.findall(r"^#define (IDX_(?!ELEM_|TGAS)\S+)\s+(\S+)\s*$", text, flags=re.M)
            names = [d[0] for d in defs]
            for nm in names:
                if not IDENT.match(nm):
                    V(f"illegal-identifier: `#define {nm}` is not a C identifier")
            if len(set(names)) != len(names):
                V(f"duplicate-macro: {[x for x in set(names) if names.count(x) > 1]}")
            vals = [d[1] for d in defs]
            if sorted(vals, key=lambda v: (len(v), v)) != [str(i) for i in range(n)]:
                V(f"not-a-bijection: macro values {vals} for {n} species")
            mac = parse_macros(text)
            if mac.get("NSPECIES") != n:
                V(f"NSPECIES: {mac.get('NSPECIES')} != {n}")
            expected_names = {s.name for r in net.reaction_list for s in r.reactants + r.products} | set(net.required_species)
            if len({Species(x, **net._species_kwargs) for x in expected_names}) != n:
                V(f"species-count: {n} slots for {len(expected_names)} named species (reactions + required): {sorted(expected_names)}")
            for i, a in enumerate(species):
                for b in species[i + 1:]:
                    if a == b:
                        V(f"two-slots-one-species: {a.name} / {b.name}")
            # element slots: one IDX_ELEM_ macro per neutral atomic species named in the description (grain "atoms" included), values a
            # bijection onto 0..NELEMENTS-1, NELEMENTS their number, the Python constants and the project summary the same
            edefs = re.findall(r"^#define (IDX_ELEM_\S+)\s+(\S+)\s*$", text, flags=re.M)
            SYMBOLS = {"H", "D", "He", "Li", "C", "N", "O", "F", "Ne", "Na", "Mg", "Al", "Si", "P", "S", "Cl", "Ar", "K", "Ca", "Ti", "Fe", "Ni", "GRAIN", "GRAIN0"}
            atoms_named = {x for x in expected_names if x in SYMBOLS}
            evals = [d[1] for d in edefs]
            if sorted(evals, key=lambda v: (len(v), v)) != [str(i) for i in range(len(edefs))] or len({d[0] for d in edefs}) != len(edefs):
                V(f"element-slots-not-a-bijection: {edefs}")
            if mac.get("NELEMENTS") != len(edefs):
                V(f"NELEMENTS: {mac.get('NELEMENTS')} != {len(edefs)} element macros")
            if not net._known_elements and len(edefs) != len(atoms_named):
                V(f"element-slots: {len(edefs)} element macros {[d[0] for d in edefs]} for the {len(atoms_named)} atomic species {sorted(atoms_named)} of the description")
            for nm, _v in edefs:
                if not IDENT.match(nm):
                    V(f"illegal-identifier: `#define {nm}` is not a C identifier")
            # python constants module
            py = files.get("python/pynaunet_model/constant_indexes.py", "")
            pye = re.findall(r"^(IDX_ELEM_\w*\S*) = (\d+)\s*$", py, flags=re.M)
            if [(a, b) for a, b in pye] != [(a, b) for a, b in edefs]:
                V(f"python-element-constants-disagree: {pye[:4]} vs {edefs[:4]}")
            pyd = re.findall(r"^(IDX_(?!ELEM_)\w*\S*) = (\d+)\s*$", py, flags=re.M)
            if [(a, b) for a, b in pyd] != [(a, b) for a, b in defs]:
                V(f"python-constants-disagree: {pyd[:4]} vs {defs[:4]}")
            # project summary
            try:
                cfg = tomlkit.loads(NetworkConfiguration("p", net).content)
                summ = cfg["summary"]
                if list(summ["list_of_species"]) != [s.name for s in species] or list(summ["list_of_species_alias"]) != [s.alias for s in species] \
                        or int(summ["num_of_species"]) != n or int(summ["num_of_elements"]) != len(net.elements) or int(summ["num_of_elements"]) != len(edefs):
                    V("summary-disagrees: configuration summary lists differ from the generated macros")
                if ["IDX_" + a for a in summ["list_of_species_alias"]] != names:
                    V("summary-alias-order: alias list order differs from macro order")
            except Exception as e:
                V(f"summary-raises: {type(e).__name__}: {e}")
    # ---- histories: rendering a simulation-code patch in between must not change the slots / identifiers of the network
    import subprocess, sys, json as _json
    for label, fac in c09_networks():
        if label not in ("ions", "two-spellings"):
            continue

        def V(what):
            viol.append({"property": "C09", "network": label, "backend": "cvode/dense", "what": what, "signature": f"C09:{label}:{what.split(':')[0]}"})
        try:
            from naunet.patches import patch_factory
            net = fac()
            f1 = render(net, "cvode", "dense", "cpu", jac_pattern=False)
            al1 = [s.alias for s in net.species]
            d = tempfile.mkdtemp(prefix="vf_enzo_")
            try:
                with contextlib.redirect_stdout(io.StringIO()):
                    patch_factory("enzo", "cpu").render(net, path=Path(d))
                enzo = {fn: open(os.path.join(r_, fn), errors="replace").read() for r_, _, fs in os.walk(d) for fn in fs}
            finally:
                shutil.rmtree(d, ignore_errors=True)
            f2 = render(net, "cvode", "dense", "cpu", jac_pattern=False)
            cases += 1
            if [s.alias for s in net.species] != al1:
                V(f"patch-changes-aliases: aliases after rendering the Enzo patch {[s.alias for s in net.species][:6]} != before {al1[:6]}")
            for fn in ("include/naunet_macros.h", "python/pynaunet_model/constant_indexes.py"):
                if f1[fn] != f2[fn]:
                    V(f"patch-changes-macros: {fn} rendered after the Enzo patch differs from the one rendered before")
            hdr = enzo.get("naunet_enzo.h", "")
            used = set(re.findall(r"\bIDX_(?!ELEM_)\w+", "\n".join(enzo.values())))
            declared = set(re.findall(r"^#define (IDX_(?!ELEM_)\S+)", f1["include/naunet_macros.h"], flags=re.M))
            if used - declared - {"IDX_TGAS"}:
                V(f"patch-uses-undefined-slots: {sorted(used - declared)[:5]} are used by the patch but not defined in naunet_macros.h")
        except Exception as e:
            V(f"patch-history-raises: {type(e).__name__}: {e}")
    # ---- the simulation-code patch: every species of the network has exactly one field constant `<alias>Density` in the rendered
    #      typedefs.h (a constant the code base already defines, or a generated one), and the list of already defined species in the
    #      patch generator names exactly the constants the static part of the template declares
    try:
        from naunet.patches import patch_factory, EnzoPatch
        from naunet.species import Species as _Sp2
        fresh_species_state()
        from naunet.network import Network as _Net
        rs = [(["CH3+", "e-"], ["CH2", "H"]), (["CH3", "H+"], ["CH3+", "H"]), (["CH", "H2"], ["CH2", "H"]), (["C2", "O"], ["CO", "C"]), (["HCO+", "e-"], ["CO", "H"]),
              (["OH", "H"], ["H2O"]), (["O2", "C"], ["CO", "O"]), (["Si+", "e-"], ["Si"]), (["CH4", "H+"], ["CH3+", "H2"]), (["He+", "e-"], ["He"]), (["D+", "H"], ["D", "H+"])]
        net = _Net([mk_reaction(a, b) for a, b in rs])
        d = tempfile.mkdtemp(prefix="vf_enzo2_")
        try:
            with contextlib.redirect_stdout(io.StringIO()):
                patch_factory("enzo", "cpu").render(net, path=Path(d))
            tdef = open(os.path.join(d, "typedefs.h"), errors="replace").read()
        finally:
            shutil.rmtree(d, ignore_errors=True)
        cases += 1
        from .native_ode import strip_comments
        consts = re.findall(r"^\s*(\w+Density)\s*=", strip_comments(tdef), flags=re.M)
        galias = dict(zip(EnzoPatch.grackle_species_name, EnzoPatch.grackle_defined_alias))
        for s in net.species:
            if s.is_electron:
                continue
            al = galias.get(s.name, s.alias)
            n_ = consts.count(al + "Density")
            if n_ != 1:
                viol.append({"property": "C09", "network": "enzo-hydrocarbons", "what": f"patch-field-constant: species {s.name} has {n_} constants `{al}Density` in the rendered typedefs.h",
                             "signature": "C09:enzo-hydrocarbons:patch-field-constant"})
    except Exception as e:
        viol.append({"property": "C09", "network": "enzo-hydrocarbons", "what": f"enzo-patch-raises: {type(e).__name__}: {e}", "signature": "C09:enzo-hydrocarbons:raises"})
    # ---- the species count of the simulation-code patch agrees with the species fields its own sources hand over (with and without
    #      an electron / ions / ice in the network)
    try:
        from naunet.patches import patch_factory, EnzoPatch
        from naunet.network import Network as _Net3
        from .native_ode import strip_comments
        for lab3, rs3 in [("neutral", [(["C", "O"], ["CO"]), (["CO", "H"], ["HCO"])]), ("ionised", [(["C+", "e-"], ["C"]), (["CO", "H+"], ["HCO+"])]),
                          ("ice-only", [(["#CO"], ["CO"]), (["H", "H"], ["H2"])]),
                          ("electron-spelled-E", [(["C+", "E"], ["C"]), (["H+", "E"], ["H"]), (["H", "H"], ["H2"])]),
                          ("electron-spelled-E-minus", [(["C+", "E-"], ["C"]), (["H", "H"], ["H2"])])]:
            fresh_species_state()
            net = _Net3([mk_reaction(a, b) for a, b in rs3])
            d = tempfile.mkdtemp(prefix="vf_enzo3_")
            try:
                with contextlib.redirect_stdout(io.StringIO()):
                    patch_factory("enzo", "cpu").render(net, path=Path(d))
                hdr = open(os.path.join(d, "naunet_enzo.h"), errors="replace").read()
                ptr = {f: strip_comments(open(os.path.join(d, "hydro_rk", f), errors="replace").read()) for f in ("Grid_ReturnHydroRKPointers.C", "Grid_ReturnOldHydroRKPointers.C")}
            finally:
                shutil.rmtree(d, ignore_errors=True)
            cases += 1
            m3 = re.search(r"#define ENZO_NSPECIES\s+(\d+)", hdr)
            nsp = int(m3.group(1)) if m3 else None
            names3 = {("e-" if s.is_electron else s.name) for s in net.species} | {("e-" if n in ("e-", "E", "de", "De") else n) for n in EnzoPatch.grackle_species_name}
            want3 = len(names3 - {"e-"})
            if nsp != want3:
                viol.append({"property": "C09", "network": f"enzo-{lab3}", "what": f"patch-species-count: ENZO_NSPECIES is {nsp}, the network and the code base's own species make {want3} fields besides the electron",
                             "signature": f"C09:enzo-{lab3}:patch-species-count"})
            for f, t in ptr.items():
                pushes = [x for x in re.findall(r"Prim\[nfield\+\+\]\s*=\s*\w+\[(\w+)\]", t) if x not in ("MetalNum", "MetalIaNum", "MetalIINum", "SNColourNum")]
                if nsp != len(pushes):
                    viol.append({"property": "C09", "network": f"enzo-{lab3}", "what": f"patch-species-count: ENZO_NSPECIES is {nsp} but {f} hands over {len(pushes)} species fields",
                                 "signature": f"C09:enzo-{lab3}:patch-species-count"})
    except Exception as e:
        viol.append({"property": "C09", "network": "enzo-counts", "what": f"enzo-patch-raises: {type(e).__name__}: {e}", "signature": "C09:enzo-counts:raises"})
    # ---- every slot identifier used by a generated rate statement is one the macros define (format-specific rate builders name
    #      the gas-phase partner of an ice species, shielding tables, ...)
    try:
        from . import native_net as NN
        from naunet.species import Species as _Sp
        fresh_species_state()
        rs = [(["H2"], ["H", "H"], 4), (["CO"], ["C", "O"], 4), (["N2"], ["N", "N"], 4), (["GH2"], ["GH", "GH"], 12), (["GCO"], ["GC", "GO"], 12),
              (["GN2"], ["GN", "GN"], 12), (["H", "H"], ["H2"], 1), (["CO"], ["GCO"], 7), (["GCO"], ["CO"], 8)]
        lines = [NN.enc_leeds(NN.AR(r + (["PHOTON"] if c in (4, 12) else []), p, 1.0e-10 * (k + 1), 0.0, 1.5, 10, 1000, k + 1, c)) for k, (r, p, c) in enumerate(rs)]
        for gm in ("hh93", ""):
            net = NN.load(lines, "leeds", grain_model=gm) if gm else NN.load(lines[:3] + lines[6:7], "leeds")
            files = render(net, "cvode", "dense", "cpu", jac_pattern=False)
            cases += 1
            declared = set(re.findall(r"^#define (IDX_\S+)", files["include/naunet_macros.h"], flags=re.M))
            from .native_ode import strip_comments
            used = set(re.findall(r"\bIDX_\w+", strip_comments(files["src/naunet_rates.cpp"])))
            if used - declared:
                viol.append({"property": "C09", "network": "leeds-shielding", "backend": "cvode/dense",
                             "what": f"undefined-slot-identifier: naunet_rates.cpp uses {sorted(used - declared)[:5]}, naunet_macros.h defines no such macro (species aliases: {[s.alias for s in net.species][:8]})",
                             "signature": "C09:leeds-shielding:undefined-slot-identifier"})
    except Exception as e:
        viol.append({"property": "C09", "network": "leeds-shielding", "what": f"leeds-shielding-raises: {type(e).__name__}: {e}", "signature": "C09:leeds-shielding:raises"})
    # ---- the slot order is the same in every process (hash seeds): artefacts written by separate invocations agree
    for label in ("ions", "ice-and-grains"):
        orders = {}
        for hs in ("0", "1", "2"):
            env = dict(os.environ, PYTHONHASHSEED=hs)
            p = subprocess.run([sys.executable, "-m", "contracts.native_ids", "--order", label], capture_output=True, text=True, env=env,
                               cwd=os.path.dirname(os.path.dirname(os.path.abspath(__file__))))
            cases += 1
            if p.returncode != 0:
                viol.append({"property": "C09", "network": label, "what": f"order-child-fails: {p.stderr.strip().splitlines()[-1:]}", "signature": f"C09:{label}:order-child-fails"})
                continue
            orders[hs] = _json.loads(p.stdout.strip().splitlines()[-1])
        if len({tuple(v) for v in orders.values()}) > 1:
            a, b = list(orders.values())[:2]
            k = next(i for i, (x, y) in enumerate(zip(a, b)) if x != y)
            viol.append({"property": "C09", "network": label, "what": f"slot-order-differs-between-processes: position {k} is {a[k]} under one hash seed and {b[k]} under another",
                         "signature": f"C09:{label}:slot-order-differs-between-processes"})
    fresh_species_state()
    return {"cases": cases, "distinct": cases, "violations": viol, "samples": [{"networks": [l for l, _ in c09_networks()]}],
            "bound": "6 naming conventions (multiply charged ions, ortho/para labels, ice + grains with charge states, excited / cyclic species, two spellings, upper-case lists) x {cvode dense, odeint}",
            "rule": "one case per (network, back end): macros, python constants, configuration summary cross-checked"}


def c09_template_items(tier):
    """the three artefacts enumerate network.species / network.elements with loop.index0 (Jinja AST)"""
    from . import templates as T
    items = []
    ast, src = T.parse("base/cpp/python/pynaunet_model/constant_indexes.py.j2")
    ss = T.sites(ast)

    def joined(s):
        return "".join(p if isinstance(p, str) else "{{" + T.etext(p) + "}}" for p in s.parts)
    ok1 = any("IDX_{{spec.alias}} = {{loop.index0}}" in joined(s) and s.loop_iters() == ["network.species"] for s in ss)
    ok2 = any("IDX_ELEM_{{elem.element_count.keys()|first}} = {{loop.index0}}" in joined(s) and s.loop_iters() == ["network.elements"] for s in ss)
    items.append(T.item("tmpl/python-constants/IDX-of-species-i-is-i", ok1, ""))
    items.append(T.item("tmpl/python-constants/IDX_ELEM-of-element-i-is-i", ok2, ""))
    try:
        env = T.env_for("cvode")
        from jinja2 import Environment, PackageLoader
        penv = Environment(loader=PackageLoader("naunet", "templates/patches/enzo"))
        past = penv.parse(penv.loader.get_source(penv, "naunet_enzo.h.j2")[0])
        ps = T.sites(past)
        okA = any("#define A_{{s.alias}} " in joined(s) and s.loop_iters() == ["network.species"] for s in ps)
        okT = any("A_{{s.alias}}" in joined(s) and "#define" not in joined(s) and s.loop_iters() == ["network.species"] for s in ps)
        items.append(T.item("tmpl/enzo/A_Table-follows-network.species", okA and okT, ""))
    except Exception as e:
        items.append(T.item("tmpl/enzo/A_Table-follows-network.species", False, str(e), status="unknown"))
    # ENZO_NSPECIES: number of species fields besides the electron = |network U grackle| - 1 (the code base's own list always holds the
    # electron), written with the three list lengths n = |network|, g = |grackle|, i = |network ^ grackle|; any other list length that
    # the expression mentions is an unknown count
    try:
        import z3
        from jinja2 import nodes as jn
        from pyvc import smt
        site = [s_ for s_ in ps if "#define ENZO_NSPECIES " in joined(s_)]
        if len(site) != 1 or not site[0].exprs:
            items.append(T.item("tmpl/enzo/ENZO_NSPECIES-counts-union-minus-electron", False, f"{len(site)} definition sites", status="unknown"))
        else:
            lit_parts = site[0].parts
            k = next(ix for ix, p_ in enumerate(lit_parts) if isinstance(p_, str) and "#define ENZO_NSPECIES " in p_)
            expr = lit_parts[k + 1]
            n, g, i = z3.Int("n_network"), z3.Int("n_grackle"), z3.Int("n_both")
            names = {"species.network|length": n, "species.grackle|length": g, "species.network_int_grackle|length": i}
            hyp = [n >= 0, g >= 1, i >= 0, i <= n, i <= g]
            for sub in expr.find_all(jn.Filter):
                if sub.name == "length" and T.etext(sub) not in names:
                    v = z3.Int("len_" + re.sub(r"\W+", "_", T.etext(sub))[:40])
                    names[T.etext(sub)] = v
                    hyp += [v >= 0, v <= n + g]
            ar = T.Arith({}, names)
            val = ar.ev(expr)
            st, be, secs, model = smt.check_valid(hyp + ar.constraints, val == n + g - i - 1, timeout_ms=10000)
            items.append(T.item("tmpl/enzo/ENZO_NSPECIES-counts-union-minus-electron", st == "proved", f"{T.etext(expr)}" + (f"; countermodel {model}" if model is not None else ""),
                                backend=f"template-ast+{be}", status=st))
    except Exception as e:
        items.append(T.item("tmpl/enzo/ENZO_NSPECIES-counts-union-minus-electron", False, f"{type(e).__name__}: {e}", status="unknown"))
    items += [i for i in T.macros_template_items(tier) if "IDX" in i["name"] or "NSPECIES" in i["name"] or "NELEMENTS" in i["name"]]
    return items


# ------------------------------------------------------------------------------------------------ C08
def oracle_c08(tier, seed):
    """names generated from a composition; the parser must recover exactly that composition"""
    from naunet.species import Species
    from naunet import chemistrydata
    viol, cases = [], 0
    # nucleon numbers written here from the periodic table of the elements (most abundant isotope), not read from the package's csv
    masses = {"H": 1.0, "D": 2.0, "He": 4.0, "C": 12.0, "N": 14.0, "O": 16.0, "F": 19.0, "Na": 23.0, "Mg": 24.0, "Al": 27.0, "Si": 28.0, "P": 31.0,
              "S": 32.0, "Cl": 35.0, "Ar": 40.0, "Ca": 40.0, "Fe": 56.0, "Ni": 59.0, "e": 0.0, "E": 0.0}
    for e_ in chemistrydata.periodic_table:
        if e_.Symbol in masses and abs(float(e_.NumberofNeutrons) + float(e_.NumberofProtons) - masses[e_.Symbol]) > 1e-9 and e_.Symbol not in ("e", "E"):
            viol.append({"property": "C08", "config": "data", "name": e_.Symbol, "what": f"periodic-table: {e_.Symbol} has {e_.NumberofNeutrons} neutrons + {e_.NumberofProtons} protons in the package's table, mass number {masses[e_.Symbol]:.0f} expected",
                         "signature": f"C08:data:periodic-table:{e_.Symbol}"})
    configs = [
        ("default", None, None, {}, {"surface_prefix": "#"}),
        ("default-G", None, None, {}, {"surface_prefix": "G"}),
        ("uppercase", ["H", "HE", "C", "N", "O", "SI", "S", "CL", "MG", "NA", "FE", "E"], ["CRP", "PHOTON", "o", "p"],
         {"HE": "He", "SI": "Si", "CL": "Cl", "MG": "Mg", "NA": "Na", "FE": "Fe", "E": "e"}, {"surface_prefix": "#"}),
        ("uppercase-G", ["H", "HE", "C", "N", "O", "SI", "S", "CL", "MG", "NA", "FE", "E"], ["CRP", "PHOTON", "o", "p"],
         {"HE": "He", "SI": "Si", "CL": "Cl", "MG": "Mg", "NA": "Na", "FE": "Fe", "E": "e"}, {"surface_prefix": "G"}),
        # a replacement table that renames only some of the symbols (the bundled cloud example's table plus NE, FE, NA left as they are):
        # a symbol without replacement keeps its spelling even when it contains the text of a replaced one (NE / FE contain E)
        ("uppercase-partial-replacement", ["H", "HE", "C", "N", "O", "NE", "FE", "SI", "MG", "CL", "NA", "E"], ["CRP", "PHOTON"],
         {"E": "e", "HE": "He", "MG": "Mg", "SI": "Si", "CL": "Cl"}, {"surface_prefix": "#"}),
        # a user element list with NO pseudo elements / labels: nothing but the listed symbols may be accepted
        ("uppercase-no-labels", ["H", "HE", "C", "N", "O", "SI", "S", "CL", "MG", "NA", "FE", "E"], [], {}, {"surface_prefix": "#"}),
        # history: two default labels are promoted to elements with add_known_elements (they must then be counted, not ignored)
        ("promoted-labels", "PROMOTE", None, {}, {"surface_prefix": "#"}),
    ]
    rnd = random.Random(8 + seed)
    for cname, elements, pseudo, repl, kw in configs:
        fresh_species_state()
        if elements == "PROMOTE":
            Species("H")                                   # installs the default tables
            Species.add_known_elements(["X", "M"])
            symbols = ["H", "C", "O", "X", "M", "Si"]
            labels = ["", "o"]
            elements = None
        elif elements is not None:
            Species.set_known_elements(list(elements))
            Species.set_known_pseudoelements(list(pseudo))
            Species._replacement = dict(repl)
            symbols = [e for e in elements if e != "E"]
            labels = [""] + [l for l in ("o", "p") if l in pseudo]
        elif cname != "promoted-labels":
            symbols = [e for e in Species.default_elements if e not in ("e", "E")]
            labels = ["", "c-", "o", "p", "m", "l-"]       # the cyclic / linear labels contain a hyphen that is not a charge
        recheck = []
        maxsym = 2 if tier == "quick" else 3
        counts = [None, 2, 10] if tier == "quick" else [None, 2, 10, 12]
        compos = []
        for k in range(1, maxsym + 1):
            for syms in itertools.product(symbols, repeat=k):
                compos.append(syms)
        if tier == "quick" and len(compos) > 250:
            compos = [c for c in compos if len(c) == 1] + rnd.sample([c for c in compos if len(c) == 2], 200)
        for syms in compos:
            for cnts in ([tuple(rnd.choice(counts) for _ in syms)] if len(syms) > 1 else [(c,) for c in counts]):
                for label in labels[:3] if tier == "quick" else labels:
                    for surface in (False, True):
                        for charge in (0, 1, -1, 2):
                            if label and surface:
                                continue
                            body = "".join(s + (str(c) if c else "") for s, c in zip(syms, cnts))
                            name = (kw["surface_prefix"] if surface else "") + label + body + ("+" * charge if charge > 0 else "-" * (-charge))
                            if not surface and kw["surface_prefix"] == "G" and name.startswith("G"):
                                continue
                            want = {}
                            for s, c in zip(syms, cnts):
                                s2 = repl.get(s, s)
                                want[s2] = want.get(s2, 0) + (c or 1)
                            cases += 1
                            if len(recheck) < 400 and cases % 7 == 0:
                                recheck.append((name, dict(want), charge, surface))

                            def V(what):
                                viol.append({"property": "C08", "config": cname, "name": name, "what": what,
                                             "signature": f"C08:{cname}:{what.split(':')[0]}"})
                            try:
                                sp = Species(name, **kw)
                            except Exception as e:
                                V(f"rejected-valid-name: {name}: {type(e).__name__}: {e}")
                                continue
                            got = {k: v for k, v in sp.element_count.items()}
                            if got != want:
                                V(f"composition: {name}: parsed {got}, composed from {want}")
                                continue
                            if sp.charge != charge or sp.is_surface != surface:
                                V(f"charge-or-phase: {name}: charge {sp.charge} surface {sp.is_surface}")
                            exp_name = (kw["surface_prefix"] if surface else "") + label + "".join(repl.get(s, s) + (str(c) if c else "") for s, c in zip(syms, cnts)) + \
                                ("+" * charge if charge > 0 else "-" * (-charge))
                            if sp.name != exp_name:
                                V(f"renamed-name: {name}: name became {sp.name!r}, expected {exp_name!r}")
                            gas = exp_name[len(kw["surface_prefix"]):] if surface else exp_name
                            if sp.gasname != gas:
                                V(f"gasname: {name}: {sp.gasname!r} expected {gas!r}")
                            atom = len(syms) == 1 and (cnts[0] in (None,)) and charge == 0 and not surface
                            if sp.is_atom != atom:
                                V(f"is_atom: {name}: {sp.is_atom} expected {atom}")
                            mn = sum(masses.get(k, 0.0) * v for k, v in want.items())
                            if abs(sp.massnumber - mn) > 1e-9:
                                V(f"massnumber: {name}: {sp.massnumber} expected {mn}")
        # grain symbols with group numbers and charges
        for grp in (None, 0, 1, 2, 12):
            for charge in (0, -1, 1, -2):
                name = "GRAIN" + ("" if grp is None else str(grp)) + ("+" * charge if charge > 0 else "-" * (-charge))
                cases += 1
                try:
                    sp = Species(name, **kw)
                except Exception as e:
                    viol.append({"property": "C08", "config": cname, "name": name, "what": f"rejected-valid-name: {name}: {e}", "signature": f"C08:{cname}:rejected-valid-name"})
                    continue
                ok = sp.is_grain and sp.grain_group == (grp or 0 if grp is not None else 0) and dict(sp.element_count) == {"GRAIN": 1} and sp.charge == charge \
                    and sp.n_atoms == 1 and sp.is_atom == (charge == 0)
                if not ok:
                    viol.append({"property": "C08", "config": cname, "name": name,
                                 "what": f"grain-bookkeeping: {name}: group {sp.grain_group} count {dict(sp.element_count)} charge {sp.charge} is_atom {sp.is_atom}",
                                 "signature": f"C08:{cname}:grain-bookkeeping"})
        # history: a network with these tables is built and a simulation-code patch is rendered for it; the configured tables are
        # still in force afterwards (names read the same, foreign characters are still rejected)
        if cname in ("uppercase-#", "uppercase-no-labels", "default") or cname.startswith("uppercase"):
            try:
                from naunet.network import Network as _Net8
                from naunet.patches import patch_factory as _pf8
                from .native_ode import mk_reaction as _mk8
                tabs = (list(Species.known_elements()), list(Species.known_pseudoelements()), dict(Species._replacement))
                he = "HE" if "HE" in symbols else "He"
                net8 = _Net8([_mk8(["H", "H"], ["H2"]), _mk8([he + "+", "H"], [he, "H+"]), _mk8(["C", "O"], ["CO"])],
                             **({"elements": list(elements), "pseudo_elements": list(pseudo)} if elements is not None else {}))
                d8 = tempfile.mkdtemp(prefix="vf_c08_")
                try:
                    with contextlib.redirect_stdout(io.StringIO()):
                        _pf8("enzo", "cpu").render(net8, path=Path(d8))
                finally:
                    shutil.rmtree(d8, ignore_errors=True)
                after = (list(Species.known_elements()), list(Species.known_pseudoelements()), dict(Species._replacement))
                cases += 1
                if after != tabs:
                    viol.append({"property": "C08", "config": cname, "name": "", "what": f"tables-after-patch-render: element tables {after[0][:8]}.../{after[1][:5]} differ from the configured {tabs[0][:8]}.../{tabs[1][:5]}",
                                 "signature": f"C08:{cname}:tables-after-patch-render"})
                for name, want, charge, surface in recheck:
                    cases += 1
                    try:
                        sp = Species(name, **kw)
                        got = {k: v for k, v in sp.element_count.items()}
                        if got != want or sp.charge != charge or sp.is_surface != surface:
                            viol.append({"property": "C08", "config": cname, "name": name, "what": f"after-patch-render: {name}: parsed {got} charge {sp.charge}, composed from {want} charge {charge}",
                                         "signature": f"C08:{cname}:after-patch-render"})
                            break
                    except Exception as e:
                        viol.append({"property": "C08", "config": cname, "name": name, "what": f"after-patch-render: rejected-valid-name: {name}: {type(e).__name__}: {e}",
                                     "signature": f"C08:{cname}:after-patch-render"})
                        break
            except Exception as e:
                viol.append({"property": "C08", "config": cname, "name": "", "what": f"patch-history-raises: {type(e).__name__}: {e}", "signature": f"C08:{cname}:patch-history-raises"})
        # history: the renaming table is replaced the way `naunet render` does it (plain assignment to the class attribute, no setter)
        # between two parses of the same names; the second parse must follow the table then in force, and the first one again afterwards
        if elements is not None and "HE" in symbols:
            saved_repl = Species._replacement
            for newrepl in ({"HE": "He", "MG": "Mg"} if not repl else {}, saved_repl):
                Species._replacement = dict(newrepl)
                for name, want, charge, surface in recheck[:120]:
                    body = [w for w in want]
                    cases += 1
                    try:
                        sp = Species(name, **kw)
                    except Exception as e:
                        viol.append({"property": "C08", "config": cname, "name": name, "what": f"renaming-table-replaced: rejected-valid-name: {name}: {type(e).__name__}: {e}",
                                     "signature": f"C08:{cname}:renaming-table-replaced"})
                        break
                    inv = {v: k for k, v in repl.items()}
                    want2 = {}
                    for k2, v2 in want.items():
                        raw = inv.get(k2, k2)
                        want2[newrepl.get(raw, raw)] = want2.get(newrepl.get(raw, raw), 0) + v2
                    got = {k: v for k, v in sp.element_count.items()}
                    if got != want2:
                        viol.append({"property": "C08", "config": cname, "name": name, "what": f"renaming-table-replaced: {name}: parsed {got} under the table {newrepl}, composed from {want2}",
                                     "signature": f"C08:{cname}:renaming-table-replaced"})
                        break
            Species._replacement = saved_repl
        # names with a foreign character must be rejected
        for bad in ["H2Q", "C?O", "xH2", "H2O!", "C.O", "H 2", "H2 O", "C1_2", "C+2H", "H2\tO", "C 12", "O_2", "2H2", "13CO", "13", "18OH", "1H", "0C", "7#CO"] + (["Mg", "oH2", "pH3+", "HgO", "H2M", "CXO"] if (elements is not None and not pseudo) else []):
            cases += 1
            try:
                Species(bad, **kw)
                viol.append({"property": "C08", "config": cname, "name": bad, "what": f"accepted-foreign-character: {bad}",
                             "signature": f"C08:{cname}:accepted-foreign-character"})
            except Exception:
                pass
    fresh_species_state()
    return {"cases": cases, "distinct": cases, "violations": viol, "samples": [{"configs": [c[0] for c in configs]}],
            "bound": "all names over 1 symbol and 200 sampled (quick) / all (thorough: up to 3 symbols) ordered symbol tuples with counts {none,2,10[,12]}, labels, surface prefix '#'/'G', charges -1..+2, default and upper-case-with-replacement lists",
            "rule": "each generated name is one case; composition, charge, phase, gas name, rewritten name, is_atom and mass number compared"}


if __name__ == "__main__":
    import sys, json, logging
    logging.disable(logging.CRITICAL)
    if len(sys.argv) == 3 and sys.argv[1] == "--order":
        for label, fac in c09_networks():
            if label == sys.argv[2]:
                with contextlib.redirect_stdout(io.StringIO()), contextlib.redirect_stderr(io.StringIO()):
                    net = fac()
                    names = [s.name for s in net.species]
                print(json.dumps(names))


def oracle_alias_distinct(prop):
    """bounded check of the contract the ODE properties assume of Species.alias: on one network, different species have different
    aliases (one IDX_ macro and one state slot each) - excited / labelled / charged / ice forms next to their plain forms"""
    def oracle(tier, seed):
        viol, cases = [], 0
        extra = [("excited-next-to-ground", lambda: _plain_net([(["H2*", "H"], ["H2", "H"]), (["H2*"], ["H2"]), (["CO*", "H2"], ["CO", "H2*"])])),
                 ("labels-next-to-plain", lambda: _plain_net([(["c-C3H2", "H"], ["C3H2", "H"]), (["l-C3H2"], ["c-C3H2"]), (["oH2", "pH2"], ["H2", "H2"])])),
                 ("charge-ladder", lambda: _plain_net([(["C-", "e-"], ["C--"]), (["C+", "e-"], ["C"]), (["C++", "e-"], ["C+"]), (["GRAIN-", "e-"], ["GRAIN--"]), (["GRAIN0", "e-"], ["GRAIN-"])]))]
        for label, fac in list(c09_networks()) + extra:
            try:
                net = fac()
                species = list(net.species)
            except Exception as e:
                viol.append({"property": prop, "network": label, "what": f"network-raises: {type(e).__name__}: {e}", "signature": f"{prop}:{label}:network-raises"})
                continue
            cases += 1
            seen = {}
            for sp in species:
                if sp.alias in seen and seen[sp.alias] != sp.name:
                    viol.append({"property": prop, "network": label, "what": f"alias-collision: {seen[sp.alias]} and {sp.name} are different species of one network and both get the alias {sp.alias} (one IDX_ macro, one state slot)",
                                 "signature": f"{prop}:{label}:alias-collision"})
                seen.setdefault(sp.alias, sp.name)
        return {"cases": cases, "distinct": cases, "violations": viol, "samples": [{"networks": [l for l, _ in extra]}],
                "bound": f"{cases} small networks with plain / excited / labelled / charged / ice forms side by side", "rule": "one network is one case"}
    return oracle


def _plain_net(reacs):
    from naunet.network import Network
    fresh_species_state()
    return Network([mk_reaction(*r) for r in reacs])
